"""C13 - every request gets exactly one terminal outcome with the matching payload."""
import json
import os
import random
import re
from vlib import *
import reqresp_util as ru

ASSUME = [
    "real litep2p nodes over loopback TCP, WebSocket (over TCP) and QUIC, driven only through the public API (ConfigBuilder, Litep2p, "
    "RequestResponseHandle); commands are logged before they are given and events after they were observed, all under "
    "one mutex per network, so the order of a trace is consistent with causality",
    "silence is judged at a deadline of 3 x (connection-open + substream-open + 2 x request timeout + largest scripted "
    "response delay [+ 3 s on QUIC: quinn's handshake / idle timeout floor]) + 1 s after the last scripted step; a network during whose life timers fired more than an eighth of "
    "that bound late is discarded and re-run (never judged)",
    "concurrently outstanding inbound requests = shown to the responder's user and not yet answered / rejected by it",
    "requests shorter than 19 bytes cannot carry a nonce; scripts contain at most one such request per size and "
    "direction, and they are matched by sender and payload digest",
    "TLC bounds: ReqRespMC 1 requester, 1-2 responders, up to 3 requests, at most 2 connections in total, one cancel; "
    "ReqRespBoundMC (responder side) 2-3 requesters x 2-3 requests, bound 1-2; the environment is the "
    "connection manager's guarantees (C05/C07/C08): one outcome per dial, established/closed in order, a requested "
    "substream is reported at most once and never after its connection was reported closed",
]

# the model of the current code (pending_dials is a queue per peer since /repo e9eba69) must satisfy the untagged
# quiescence obligation: nothing is excused by a known-defect tag
MC_LINES = ["SPECIFICATION Spec", "INVARIANTS MonOK QuiesceStrict BooksOK BoundOK DeliveredOK", "VIEW View", "CHECK_DEADLOCK FALSE"]
BASEC = dict(MaxConc=1, MaxConn=2, MaxCancel=1, DialOpts="<- BothOpts", Fixed="<- FixedD9", Wedge=False, ImmErr=True, Foreign=True,
             Bugs="<- NoBugs", Idle=False, Faults=True, Stall=False, KeepHist=False)
# connection-level view of responses (C04 clause lifted to the connection): no link faults, the responder's
# connection task may exit on idle (Drain; Close), the monitor judges "reported complete => delivered"
IDLEC = dict(BASEC, Idle=True, Faults=False)
MV = ["CONSTANTS", "  p2 = p2", "  p3 = p3"]


def mc_configs(ctx):
    one = dict(BASEC, Peers="<- OnePeer", MaxReq=3)
    two = dict(BASEC, Peers="<- TwoPeers", MaxReq=2)
    idle = ("idle-close-1peer-2req", dict(IDLEC, Peers="<- OnePeer", MaxReq=2), MC_LINES)
    # the write phase of a request as its own step: completes | stalls with the connection staying up -> timeout
    stall = ("write-stall-1peer-2req", dict(BASEC, Peers="<- OnePeer", MaxReq=2, Stall=True), MC_LINES)
    if ctx.quick():
        return [("1peer-3req", one, MC_LINES), ("2peers-2req", two, MC_LINES + ["SYMMETRY Sym"]), idle, stall]
    return [("1peer-3req", one, MC_LINES), ("2peers-2req", two, MC_LINES + ["SYMMETRY Sym"]), idle, stall,
            ("idle-close-2peers-2req", dict(IDLEC, Peers="<- TwoPeers", MaxReq=2), MC_LINES + ["SYMMETRY Sym"]),
            ("1peer-3req-nolimit-2cancel", dict(one, MaxConc="<- NoLimit", MaxCancel=2, DialOpts="<- DialOnly"), MC_LINES),
            ("2peers-3req-nocancel", dict(BASEC, Peers="<- TwoPeers", MaxReq=3, MaxCancel=0, DialOpts="<- DialOnly", MaxConn=2),
             MC_LINES + ["SYMMETRY Sym"])]


B_LINES = ["SPECIFICATION BSpec", "INVARIANTS BMonOK BBoundOK", "CHECK_DEADLOCK FALSE"]


def bound_configs(ctx):
    """responder side with several requester peers (ReqRespBoundMC)"""
    cfgs = [("bound1-2requesters-2req", dict(Requesters={1, 2}, K=2, Bound=1, PerPeer=False)),
            ("bound2-3requesters-2req", dict(Requesters={1, 2, 3}, K=2, Bound=2, PerPeer=False))]
    if not ctx.quick():
        cfgs.append(("bound2-2requesters-3req", dict(Requesters={1, 2}, K=3, Bound=2, PerPeer=False)))
        cfgs.append(("bound1-3requesters-2req", dict(Requesters={1, 2, 3}, K=2, Bound=1, PerPeer=False)))
    return cfgs


def mc_runs(ctx):
    out = []
    for name, consts in bound_configs(ctx):
        r = tlc_mc(ctx, "ReqRespBoundMC.tla", write_cfg(ctx, "mcb_%s.cfg" % name, consts, B_LINES), workers=8, timeout=1200)
        if not r["ok"]:
            raise ToolError("ReqRespBoundMC violates an invariant in config %s; the model must be corrected or the "
                            "counterexample replayed:\n%s" % (name, r.get("error", r["out"][-3000:])))
        out.append({k: r[k] for k in ("transitions", "distinct", "depth", "wall_s") if k in r})
        out[-1]["cfg"] = name
        log("MC %s: %s" % (name, out[-1]))
    for name, consts, lines in mc_configs(ctx):
        r = tlc_mc(ctx, "ReqRespMC.tla", write_cfg(ctx, "mc_%s.cfg" % name, consts, lines + MV), workers=8, timeout=2400)
        if not r["ok"]:
            raise ToolError("ReqRespMC violates an invariant in config %s; the model "
                            "must be corrected or the counterexample replayed:\n%s" % (name, r.get("error", r["out"][-3000:])))
        out.append({k: r[k] for k in ("transitions", "distinct", "depth", "wall_s") if k in r})
        out[-1]["cfg"] = name
        log("MC %s: %s" % (name, out[-1]))
    return out


def generate(ctx):
    gl = ["SPECIFICATION Spec", "VIEW View", "ACTION_CONSTRAINT Emit", "CHECK_DEADLOCK FALSE"] + MV
    gb = dict(BASEC, ImmErr=False, Foreign=False)   # scripts cannot force an immediate dial error; shapes cover it
    sets = [("g1", dict(gb, Peers="<- OnePeer", MaxReq=2, MaxConn=1, KeepHist=True))]
    if not ctx.quick():
        sets.append(("g2", dict(gb, Peers="<- TwoPeers", MaxReq=2, MaxConn=1, MaxCancel=0, DialOpts="<- DialOnly", KeepHist=True)))
        sets.append(("g3", dict(gb, Peers="<- OnePeer", MaxReq=3, MaxConn=1, MaxCancel=0, DialOpts="<- DialOnly", KeepHist=True)))
    behs, stats = [], []
    for name, consts in sets:
        b, g = tlc_generate(ctx, "ReqRespMC.tla", write_cfg(ctx, "gen_%s.cfg" % name, consts, gl), timeout=1200)
        for x in b:
            for st in x["h"]:
                if "p" in st:   # model values p2, p3 -> node ids
                    st["p"] = int(str(st["p"]).lstrip("p"))
        behs += b
        g["cfg"] = name
        stats.append(g)
        log("GEN %s" % {k: g[k] for k in g if k != "spec"})
    return behs, stats


def scenarios(ctx, behs):
    """tcp: every shape (plain and under schedule perturbation), TLC-derived and random scripts; ws and quic: every
    shape that can run there plus a sample of the TLC-derived and random families (thorough: larger samples)."""
    shapes = ru.shape_scenarios(ctx.seed)
    ntlc, nrand = (140, 260) if ctx.quick() else (1500, 3000)
    tl, tlc_distinct = ru.tlc_scenarios(behs, ctx.seed, ntlc)
    rd = ru.random_scenarios(ctx.seed, nrand)
    fl = ru.flood_scenarios(ctx.seed)
    scs = shapes + fl + tl + rd
    mix = {"tcp": {"shape": len(shapes), "flood_over_event_channel_capacity": len(fl), "tlc": len(tl),
                   "tlc_distinct_scripts": tlc_distinct, "random": len(rd)}}
    for tr in ("ws", "quic"):
        sh, skipped = ru.on_transport(shapes if not ctx.quick() else [s for s in shapes if s["perturb"] == 0], tr)
        ntlc2, nrand2 = (30, 50) if ctx.quick() else (400, 800)
        tl2, _ = ru.tlc_scenarios(behs, ctx.seed, ntlc2, first_id=300000 + ru.TR_OFFSET[tr], tr=tr)
        rd2 = ru.random_scenarios(ctx.seed, nrand2, first_id=200000 + ru.TR_OFFSET[tr], tr=tr)
        scs += sh + tl2 + rd2
        mix[tr] = {"shape": len(sh), "tlc": len(tl2), "random": len(rd2), "shapes_not_run_need_byte_proxy": skipped}
    return scs, mix


def run_harness(ctx, scs, tag="s", env=None):
    write_jsonl(ctx.path("%s.jsonl" % tag), scs)
    summ, _ = harness(ctx, "reqresp", ["--scenarios", ctx.path("%s.jsonl" % tag), "--out", ctx.path("%s.ndjson" % tag),
                                       "--conc", 96, "--workers", 8], timeout=2400, env=env)
    return summ, read_lines(ctx.path("%s.ndjson" % tag))


def judge(ctx, lines, by_id):
    nseg, nev, rejects = validate_all(ctx, "ReqRespTrace.tla", "ReqRespTrace.cfg", lines)
    violations = []
    for r in rejects:
        seg, idx = r
        hdr = json.loads(seg[0])
        if r.reason.startswith("harness:") or r.reason == "unconsumed":
            raise ToolError("the recorded trace is malformed (%s) at %s" % (r.reason, seg[idx - 1][:300]))
        panics = [json.loads(x).get("msg", "") for x in seg[:idx] if '"e":"panic"' in x]
        for sig in ru.classify(seg, idx, r.reason):
            violations.append({"sig": sig, "what": "%s (scenario %s from %s on %s)%s at %s" % (
                                   r.reason, hdr.get("id"), hdr.get("src"), hdr.get("transport"),
                                   " after a panic of the code under test: %s" % panics[0][:160] if panics else "", seg[idx - 1][:300]),
                               "replay_obj": {"property": "C13", "reason": r.reason, "signature": sig,
                                              "scenario": by_id.get(hdr.get("id")),
                                              "segment": [json.loads(x) for x in seg[:idx]]}})
    return nseg, nev, rejects, violations


def check(ctx):
    mc = mc_runs(ctx)
    behs, gstats = generate(ctx)
    scs, mix = scenarios(ctx, behs)
    build_s = cargo_build(ctx, ["reqresp"])
    summ, lines = run_harness(ctx, scs)
    log("HARNESS: %s (build %ss)" % ({k: summ[k] for k in summ if k != "setup_error_sample"}, build_s))
    if summ["networks"] < 0.9 * len(scs):
        raise ToolError("only %d of %d networks met their timing assumptions (machine overloaded?)" % (summ["networks"], len(scs)))
    by_id = {s["id"]: s for s in scs}
    nseg, nev, rejects, violations = judge(ctx, lines, by_id)
    kinds, distinct, nontrivial = {}, set(), 0
    per_tr, cur = {}, None
    for ln in lines:
        if '"e":"reset"' in ln:
            cur = per_tr.setdefault(json.loads(ln).get("transport", "tcp"), {"executions": 0, "events": 0, "kinds": {}})
            cur["executions"] += 1
            continue
        k = json.loads(ln)["e"]
        kinds[k] = kinds.get(k, 0) + 1
        cur["events"] += 1
        cur["kinds"][k] = cur["kinds"].get(k, 0) + 1
    for r in rejects:
        t = json.loads(r[0][0]).get("transport", "tcp")
        per_tr[t]["rejected"] = per_tr[t].get("rejected", 0) + 1
    for s in scs:
        key = json.dumps([s["steps"], s["links"], s["nodes"]], sort_keys=True)
        if any(st["a"] == "burst" and st["reqs"] for st in s["steps"]):
            distinct.add(hash(key))
    needed = ["issue", "issued", "cancel", "resp", "fail", "recv", "answer", "reject", "kill", "quiesce"]
    missing = [k for k in needed if not kinds.get(k)]
    if missing:
        raise ToolError("event kinds never exercised: %s" % missing)
    samples = [json.loads(x) for x in lines[1:9]]
    cov = {
        "states": sum(m["distinct"] for m in mc),
        "transitions": sum(m["transitions"] for m in mc),
        "traces_validated_against_impl": nseg,
        "events_validated": nev,
        "samples": samples,
        "evaluations": nseg,
        "distinct_nontrivial": len(distinct),
        "rule": "a case is one scripted network of 2-4 real litep2p nodes (fixed dialogue shapes, scripts derived from "
                "behaviours of ReqRespMC - one per transition of the bounded graph, projected on user commands / responder "
                "behaviours / connection faults - and seeded random scripts) executed over loopback TCP under a seeded "
                "schedule-perturbing executor; distinct = distinct scripts that issue at least one request",
        "model_runs": mc,
        "generation": gstats,
        "scenario_mix": mix,
        "per_transport": per_tr,
        "harness": {k: summ[k] for k in summ if k != "setup_error_sample"},
        "event_kinds": kinds,
        "rejected_executions": len(rejects),
        "impl_divergences": None,
        "exhaustive": False,
    }
    ctx.notes.append("MODE=impl trace validation is not run: explaining a recorded network by ReqRespMC needs silent steps "
                     "for every protocol / manager / connection-task action; measured 1.8e7 states for 5 executions. The "
                     "spec->code direction is covered by scripts derived from ReqRespMC behaviours instead.")
    return conclude(ctx, "model_checking", cov, violations, ASSUME)


def replay(ctx, path):
    obj = json.load(open(path))
    for x in obj["segment"]:     # executions recorded before these fields existed
        if x.get("e") == "reset":
            x.setdefault("c04", False)
        if x.get("e") == "answer":
            x.setdefault("fb", False)
    seg = [json.dumps(x, separators=(",", ":")) for x in obj["segment"]]
    _, _, rej = validate_all(ctx, "ReqRespTrace.tla", "ReqRespTrace.cfg", seg)
    log("replay of the recorded execution: %s" % ("rejected: %s" % rej[0].reason if rej else "accepted"))
    rc = 1 if rej else 0
    if obj.get("scenario"):
        cargo_build(ctx, ["reqresp"])
        again = [dict(obj["scenario"], id=i + 1, seed=obj["scenario"]["seed"] + i) for i in range(5)]
        summ, lines = run_harness(ctx, again, tag="r")
        _, _, rej2 = validate_all(ctx, "ReqRespTrace.tla", "ReqRespTrace.cfg", lines, tag="b")
        log("re-execution of the scenario on the current tree: %d of %d runs rejected %s" %
            (len(rej2), summ["networks"], sorted({r.reason for r in rej2})))
        rc = 1 if rej2 or rej else 0
    return rc


def selftest(ctx):
    ok = True
    # (b) negative model: without the known-defect tag TLC must find the lost request itself
    neg = dict(BASEC, Peers="<- OnePeer", MaxReq=2, Fixed="<- FixedNone")   # pending_dials as the one-slot map it was before e9eba69
    r = tlc_mc(ctx, "ReqRespMC.tla", write_cfg(ctx, "neg.cfg", neg, MC_LINES + MV),
               workers=4, timeout=600, expect_violation=True)
    found = (not r["ok"]) and "QuiesceStrict is violated" in r["out"]
    log("selftest model: pending_dials as a one-slot map (code before e9eba69) vs QuiesceStrict -> %s" % ("violated (expected)" if found else "NOT violated"))
    ok &= found
    # the request context stored before the fallible dial() and kept when it fails at once (seeded change C13c)
    r = tlc_mc(ctx, "ReqRespMC.tla", write_cfg(ctx, "negk.cfg", dict(BASEC, Peers="<- OnePeer", MaxReq=2, Bugs="<- KeepCtx"),
                                               ["SPECIFICATION Spec", "INVARIANTS MonOK", "VIEW View", "CHECK_DEADLOCK FALSE"] + MV),
               workers=4, timeout=600, expect_violation=True)
    found = (not r["ok"]) and "Invariant MonOK is violated" in r["out"] and "second terminal event" in r["out"]
    log("selftest model: request context kept in pending_dials after an immediate dial error -> %s" %
        ("MonOK violated: second terminal event (expected)" if found else "NOT violated"))
    ok &= found
    # connection-level C04 clause: the connection task exits on idle without draining / the requester prefers the
    # close over a response that has already arrived
    for bug, what in (("NoDrain", "connection task exits on idle without draining yamux"),
                      ("CloseFirst", "on_connection_closed fails a request whose response has already arrived")):
        r = tlc_mc(ctx, "ReqRespMC.tla", write_cfg(ctx, "neg_%s.cfg" % bug, dict(IDLEC, Peers="<- OnePeer", MaxReq=2, Bugs="<- " + bug),
                                                   ["SPECIFICATION Spec", "INVARIANTS MonOK", "VIEW View", "CHECK_DEADLOCK FALSE"] + MV),
                   workers=4, timeout=600, expect_violation=True)
        found = (not r["ok"]) and "Invariant MonOK is violated" in r["out"] and "response reported sent but lost" in r["out"]
        log("selftest model: %s -> %s" % (what, "MonOK violated: response reported sent but lost (expected)" if found else "NOT violated"))
        ok &= found
    # the write phase of a request is not bounded by the request timeout (seeded change C13g)
    r = tlc_mc(ctx, "ReqRespMC.tla", write_cfg(ctx, "negw.cfg", dict(BASEC, Peers="<- OnePeer", MaxReq=2, Stall=True, Bugs="<- NoWriteTimeout"),
                                               ["SPECIFICATION Spec", "INVARIANTS MonOK QuiesceStrict", "VIEW View", "CHECK_DEADLOCK FALSE"] + MV),
               workers=4, timeout=600, expect_violation=True)
    found = (not r["ok"]) and "Invariant QuiesceStrict is violated" in r["out"] and "WriteStall" in r["out"]
    log("selftest model: a stalled request write has no timeout -> %s" % ("QuiesceStrict violated (expected)" if found else "NOT violated"))
    ok &= found
    # a Dial request that meets AlreadyConnected is queued instead of failed (seeded change C13f): lost in the window in
    # which the protocol has processed ConnectionClosed and the manager has not
    r = tlc_mc(ctx, "ReqRespMC.tla", write_cfg(ctx, "negq.cfg", dict(BASEC, Peers="<- OnePeer", MaxReq=2, Bugs="<- QueueAC"),
                                               ["SPECIFICATION Spec", "INVARIANTS MonOK QuiesceStrict", "VIEW View", "CHECK_DEADLOCK FALSE"] + MV),
               workers=4, timeout=600, expect_violation=True)
    found = (not r["ok"]) and "Invariant QuiesceStrict is violated" in r["out"] and "MgrClosed" in r["out"]
    log("selftest model: Dial request queued on AlreadyConnected (manager's view lags the protocol's on close) -> %s" %
        ("QuiesceStrict violated in the close-side window (expected)" if found else "NOT violated"))
    ok &= found
    # the drain in on_connection_closed swallows failed futures of other peers (seeded change C13e)
    r = tlc_mc(ctx, "ReqRespMC.tla", write_cfg(ctx, "negd.cfg", dict(BASEC, Peers="<- TwoPeers", MaxReq=2, Bugs="<- DrainAll"),
                                               ["SPECIFICATION Spec", "INVARIANTS MonOK QuiesceStrict", "VIEW View", "CHECK_DEADLOCK FALSE"] + MV),
               workers=4, timeout=600, expect_violation=True)
    found = (not r["ok"]) and "Invariant QuiesceStrict is violated" in r["out"]
    log("selftest model: failed request futures of other peers dropped by the drain of on_connection_closed (2 peers) -> %s" %
        ("QuiesceStrict violated (expected)" if found else "NOT violated"))
    ok &= found
    # on_connection_closed filters pending_outbound with the inverted predicate (seeded change C13d): with two peers
    # the healthy peer's opening request loses its context
    r = tlc_mc(ctx, "ReqRespMC.tla", write_cfg(ctx, "negf.cfg", dict(BASEC, Peers="<- TwoPeers", MaxReq=2, Bugs="<- InvFilter"),
                                               ["SPECIFICATION Spec", "INVARIANTS MonOK QuiesceStrict", "VIEW View", "CHECK_DEADLOCK FALSE"] + MV),
               workers=4, timeout=600, expect_violation=True)
    found = (not r["ok"]) and "is violated" in r["out"] and ("pending outbound request does not exist" in r["out"] or "QuiesceStrict" in r["out"])
    log("selftest model: pending_outbound filtered by the wrong peer when a connection closes (2 peers) -> %s" %
        ("violated (expected)" if found else "NOT violated"))
    ok &= found
    # responder side: the bound applied per remote peer instead of globally must break the monitor's bound rule
    r = tlc_mc(ctx, "ReqRespBoundMC.tla", write_cfg(ctx, "negb.cfg", dict(Requesters={1, 2}, K=2, Bound=1, PerPeer=True), B_LINES),
               workers=4, timeout=600, expect_violation=True)
    found = (not r["ok"]) and "Invariant BMonOK is violated" in r["out"]
    log("selftest model: inbound bound counted per requester peer (2 requesters x 2 requests, bound 1) -> %s" %
        ("BMonOK violated (expected)" if found else "NOT violated"))
    ok &= found
    # mutated copies of the model: one guard / update removed
    muts = [
        ("on_substream_event does not remove the request from `active` (second terminal event on close)",
         "         /\\ active' = [active EXCEPT ![p] = @ \\ {r}]\n         /\\ mon' = CASE res", "         /\\ active' = active\n         /\\ mon' = CASE res", "MonOK"),
        ("on_connection_closed forgets the active requests (silence)",
         "       /\\ mon' = FailEvs(FailEvs(FoldSet(LAMBDA r, acc : MonResp(acc, R, r, A(r)), mon, resp), failO), flush)",
         "       /\\ mon' = FailEvs(FoldSet(LAMBDA r, acc : MonResp(acc, R, r, A(r)), mon, resp), failO)", "QuiesceStrict"),
        ("responder bound compares with > instead of >=",
         "Cardinality(inb[p]) >= MaxConc", "Cardinality(inb[p]) > MaxConc", "MonOK"),
        ("a canceled request still reports an event (fine) and a response is delivered to the wrong request id",
         "CASE res = \"resp\" -> MonResp(mon, R, r, A(r))", "CASE res = \"resp\" -> MonResp(mon, R, r, A(0))", "MonOK"),
    ]
    src = open(os.path.join(SPEC, "ReqRespMC.tla")).read()
    for i, (what, a, b, inv) in enumerate(muts):
        if a not in src:
            raise ToolError("selftest mutation %d does not apply any more" % i)
        d = ctx.path("mut%d" % i)
        os.makedirs(d, exist_ok=True)
        open(os.path.join(d, "ReqRespMC.tla"), "w").write(src.replace(a, b))
        open(os.path.join(d, "ReqResp.tla"), "w").write(open(os.path.join(SPEC, "ReqResp.tla")).read())
        cfg = write_cfg(ctx, "mut%d.cfg" % i, dict(BASEC, Peers="<- OnePeer", MaxReq=3 if "A(0)" in b else 2), MC_LINES + MV)
        rc, out = run(["tlc", "-workers", "4", "-metadir", ctx.metadir(), "-cleanup", "-noGenerateSpecTE", "-config", cfg,
                       os.path.join(d, "ReqRespMC.tla")], timeout=900, cwd=ctx.work, env={"JAVA_TOOL_OPTIONS": "-Xss512m"})
        m = re.search(r"Invariant (\w+) is violated", out)
        hit = bool(m)
        log("selftest model mutation: %s -> %s" % (what, "%s violated (expected)" % m.group(1) if hit else "NOT detected"))
        ok &= hit
    # (a) binding demonstration on recorded executions of real nodes
    cargo_build(ctx, ["reqresp"])
    good = [s for s in ru.shape_scenarios(ctx.seed) if s["perturb"] == 0][:40]
    summ, lines = run_harness(ctx, good, tag="g")
    _, _, rej = validate_all(ctx, "ReqRespTrace.tla", "ReqRespTrace.cfg", lines)
    log("selftest: %d recorded networks, %d rejected as recorded" % (summ["networks"], len(rej)))
    ok &= not rej

    def corrupt(name, pick, edit, expect):
        nonlocal ok
        for i, ln in enumerate(lines):
            e = json.loads(ln)
            if pick(e):
                new = edit(lines, i, e)
                _, _, rj = validate_all(ctx, "ReqRespTrace.tla", "ReqRespTrace.cfg", new, tag="c")
                hit = [r for r in rj if expect in r.reason]
                log("selftest corrupt: %s at line %d -> %s" % (name, i + 1, "rejected: %s" % hit[0].reason if hit else "ACCEPTED"))
                ok &= bool(hit)
                return
        log("selftest corrupt: %s -> no suitable line" % name)
        ok = False

    J = lambda e: json.dumps(e, separators=(",", ":"))
    corrupt("terminal event dropped", lambda e: e["e"] == "fail", lambda L, i, e: L[:i] + L[i + 1:], "silence")
    corrupt("response duplicated", lambda e: e["e"] == "resp", lambda L, i, e: L[:i + 1] + [L[i]] + L[i + 1:], "second terminal")
    corrupt("response digest altered", lambda e: e["e"] == "resp", lambda L, i, e: L[:i] + [J(dict(e, h="00" + e["h"][2:]))] + L[i + 1:], "differs")
    corrupt("request shown twice", lambda e: e["e"] == "recv" and e["n"] >= 0,
            lambda L, i, e: L[:i + 1] + [J(dict(e, irid=e["irid"] + 7777))] + L[i + 1:], "twice")
    corrupt("answer hidden (bound / provenance)", lambda e: e["e"] == "answer", lambda L, i, e: L[:i] + L[i + 1:], "supplied none")
    # harness-level fault injection through the whole pipeline
    for fault, expect in (("drop_terminal", "silence"), ("dup_terminal", "second terminal"), ("corrupt_resp", "differs"),
                          ("recv_twice", "twice")):
        summ, fl = run_harness(ctx, good[:16], tag="f", env={"VERIF_FAULT": fault})
        _, _, rj = validate_all(ctx, "ReqRespTrace.tla", "ReqRespTrace.cfg", fl, tag="f")
        hit = [r for r in rj if expect in r.reason]
        log("selftest fault %s -> %d of %d networks rejected with '%s'" % (fault, len(hit), summ["networks"], expect))
        ok &= bool(hit)
    log("SELFTEST %s" % ("ok" if ok else "FAILED"))
    return 0 if ok else 2
