----------------------------- MODULE DecodersMC -----------------------------
(* Bounded enumeration for C19: every sequence of byte classes up to MaxLen  *)
(* through the LengthDelimited state machine (with the expected frames and   *)
(* final outcome), and the whole class space of the other decision tables    *)
(* and of the protobuf plan, one obligation per class.                       *)
EXTENDS Decoders, TLC, Json

CONSTANT MaxLen

VARIABLES phase, hist, s, cls
vars == <<phase, hist, s, cls>>

Tagged(kind, S) == {[kind |-> kind, c |-> x] : x \in S}
AllClasses ==
       Tagged("rps", RpsClasses) \cup Tagged("sub", SubClasses) \cup Tagged("msg", MsgClasses)
  \cup Tagged("lis", ListenerClasses) \cup Tagged("dia", DialerClasses) \cup Tagged("pb", PbPlan)
  \cup Tagged("kadpid", KadPeerIdClasses) \cup Tagged("bsblk", BsBlockClasses)
  \cup Tagged("rt_kad", KadValues) \cup Tagged("rt_bitswap", BitswapValues)
  \cup Tagged("rt_mss", MssValues) \cup Tagged("rt_mss_sweep", MssSweepValues) \cup Tagged("rt_identify", IdentifyValues)

Expected(x) ==
  CASE x.kind = "rps" -> RpsVerdict(x.c)
    [] x.kind = "sub" -> SubVerdict(x.c)
    [] x.kind = "msg" -> MsgVerdict(x.c)
    [] x.kind = "lis" -> ListenerVerdict(x.c)
    [] x.kind = "dia" -> DialerVerdict(x.c)
    [] x.kind = "kadpid" -> KadPeerIdVerdict(x.c)
    [] x.kind = "bsblk" -> BsBlockVerdict(x.c)
    [] OTHER -> "ok"

Init == phase = "init" /\ hist = <<>> /\ s = LdInit /\ cls = [kind |-> "none"]

Next ==
  \/ /\ phase = "init" /\ phase' = "ld" /\ UNCHANGED <<hist, s, cls>>
  \/ /\ phase = "ld" /\ Len(hist) < MaxLen /\ s.st \notin {"invalid", "maxlen"}
     /\ \E t \in LdTokens : hist' = Append(hist, t) /\ s' = LdStep(s, t)
     /\ UNCHANGED <<phase, cls>>
  \/ /\ phase = "ld" /\ phase' = "ld_eof" /\ UNCHANGED <<hist, s, cls>>      \* the input ends here
  \/ /\ phase = "init" /\ phase' = "cls" /\ cls' \in AllClasses /\ UNCHANGED <<hist, s>>

Spec == Init /\ [][Next]_vars

\* the fold used by the trace spec and the step-by-step machine agree, errors absorb,
\* and frames are made of bytes that were supplied
LdConsistent ==
  phase \in {"ld", "ld_eof"} =>
    /\ LdRun(LdInit, hist) = s
    /\ LET total == Len(s.frames) + Len(s.cur) IN total <= Len(hist)
    /\ \A i \in 1..Len(s.frames) : Len(s.frames[i]) <= MaxFrame
    /\ LdAllocBounded(s)
\* every table is total over its class space and only names known outcomes
TablesTotal ==
  phase = "cls" =>
    Expected(cls) \in {"ok", "not-enough-bytes", "decode-error", "overflow", "error", "end", "frame",
                       "header", "na", "ls", "protocol", "protocols", "pending", "accepted", "rejected",
                       "not-ready", "succeeded", "usable", "dropped", "value"}
\* every value the transcribed decoders accept lies in the domain of the consumer conversions
DecodedValuesUsable == phase = "cls" /\ cls.kind = "kadpid" => AcceptedValuesUsable(cls.c)
\* a negotiation never succeeds on a payload with an undecodable or truncated part
NegotiationSound ==
  phase = "cls" /\ cls.kind \in {"lis", "dia"} =>
    (Expected(cls) \in {"accepted", "succeeded"} =>
       /\ cls.c.first \notin {"invalid", "truncated", "badvarint"}
       /\ cls.c.second \notin {"invalid", "truncated", "badvarint"}
       /\ "proto_sup" \in {cls.c.first, cls.c.second})

Emit ==
  IF phase' = "ld_eof"
    THEN PrintT(<<"B", ToJson([kind |-> "ld", toks |-> hist, lens |-> LdLens(s), final |-> LdFinal(s)])>>)
  ELSE IF phase' = "cls"
    THEN PrintT(<<"B", ToJson([kind |-> cls'.kind, c |-> cls'.c, exp |-> Expected(cls'),
                               aux |-> IF cls'.kind = "rt_mss_sweep" THEN MssSweepAux(cls'.c) ELSE [enclen |-> 0, fits |-> TRUE]])>>)
  ELSE TRUE
=============================================================================
