"""C06 - connection caps: at most two per peer, configured limits never exceeded, capacity released on close."""
import json
from vlib import *
import connmgr_util as cm

ASSUME = [
    "a connection counts from the manager's accept() call on the transport until its closure is reported to the "
    "manager (or the accept future fails)",
    "the transport is legal (see C05); one stimulus at a time",
    "TLC bounds: 2 peers, up to 3-4 connection ids, limits in {none, 0, 1, 2} combinations; random runs use 3 peers",
]


def check(ctx):
    mc, gstats, summ, lines, nseg, nev, rejects, drift = cm.pipeline(ctx, "C06")
    violations = []
    for r in rejects:
        seg, idx = r
        if r.reason not in cm.C06_REASONS:
            continue
        sig = r.reason.replace(" ", "-")
        violations.append({"sig": sig, "what": "%s at %s" % (r.reason, seg[idx - 1][:500]),
                           "replay_obj": {"property": "C06", "reason": r.reason, "signature": sig,
                                          "segment": [json.loads(x) for x in seg[:idx]]}})
    cov = cm.evidence(mc, gstats, summ, lines, nseg, nev, drift)
    # how often were the caps actually exercised?
    acc = rej = 0
    for ln in lines:
        if '"c":"accept"' in ln:
            acc += ln.count('"c":"accept"')
        if '"c":"reject"' in ln or '"c":"reject_pending"' in ln:
            rej += 1
    # unbounded histories: ConnCaps!IndInv (caps, exact limit sets, PeerState agrees with the connection phases) is
    # proved inductive by Apalache for a reusable pool of connection ids; ConnMgrMC refines ConnCaps (checked by TLC
    # above on every transition), and the real manager follows ConnMgrMC step by step (impl_divergences)
    ind = [apalache_inductive(ctx, "ConnCaps.tla", "ConstInit2x4", timeout=600)]
    if not ctx.quick():
        ind.append(apalache_inductive(ctx, "ConnCaps.tla", "ConstInit3x5", timeout=1800))
        ind.append(apalache_inductive(ctx, "ConnCaps.tla", "ConstInit4x6", timeout=3600))
    for r in ind:
        log("APALACHE inductive invariant %s: %s" % (r.get("cinit"), r))
    cov["inductive_invariant"] = ind
    cov["refinement"] = "ConnMgrMC => ConnCaps (CapsRefinement as TLC action property, CapsInd as invariant) in every model run"
    cov["accept_calls"] = acc
    cov["steps_with_rejection"] = rej
    return conclude(ctx, "model_checking", cov, violations, ASSUME)


def replay(ctx, path):
    obj = json.load(open(path))
    seg = [json.dumps(x, separators=(",", ":")) for x in obj["segment"]]
    _, _, rej = validate_all(ctx, "ConnMgrTrace.tla", "ConnMgrTrace.cfg", seg)
    rej = [r for r in rej if r.reason in cm.C06_REASONS]
    log("replay: %s" % ("rejected: %s" % rej[0].reason if rej else "accepted"))
    return 1 if rej else 0


def selftest(ctx):
    return cm.selftest(ctx, "C06")
