"""C02 - Noise transport delivers the exact byte stream or fails (NoisePipe.tla)."""
import json
import os
import random
import re
import shutil
import time
from vlib import *

ASSUME = [
    "AEAD is ideal in the model: a frame decrypts iff it is byte-identical to what the writer produced and carries the "
    "nonce the reader expects (strength of snow/ChaChaPoly is assumed, not checked)",
    "the model checker runs unit-scaled (MSG=5, TAG=1, header=2: a max. frame carries 3 units); the same operators are "
    "evaluated at real scale (65536/16) on the recorded traces",
    "the writer finishes before carrier/reader start in the large model runs (reader behaviour is a function of stream, "
    "chunk script and read buffers only); a small fully interleaved run cross-checks this",
    "one attack per connection (single-frame tamper / truncate / replay / drop / reorder / stream cut), as in the property",
    "read-ahead / write-buffer settings >= 1 (0 makes the socket unusable by construction and is not a supported setting)",
    "the carrier itself never fails a write; a panic on re-polling a reader that already returned an error is recorded, not judged",
]

U = {"MSG": 5, "TAG": 1}
ALLK = {"body", "hdr", "trunc", "drop", "cut", "swap", "replay"}


def mc_cfgs(ctx):
    """(name, constants, property) for the exhaustive runs."""
    base = dict(U, MaxOps=200, MaxPend=1, MaxQueue=3, MaxFrames=2, Phased=True, RoomSizes={1, 20})
    fixed = dict(base, CHUNK=3)      # as in the code: MAX_FRAME_LEN = MSG - 1 - TAG, the largest payload snow accepts
    out = [
        ("reader11", dict(fixed, R=1, W=1, WSizes={1, 3}, RBufs={1, 3}, ChunkSizes={1, 2}, MaxWrites=2, PlanKinds=set()), "StepOK"),
        ("writer2", dict(fixed, R=1, W=2, WSizes={1, 3, 4, 7}, RBufs={3}, ChunkSizes={2}, MaxWrites=3, MaxPend=0, MaxQueue=2, PlanKinds=set()), "StepOK"),
        ("attacks", dict(fixed, R=1, W=1, WSizes={1, 3}, RBufs={1, 3}, ChunkSizes={1, 2}, MaxWrites=2, MaxQueue=2, RoomSizes={20}, PlanKinds=ALLK), "StepOK"),
    ]
    if not ctx.quick():
        out += [
            ("reader21", dict(fixed, R=2, W=1, WSizes={2, 3}, RBufs={1, 2, 4}, ChunkSizes={1, 3}, MaxWrites=2, PlanKinds=set()), "StepOK"),
            ("writer", dict(fixed, R=1, W=2, WSizes={1, 3, 5, 7}, RBufs={3}, ChunkSizes={2}, MaxWrites=3, MaxPend=0, MaxQueue=2, PlanKinds=set()), "StepOK"),
            ("attacks-drip", dict(fixed, R=1, W=1, WSizes={1, 3}, RBufs={1, 3}, ChunkSizes={1, 2}, MaxWrites=2, MaxQueue=2, PlanKinds=ALLK), "StepOK"),
            ("attacks3", dict(fixed, R=2, W=2, WSizes={3, 5}, RBufs={2, 3}, ChunkSizes={2}, MaxWrites=2, MaxFrames=3, MaxPend=0, MaxQueue=2, RoomSizes={20}, PlanKinds=ALLK), "StepOK"),
            ("interleaved", dict(fixed, R=1, W=1, WSizes={3}, RBufs={1, 3}, ChunkSizes={2}, MaxWrites=2, MaxQueue=2, Phased=False, PlanKinds={"body", "drop"}), "StepOK"),
        ]
    return out


def lines_for(prop):
    return ["SPECIFICATION Spec", "INVARIANTS StateInv NoLoop", "PROPERTIES %s" % prop, "VIEW View", "CHECK_DEADLOCK FALSE"]


GEN_LINES = ["SPECIFICATION Spec", "VIEW View", "ACTION_CONSTRAINT Emit", "CHECK_DEADLOCK FALSE"]


def gen_cfgs(ctx):
    base = dict(U, R=1, W=1, CHUNK=3, RBufs={1, 3}, MaxWrites=2, MaxOps=200, MaxPend=1, MaxQueue=2, MaxFrames=2, Phased=True)
    out = [
        ("g1", dict(base, RoomSizes={20}, WSizes={2, 3}, ChunkSizes={2}, PlanKinds={"body", "drop"})),
        ("g2", dict(base, RoomSizes={20}, WSizes={1, 3}, ChunkSizes={1}, MaxQueue=3, PlanKinds=set())),
    ]
    # multi-frame writes, partial accepts (W=1) and two buffered frames (W=2)
    out.append(("g4", dict(base, W=2, RoomSizes={20}, WSizes={4, 7}, RBufs={3}, ChunkSizes={2}, MaxPend=0, PlanKinds=set())))
    out.append(("g5", dict(base, W=1, RoomSizes={1, 20}, WSizes={5}, RBufs={3}, ChunkSizes={2}, MaxWrites=1, MaxPend=0, PlanKinds=set())))
    if not ctx.quick():
        out.append(("g3", dict(base, W=2, RoomSizes={3, 20}, WSizes={3}, ChunkSizes={2}, MaxPend=0, PlanKinds=ALLK)))
    return out


def classify(seg, idx):
    ev = json.loads(seg[idx - 1])
    hdr = json.loads(seg[0])
    if ev.get("e") == "write" and ev.get("res") == "err" and ev.get("req", 0) >= 65520 and ev.get("kind") == "InvalidData":
        return "write-ge-65520-fails-invalid-data"
    return "%s-%s-plan-%s" % (ev.get("e"), ev.get("res", ""), hdr.get("plan", {}).get("kind"))


def run_harness(ctx, behs, nrandom, nbig, out):
    write_jsonl(ctx.path("behs.jsonl"), behs)
    args = ["--behaviours", ctx.path("behs.jsonl"), "--systematic", "--random", nrandom, "--big", nbig,
            "--seed", ctx.seed, "--threads", 8, "--out", out]
    if not ctx.quick():
        args.append("--thorough")
    return harness(ctx, "noisepipe", args)


def check(ctx):
    mc = []
    for name, consts, prop in mc_cfgs(ctx):
        r = tlc_mc(ctx, "NoisePipeMC.tla", write_cfg(ctx, "mc_%s.cfg" % name, consts, lines_for(prop)), workers=8)
        if not r["ok"]:
            raise ToolError("the Impl layer of NoisePipe is rejected by the Prop monitor in config %s (model error, "
                            "not a code verdict):\n%s" % (name, r.get("error", r["out"][-2500:])))
        mc.append(dict({k: r[k] for k in ("transitions", "distinct", "depth", "wall_s") if k in r}, cfg=name, property=prop))
        log("MC %s: %s" % (name, mc[-1]))
    behs, gstats = [], []
    for name, consts in gen_cfgs(ctx):
        b, g = tlc_generate(ctx, "NoisePipeMC.tla", write_cfg(ctx, "gen_%s.cfg" % name, consts, GEN_LINES))
        gstats.append(dict(g, cfg=name))
        behs += b
    total_behs = len(behs)
    cap = 5000 if ctx.quick() else 60000
    if len(behs) > cap:
        random.Random(ctx.seed).shuffle(behs)
        behs = behs[:cap]
    log("GEN: %d behaviours (one per transition), %d replayed: %s" % (total_behs, len(behs), gstats))
    build_s = cargo_build(ctx, ["noisepipe"])
    summ, _ = run_harness(ctx, behs, 1500 if ctx.quick() else 30000, 24 if ctx.quick() else 200, ctx.path("trace.ndjson"))
    log("HARNESS: %s (build %ss)" % (summ, build_s))
    lines = read_lines(ctx.path("trace.ndjson"))
    segs = split_segments(lines, lambda ln: '"e":"reset"' in ln)
    nseg, nev, rejects = validate_segments(ctx, "NoisePipeTrace.tla", "NoisePipeTrace.cfg", lines, mode="prop", max_rejects=8)
    violations = []
    for seg, idx in rejects:
        violations.append({"sig": classify(seg, idx),
                           "what": "real NoiseSocket event not allowed by NoisePipe!PropAccepts: %s" % seg[idx - 1][:500],
                           "replay_obj": {"property": "C02", "rejected_event_index": idx,
                                          "segment": [json.loads(x) for x in seg[:idx]]}})
    _, _, drift = validate_segments(ctx, "NoisePipeTrace.tla", "NoisePipeTrace.cfg", lines, mode="impl", max_rejects=5, tag="d")
    for seg, idx in drift:
        log("NOTE drift: real NoiseSocket deviates from the Impl layer at %s" % seg[idx - 1][:300])
    if summ.get("panics_on_repoll_after_error"):
        ctx.notes.append("poll_read called again after it returned a decrypt error panics (`frame_size` to exist) in %d runs; "
                         "not forbidden by C02 (nothing is delivered), recorded only" % summ["panics_on_repoll_after_error"])
    distinct = len({"\n".join(s[1:]) + json.dumps(json.loads(s[0])["plan"]) for s in segs})
    light = sum(1 for s in segs if '"light":true' in s[0])
    known = load_known(ctx.pid)
    judged = not any(v["sig"] not in known for v in violations)   # a verdict is never masked by a coverage complaint
    for k in () if not judged else ("reader_aux_tail_states", "reader_carry1_states", "reader_partial_frame_states", "writer_two_frames_buffered",
              "write_pending", "write_partial", "quiesced"):
        if not summ.get(k):
            raise ToolError("coverage hole: the real runs never reached %s" % k)
    for k in ALLK | {"none"}:
        if judged and not summ["by_plan"].get(k):
            raise ToolError("coverage hole: no real run with attack kind %s" % k)
    cov = {
        "states": sum(m["distinct"] for m in mc),
        "transitions": sum(m["transitions"] for m in mc),
        "traces_validated_against_impl": light,
        "traces_validated_against_prop": nseg,
        "events_validated": nev,
        "samples": [json.loads(x) for x in lines[:6]],
        "evaluations": nseg,
        "distinct_nontrivial": distinct,
        "rule": "a case is one connection: real handshake, a schedule of poll_write / poll_flush / carrier room / chunk "
                "script / Pending / poll_read calls on two real NoiseSockets plus at most one attack on the real ciphertext, "
                "driven to quiescence; distinct = distinct (attack, recorded event sequence); all contain reads or a failing write",
        "model_runs": mc,
        "generation": gstats,
        "behaviours_generated": total_behs,
        "behaviours_replayed": len(behs),
        "harness": summ,
        "impl_divergences": len(drift),
        "exhaustive": False,
    }
    return conclude(ctx, "model_checking", cov, violations, ASSUME)


# ---------------------------------------------------------------------------------- self-test

MUTANTS = [
    ("carry-over copies the wrong byte", "PosOf(D.runs, D.nread - 1), n |-> 1", "PosOf(D.runs, D.nread - 2), n |-> 1"),
    ("auxiliary tail max_read off by one", '!.maxRead = D.nread + fs - rem]', '!.maxRead = D.nread + fs - rem - 1]'),
    ("poll_write returns requested instead of accepted", 'res |-> "ok", acc |-> p.done, inner', 'res |-> "ok", acc |-> n, inner'),
    ("plaintext delivered after failed decrypt", 'IF ~dec.ok THEN Ret(D1, ch, "err", "decrypt", 0, 0, inner)\n        ELSE Ret([D1 EXCEPT !.offset',
     'IF FALSE THEN Ret(D1, ch, "err", "decrypt", 0, 0, inner)\n        ELSE Ret([D1 EXCEPT !.offset'),
    ("partial frame advances by plaintext size", '!.dbuf = TRUE, !.offset = @ + p.fsz]', '!.dbuf = TRUE, !.offset = @ + p.size]'),
    ("nonce not checked (replay accepted)", "/\\ St[s].hl = fs /\\ St[s].good /\\ St[s].k = rn}", "/\\ St[s].hl = fs /\\ St[s].good}"),
]

REACH = ["auxiliary-tail", "frame-continues-in-buffer", "one-byte-carry-over", "frame-delivered-in-pieces", "write-partial-accept",
         "write-pending", "two-frames-buffered", "attack-error", "quiescence"]


def selftest(ctx):
    ok = True
    # (b) mutated copies of the spec: one guard/arith changed => TLC must report the property violated
    src = open(os.path.join(SPEC, "NoisePipe.tla")).read()
    consts = dict(U, MaxOps=200, MaxPend=1, MaxQueue=2, MaxFrames=2, Phased=True, RoomSizes={1, 20}, CHUNK=3, R=1, W=1,
                  WSizes={1, 3, 5}, RBufs={1, 3}, ChunkSizes={1, 2}, MaxWrites=2, PlanKinds={"body", "replay"})
    cfg = write_cfg(ctx, "mut.cfg", consts, lines_for("StepOK"))
    for i, (name, old, new) in enumerate(MUTANTS):
        if old not in src:
            raise ToolError("mutant pattern not found: %s" % name)
        d = ctx.path("mut%d" % i)
        os.makedirs(d)
        open(os.path.join(d, "NoisePipe.tla"), "w").write(src.replace(old, new, 1))
        shutil.copy(os.path.join(SPEC, "NoisePipeMC.tla"), d)
        rc, out = run(["tlc", "-workers", "6", "-metadir", ctx.metadir(), "-cleanup", "-noGenerateSpecTE", "-config", cfg,
                       os.path.join(d, "NoisePipeMC.tla")], timeout=600, cwd=d, env={"JAVA_TOOL_OPTIONS": "-Xss512m"})
        bad = "is violated" in out
        log("selftest model mutant '%s' -> %s" % (name, "property violated (good)" if bad else "NOT DETECTED"))
        ok &= bad
    # (c) reachability of the interesting situations in the bounded model (transition counts)
    small = dict(consts, PlanKinds={"body"}, RBufs={1, 3}, ChunkSizes={1, 2}, MaxQueue=2)
    tot = [0] * 9
    for nm, cc in (("w1", dict(small, W=1, WSizes={3, 5})), ("w2", dict(small, W=2, WSizes={1, 3}, MaxWrites=3, MaxPend=0, RBufs={3}, ChunkSizes={2}))):
        rcfg = write_cfg(ctx, "reach_%s.cfg" % nm, cc, ["SPECIFICATION ProbeSpec", "ACTION_CONSTRAINT Probe", "POSTCONDITION ProbeReport", "VIEW View", "CHECK_DEADLOCK FALSE"])
        rc, out = run(["tlc", "-workers", "1", "-metadir", ctx.metadir(), "-cleanup", "-noGenerateSpecTE", "-config", rcfg,
                       os.path.join(SPEC, "NoisePipeMC.tla")], timeout=900, cwd=ctx.work, env={"JAVA_TOOL_OPTIONS": "-Xss512m"})
        m = re.search(r'<<"REACH", <<([0-9, ]+)>>', out)
        if not m:
            raise ToolError("reachability probe failed:\n" + out[-2000:])
        tot = [a + int(b) for a, b in zip(tot, m.group(1).split(","))]
    for r, n in zip(REACH, tot):
        log("selftest reachability %s -> %d transitions" % (r, n))
        ok &= n > 0
    # (a) binding demonstration on a good recorded trace
    cargo_build(ctx, ["noisepipe"])
    harness(ctx, "noisepipe", ["--systematic", "--random", 60, "--seed", ctx.seed, "--out", ctx.path("t.ndjson")])
    lines = read_lines(ctx.path("t.ndjson"))
    rnd = random.Random(ctx.seed)

    # lines inside light segments before the reader's first error (the only ones the Impl layer is bound to)
    bound, cur, live = set(), False, False
    for i, ln in enumerate(lines):
        if '"e":"reset"' in ln:
            cur, live = '"light":true' in ln, True
        elif '"res":"err"' in ln or '"res":"panic"' in ln:
            live = False
        elif cur and live:
            bound.add(i)

    def corrupt(pred, mut, what, mode="prop"):
        idxs = [i for i, ln in enumerate(lines) if (mode == "prop" or i in bound) and pred(json.loads(ln))]
        if not idxs:
            raise ToolError("selftest: no event to corrupt for %s" % what)
        i = rnd.choice(idxs[:2000])
        ev = json.loads(lines[i])
        mut(ev)
        p = ctx.path("mut.ndjson")
        open(p, "w").write("\n".join(lines[:i] + [json.dumps(ev, separators=(",", ":"))] + lines[i + 1:]) + "\n")
        r = tlc_trace(ctx, "NoisePipeTrace.tla", "NoisePipeTrace.cfg", p, mode=mode)
        good = r is not None and r <= i + 2
        log("selftest corrupt %s at line %d (%s) -> %s" % (what, i + 1, mode, "rejected at %s" % r if r else "ACCEPTED"))
        return good

    rd = lambda e: e.get("e") == "read" and e.get("res") == "ok"
    ok &= corrupt(rd, lambda e: e.update(start=e["start"] + 1), "read start (gap)")
    ok &= corrupt(rd, lambda e: e.update(match=False), "read content")
    ok &= corrupt(lambda e: rd(e) and e["len"] > 1, lambda e: e.update(len=e["len"] - 1), "read length (loss)")
    ok &= corrupt(lambda e: e.get("e") == "write" and e.get("res") == "ok", lambda e: e.update(acc=e["acc"] + 1), "write accepted count")
    ok &= corrupt(lambda e: e.get("e") == "read" and e.get("res") == "err" and e.get("kind") == "InvalidData",
                  lambda e: e.update(res="ok", len=1, start=0), "tamper error turned into data")
    ok &= corrupt(rd, lambda e: e["st"].update(nread=e["st"]["nread"] + 1), "reader cursor nread", mode="impl")
    # harness-level faults: the whole pipeline must flag them
    for fault in ("dup", "lose", "flip", "swallow_err", "write_req"):
        harness(ctx, "noisepipe", ["--systematic", "--big", 40, "--seed", ctx.seed, "--out", ctx.path("f.ndjson")], env={"VERIF_FAULT": fault})
        fl = read_lines(ctx.path("f.ndjson"))
        _, _, rej = validate_segments(ctx, "NoisePipeTrace.tla", "NoisePipeTrace.cfg", fl, max_rejects=1, tag="f")
        log("selftest harness fault %s -> %s" % (fault, "rejected (%s)" % classify(*rej[0]) if rej else "ACCEPTED"))
        ok &= bool(rej)
    log("SELFTEST %s" % ("ok" if ok else "FAILED"))
    return 0 if ok else 2


def replay(ctx, path):
    obj = json.load(open(path))
    seg = [json.dumps(x, separators=(",", ":")) for x in obj["segment"]]
    nseg, nev, rej = validate_segments(ctx, "NoisePipeTrace.tla", "NoisePipeTrace.cfg", seg)
    log("replay: %s" % ("rejected at %d" % rej[0][1] if rej else "accepted"))
    return 1 if rej else 0
