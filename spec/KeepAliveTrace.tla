---------------------------- MODULE KeepAliveTrace ----------------------------
(* Trace validation of timed logs of real two-node networks (harness bin      *)
(* `keepalive`) against the monitor of KeepAlive.tla.  A broken rule is       *)
(* printed as <<"BAD", line, rule>> and forgiven for that connection.         *)
EXTENDS KeepAlive, Json, IOUtils

Rec == ndJsonDeserialize(IOEnv.TRACE)

VARIABLES l, mon
tvars == <<l, mon>>

TInit == l = 1 /\ mon = MonInit(1000, 1000, FALSE)

TNext ==
  /\ l <= Len(Rec)
  /\ l' = l + 1
  /\ LET r == Rec[l] IN
     IF r.e = "reset" THEN mon' = MonInit(r.T, r.slack, r.strict)
     ELSE LET m == MonEv(mon, r) IN
          /\ mon' = Forgive(m)
          /\ (m.bad # "" => PrintT(<<"BAD", l, m.bad>>))

TSpec == TInit /\ [][TNext]_tvars

Accepted ==
  LET d == TLCGet("stats").diameter IN
  IF d - 1 = Len(Rec) THEN PrintT(<<"TRACE_OK", Len(Rec)>>)
  ELSE PrintT(<<"TRACE_REJECTED_AT", d>>) /\ FALSE
=============================================================================
