SPECIFICATION Spec
INVARIANTS DerivedIdParses TableConsistent
CHECK_DEADLOCK FALSE
