------------------------------ MODULE KeepAliveMC ------------------------------
(***************************************************************************)
(* Timed (discrete ticks) implementation-shaped model of the keep-alive    *)
(* mechanism of ONE connection, composed with the monitor of KeepAlive.tla *)
(* (C09).  Transcribed from                                                *)
(*   src/protocol/transport_service.rs  KeepAliveTracker (last_activity,   *)
(*       pending_keep_alive_timeouts: a timer is pushed only when no entry *)
(*       exists; a firing timer re-arms for the remaining time or removes  *)
(*       the entry and downgrades the handle), open_substream (activity +  *)
(*       try_upgrade for keep-alive protocols only), SubstreamOpened       *)
(*   src/protocol/connection.rs         ConnectionHandle Active/Inactive,  *)
(*       Permit (a strong sender of the connection's command channel)      *)
(*   src/transport/tcp/connection.rs    opening permit, lifetime permit    *)
(*       stored in substreams of keep-alive protocols only; the loop ends  *)
(*       when the last strong sender is gone                               *)
(* Protocols: K (substreams keep the connection alive: user protocols,     *)
(* notifications, request-response, Kademlia, Bitswap) and N (ping,        *)
(* identify).  Every protocol has its own tracker and handle.  Time: `now` *)
(* in ticks, T = TT ticks.  Timers, the loop exit and negotiations of N    *)
(* protocols are urgent (time does not pass while they are due); a         *)
(* negotiation of a K protocol may take time (the remote may stall).       *)
(***************************************************************************)
EXTENDS KeepAlive, SequencesExt, FiniteSetsExt, Json

CONSTANTS K, N,       \* protocol names
          TT,         \* keep-alive timeout in ticks
          Horizon,    \* last tick
          MaxSub,     \* bound on substream opens
          Mutant

VARIABLES now, hs, last, tmr, opening, subs, closed, nid, mon, hist

vars == <<now, hs, last, tmr, opening, subs, closed, nid, mon, hist>>
PP == K \cup N
None == -1
S == "c"                      \* the connection's name in monitor events
Ms(t) == t * 1000
Obs(r) == mon' = MonEv(mon, r)
\* every recorded stimulus carries the projection the real TransportService must show afterwards
\* (handle activity and whether the tracker holds an entry); must be the last conjunct of an action
Stim(s) == hist' = Append(hist, s @@ [hs |-> hs', trk |-> [q \in PP |-> last'[q] # None]])

Init ==
  /\ now = 0
  /\ hs = [q \in PP |-> "active"]              \* report_connection_established hands out Active handles
  /\ last = [q \in PP |-> 0]                   \* KeepAliveTracker::on_connection_established
  /\ tmr = [q \in PP |-> TT]
  /\ opening = {} /\ subs = {} /\ closed = FALSE /\ nid = 0
  /\ mon = MonEv(MonInit(Ms(TT), 0, FALSE), [e |-> "est", s |-> S, t0 |-> 0, t1 |-> 0])
  /\ hist = <<>>

\* a strong sender exists: an Active handle, a permit of a pending open, a lifetime permit
Strong == (\E q \in PP : hs[q] = "active") \/ opening # {} \/ subs # {}
TimerDue == \E q \in PP : tmr[q] # None /\ tmr[q] <= now
ExitEnabled == ~closed /\ ~Strong
Urgent == TimerDue \/ ExitEnabled \/ (\E o \in opening : o.q \in N)

Tick ==
  /\ ~closed /\ now < Horizon /\ ~Urgent
  /\ now' = now + 1
  /\ Obs([e |-> "check", s |-> S, t |-> Ms(now + 1)])
  /\ UNCHANGED <<hs, last, tmr, opening, subs, closed, nid, hist>>

\* KeepAliveTracker::substream_activity
Activity(q) ==
  /\ last' = [last EXCEPT ![q] = now]
  /\ tmr' = IF last[q] = None THEN [tmr EXCEPT ![q] = now + TT] ELSE tmr

\* a protocol opens a substream (TransportService::open_substream); `rem` = the remote opens one
\* towards protocol q (the connection task takes the permit)
\* `fb`: an inbound substream was negotiated under a fallback name of the protocol (the remote only speaks
\* the old name); the keep-alive setting of a fallback name is that of its main protocol
Open(q, rem, fb) ==
  /\ ~closed /\ nid < MaxSub /\ Strong          \* a permit can be obtained
  /\ nid' = nid + 1
  /\ opening' = opening \cup {[q |-> q, id |-> nid, rem |-> rem, fb |-> fb, at |-> now]}
  /\ IF q \in K /\ ~rem
       THEN /\ Activity(q)
            /\ hs' = [hs EXCEPT ![q] = "active"]                       \* try_upgrade
       ELSE UNCHANGED <<last, tmr, hs>>
  /\ IF q \in K THEN Obs([e |-> "open_begin", s |-> S, t |-> Ms(now), rem |-> rem]) ELSE UNCHANGED mon
  /\ UNCHANGED <<now, subs, closed>>
  /\ Stim([a |-> IF rem THEN "ropen" ELSE "open", q |-> q, id |-> nid, fb |-> fb, at |-> now])

\* TransportService::open_substream of a keep-alive protocol fails synchronously with ChannelClogged (the
\* connection's command channel is full).  Order of the code: permit, substream_activity, try_upgrade,
\* then the send that fails (the permit is dropped with the error).  Mutant "activity-after-send": the
\* activity is recorded only after a successful send, the upgrade still before it.
OpenClogged(q) ==
  /\ ~closed /\ nid < MaxSub /\ Strong /\ q \in K
  /\ nid' = nid + 1
  /\ IF Mutant = "activity-after-send" THEN UNCHANGED <<last, tmr>> ELSE Activity(q)
  /\ hs' = [hs EXCEPT ![q] = "active"]
  /\ Obs([e |-> "open_clogged", s |-> S, t |-> Ms(now)])
  /\ UNCHANGED <<now, opening, subs, closed>>
  /\ Stim([a |-> "clog", q |-> q, at |-> now])

\* the negotiation succeeded: SubstreamOpened reaches the protocol, the opening permit is dropped;
\* substreams of K protocols carry a lifetime permit
Opened(o) ==
  /\ ~closed /\ o \in opening
  /\ opening' = opening \ {o}
  /\ IF o.q \in K
       THEN /\ Activity(o.q)
            /\ hs' = [hs EXCEPT ![o.q] = "active"]
            \* the lifetime permit is stored according to the keep-alive map of the connection's ProtocolSet
            \* (main and fallback names); mutant: fallback names are looked up wrongly and get none
            /\ subs' = IF Mutant = "fallback-no-permit" /\ o.rem /\ o.fb THEN subs ELSE subs \cup {[q |-> o.q, id |-> o.id, sh |-> "full"]}
            /\ Obs([e |-> "open_ok", s |-> S, t |-> Ms(now), tb |-> Ms(o.at), rem |-> o.rem])
       ELSE /\ UNCHANGED <<last, tmr, hs, mon>>
            /\ subs' = IF Mutant = "ping-holds-permit" THEN subs \cup {[q |-> o.q, id |-> o.id, sh |-> "full"]} ELSE subs
  /\ UNCHANGED <<now, closed, nid>>
  /\ Stim([a |-> "opened", q |-> o.q, id |-> o.id, rem |-> o.rem, at |-> now])

OpenFails(o) ==
  /\ ~closed /\ o \in opening
  /\ opening' = opening \ {o}
  /\ IF o.q \in K THEN Obs([e |-> "open_fail", s |-> S, t |-> Ms(now), rem |-> o.rem]) ELSE UNCHANGED mon
  /\ UNCHANGED <<now, hs, last, tmr, subs, closed, nid>>
  /\ Stim([a |-> "fail", q |-> o.q, id |-> o.id, rem |-> o.rem, at |-> now])

Drop(x) ==
  /\ ~closed /\ x \in subs /\ x.q \in K
  /\ subs' = IF Mutant = "permit-leak" THEN subs ELSE subs \ {x}
  \* begin and done coincide in the model
  /\ mon' = MonEv(MonEv(mon, [e |-> "drop_begin", s |-> S, t |-> Ms(now)]), [e |-> "drop_done", s |-> S, t |-> Ms(now)])
  /\ UNCHANGED <<now, hs, last, tmr, opening, closed, nid>>
  /\ Stim([a |-> "drop", id |-> x.id, at |-> now])

\* The holder half-closes the substream by reference (write side shut down: `Sink::close(&mut s)` /
\* `AsyncWrite::shutdown`), or the remote closed its write side and the object is only read from.  The
\* substream OBJECT still exists, and with it the lifetime permit.  Mutant "permit-released-at-shutdown":
\* shutting the write half down releases the permit.
HalfClose(x, shape) ==
  /\ ~closed /\ x \in subs /\ x.q \in K /\ x.sh = "full"
  /\ subs' = IF Mutant = "permit-released-at-shutdown" /\ shape = "write"
               THEN subs \ {x} ELSE (subs \ {x}) \cup {[x EXCEPT !.sh = shape]}
  /\ UNCHANGED <<now, hs, last, tmr, opening, closed, nid, mon>>
  /\ Stim([a |-> "half", id |-> x.id, shape |-> shape, at |-> now])

\* KeepAliveTracker::poll_next for a due timer, then TransportService::poll_next downgrades
TimerFires(q) ==
  /\ ~closed /\ tmr[q] # None /\ tmr[q] <= now
  /\ IF last[q] = None THEN tmr' = [tmr EXCEPT ![q] = None] /\ UNCHANGED <<last, hs>>
     ELSE IF now - last[q] < TT /\ Mutant # "no-rearm"
       THEN tmr' = [tmr EXCEPT ![q] = last[q] + TT] /\ UNCHANGED <<last, hs>>
       ELSE /\ tmr' = [tmr EXCEPT ![q] = None]
            /\ last' = [last EXCEPT ![q] = None]
            /\ hs' = [hs EXCEPT ![q] = "inactive"]
  /\ UNCHANGED <<now, opening, subs, closed, nid, mon>>
  \* the expiry that downgrades the handle is part of the schedule replayed on the real service
  /\ IF last[q] # None /\ ~(now - last[q] < TT /\ Mutant # "no-rearm")
       THEN Stim([a |-> "expire", q |-> q, at |-> now]) ELSE UNCHANGED hist

\* protocol_set.next() yields None: "protocols have disconnected, closing connection"
LoopExit ==
  /\ ExitEnabled
  /\ closed' = TRUE
  /\ Obs([e |-> "closed", s |-> S, t |-> Ms(now), by |-> "self"])
  /\ UNCHANGED <<now, hs, last, tmr, opening, subs, nid, hist>>

Next ==
  \/ Tick \/ LoopExit
  \/ \E q \in PP : TimerFires(q) \/ Open(q, FALSE, FALSE) \/ (q \in K /\ \E fb \in BOOLEAN : Open(q, TRUE, fb)) \/ OpenClogged(q)
  \/ \E o \in opening : Opened(o) \/ OpenFails(o)
  \/ \E x \in subs : Drop(x) \/ (\E shape \in {"write", "read"} : HalfClose(x, shape))

Spec == Init /\ [][Next]_vars

-----------------------------------------------------------------------------
MonOK == mon.bad = ""
\* stated directly on the model state as well
KOpening == {o \in opening : o.q \in K}
NotWhileBusy == closed => ({x \in subs : x.q \in K} = {} /\ KOpening = {})
\* an Active handle is always covered by a tracker entry and a pending timer: it will be released
\* once the protocol is idle (idle => eventually released)
ActiveTracked == \A q \in PP : hs[q] = "active" => (last[q] # None /\ tmr[q] # None)
\* at the horizon an idle connection is closed (liveness as a bounded-time obligation)
ClosedAtHorizon == (now = Horizon /\ ~Urgent /\ subs = {} /\ opening = {} /\ mon.c[S].idleSince + Ms(TT) < Ms(Horizon)) => closed

View == <<now, hs, last, tmr, opening, subs, closed, nid, mon>>
Emit == PrintT(<<"B", ToJson([stims |-> hist', closed |-> closed', at |-> now'])>>)
=============================================================================
