---------------------------- MODULE NotifStreamMC ----------------------------
(***************************************************************************)
(* Implementation-shaped model of the data plane of one notification stream *)
(* direction (handle.rs NotificationSink + connection.rs Connection task on *)
(* the sending side, Connection task + NotificationHandle on the receiving  *)
(* side), across close / reopen cycles:                                     *)
(*   syncCh / asyncCh   bounded tokio channels of the sink (try_send / send)*)
(*   slot               Connection.next_notification (parked while the      *)
(*                      outbound substream is not ready)                    *)
(*   pq / pf            the Sink of the outbound Substream: pending_out_frames *)
(*                      (queue, poll_ready is Pending at SinkCap entries) and *)
(*                      pending_out_frame (the unwritten remainder of a      *)
(*                      frame whose poll_write was partial: it goes first);  *)
(*                      a "big" notification needs two writes                *)
(*   wire               the byte stream below (FIFO of chunks, C04), room    *)
(*                      for WireCap chunks before poll_write returns Pending *)
(*   notifCh            the handle's shared inbound channel (cap N); a slot  *)
(*                      is reserved (poll_reserve) before the substream is  *)
(*                      read; it survives close / reopen                    *)
(*   rview / sview      handle.peers on both sides (events travel on a      *)
(*                      separate channel: the receiver may see Closed before *)
(*                      it drained notifCh; the filter `peers.contains_key` *)
(*                      then drops, or a reopened stream lets stale          *)
(*                      notifications through)                              *)
(* checked against the ledger of NotifStream.tla.                           *)
(***************************************************************************)
EXTENDS NotifStream, Integers, SequencesExt, Json

CONSTANTS S, A, N, WireCap, SinkCap, MaxSend, MaxReopen,
          Sizes,  \* subset of {"small", "big", "over"}: big = larger than one write accepts, over = above the maximum
          Mut,   \* "none" or a seeded defect for the negative configurations
          Fixed, \* TRUE: model of the proposed repair (notifications carry the generation of their stream)
          KnownStale  \* TRUE: the stale-delivery-after-reopen finding is recorded as known

VARIABLES syncCh, asyncCh, slot, pq, pf, wire, fin, notifCh, sview, rview, stask, rtask, per, nxt, nsend, nre, D, stale, hist

vars == <<syncCh, asyncCh, slot, pq, pf, wire, fin, notifCh, sview, rview, stask, rtask, per, nxt, nsend, nre, D, stale, hist>>
Note(a) == hist' = Append(hist, a)
Nil == [m |-> "none"]
MAXSZ == 10

Init ==
  /\ syncCh = <<>> /\ asyncCh = <<>> /\ slot = Nil /\ pq = <<>> /\ pf = Nil /\ wire = <<>> /\ fin = FALSE /\ notifCh = <<>>
  /\ sview = TRUE /\ rview = TRUE /\ stask = TRUE /\ rtask = TRUE
  /\ per = 1 /\ nxt = [m \in Modes |-> 1] /\ nsend = 0 /\ nre = 0
  /\ D = POpened(DInit(S, A, MAXSZ), 1)
  /\ stale = FALSE /\ hist = <<>>

\* parts = number of writes the frame needs (a partial write leaves a remainder)
\* "empty" = a zero-length notification: it carries no identity (n = 0)
Msg(m, sz) == [m |-> m, per |-> per, n |-> IF sz = "empty" THEN 0 ELSE nxt[m],
               len |-> IF sz = "over" THEN MAXSZ + 1 ELSE IF sz = "empty" THEN 0 ELSE MAXSZ, parts |-> IF sz = "big" THEN 2 ELSE 1]

\* NotificationSink::send_sync_notification (try_send)
SendSync(sz) ==
  /\ sview /\ nsend < MaxSend
  /\ nsend' = nsend + 1
  /\ LET msg == Msg("s", sz) IN
     IF ~stask THEN /\ D' = PSend(D, "s", per, msg.n, msg.len, "noconn", 0, TRUE)
                    /\ UNCHANGED <<syncCh, nxt>>
     ELSE IF Len(syncCh) >= S THEN
          /\ D' = PSend(D, "s", per, msg.n, msg.len, "clogged", 0, TRUE)
          /\ UNCHANGED <<syncCh, nxt>>
     ELSE /\ syncCh' = Append(syncCh, msg)
          /\ nxt' = [nxt EXCEPT !["s"] = IF msg.n = 0 THEN @ ELSE @ + 1]
          /\ D' = PSend(D, "s", per, msg.n, msg.len, "ok", 0, msg.n # 0)
  /\ Note([a |-> "ssend", sz |-> sz])
  /\ UNCHANGED <<asyncCh, slot, pq, pf, wire, fin, notifCh, sview, rview, stask, rtask, per, nre, stale>>

\* NotificationSink::send_async_notification (send().await): waits while the channel is full
SendAsync(sz) ==
  /\ sview /\ nsend < MaxSend
  /\ LET msg == Msg("a", sz) IN
     \/ /\ ~stask
        /\ D' = PSend(D, "a", per, msg.n, msg.len, "err", 0, TRUE)
        /\ UNCHANGED <<asyncCh, nxt>>
     \/ /\ stask /\ Len(asyncCh) < A
        /\ asyncCh' = Append(asyncCh, msg)
        /\ nxt' = [nxt EXCEPT !["a"] = IF msg.n = 0 THEN @ ELSE @ + 1]
        /\ D' = PSend(D, "a", per, msg.n, msg.len, "ok", 0, msg.n # 0)
  /\ nsend' = nsend + 1
  /\ Note([a |-> "asend", sz |-> sz])
  /\ UNCHANGED <<syncCh, slot, pq, pf, wire, fin, notifCh, sview, rview, stask, rtask, per, nre, stale>>

\* Connection::poll_next, sending half: select! over async_rx / sync_rx
ConnTake ==
  /\ stask /\ slot = Nil
  \* (seeded defect "skip_empty": a dequeued empty notification is not written)
  /\ \/ /\ asyncCh # <<>> /\ slot' = (IF Mut = "skip_empty" /\ Head(asyncCh).len = 0 THEN Nil ELSE Head(asyncCh)) /\ asyncCh' = Tail(asyncCh) /\ UNCHANGED syncCh
     \/ /\ syncCh # <<>> /\ slot' = (IF Mut = "skip_empty" /\ Head(syncCh).len = 0 THEN Nil ELSE Head(syncCh)) /\ syncCh' = Tail(syncCh) /\ UNCHANGED asyncCh
  /\ UNCHANGED <<pq, pf, wire, fin, notifCh, sview, rview, stask, rtask, per, nxt, nsend, nre, D, stale, hist>>

\* the sending task ends: channels, the parked notification and the task are gone; the substream is shut down
EndSender == /\ stask' = FALSE /\ syncCh' = <<>> /\ asyncCh' = <<>> /\ slot' = Nil /\ pq' = <<>> /\ pf' = Nil /\ fin' = TRUE

\* poll_ready / start_send on the outbound substream: the frame joins pending_out_frames
ConnWrite ==
  /\ stask /\ slot # Nil
  /\ IF slot.len > MAXSZ
       THEN \* start_send fails (larger than the codec's maximum): CloseConnection
            /\ EndSender /\ UNCHANGED wire
       ELSE /\ \/ /\ Len(pq) < SinkCap /\ pq' = Append(pq, [msg |-> slot, part |-> 1]) /\ slot' = Nil
               \/ /\ Mut = "drop_parked" /\ Len(pq) >= SinkCap /\ slot' = Nil /\ UNCHANGED pq
               \/ /\ Mut = "dup_write" /\ Len(pq) + 1 < SinkCap /\ pq' = pq \o <<[msg |-> slot, part |-> 1], [msg |-> slot, part |-> 1]>> /\ slot' = Nil
            /\ UNCHANGED <<syncCh, asyncCh, stask, fin, pf, wire>>
  /\ UNCHANGED <<notifCh, sview, rview, rtask, per, nxt, nsend, nre, D, stale, hist>>

\* Sink::poll_flush: one poll_write.  The parked remainder (pending_out_frame) is taken first, else the head of
\* pending_out_frames; a write that accepts only part of the frame parks the remainder again.
\* (seeded defect "requeue_back": the remainder is put at the back of pending_out_frames)
SinkFlush ==
  /\ stask /\ Len(wire) < WireCap
  /\ IF pf # Nil
       THEN /\ wire' = Append(wire, [id |-> <<pf.msg.m, pf.msg.per, pf.msg.n>>, part |-> pf.part, msg |-> pf.msg])
            /\ pf' = Nil /\ UNCHANGED pq
       ELSE /\ pq # <<>>
            /\ LET f == Head(pq) IN
               /\ wire' = Append(wire, [id |-> <<f.msg.m, f.msg.per, f.msg.n>>, part |-> f.part, msg |-> f.msg])
               /\ IF f.part < f.msg.parts
                    THEN IF Mut = "requeue_back"
                           THEN pq' = Append(Tail(pq), [f EXCEPT !.part = f.part + 1]) /\ pf' = Nil
                           ELSE pf' = [f EXCEPT !.part = f.part + 1] /\ pq' = Tail(pq)
                    ELSE pq' = Tail(pq) /\ pf' = Nil
  /\ UNCHANGED <<syncCh, asyncCh, slot, fin, notifCh, sview, rview, stask, rtask, per, nxt, nsend, nre, D, stale, hist>>

\* receiving half: reserve a slot of the handle's channel, then read one frame from the inbound substream: the length
\* prefix of the first chunk says how many chunks belong to it; whatever bytes follow are taken as its body
ConnRead ==
  /\ rtask /\ wire # <<>> /\ Len(notifCh) < N
  /\ LET c == Head(wire) IN
     IF c.part # 1
       THEN \* the stream is mis-framed: garbage is handed on (or the read fails)
            /\ notifCh' = Append(notifCh, [c.msg EXCEPT !.parts = 0]) /\ wire' = Tail(wire)
       ELSE IF c.msg.parts = 1
         THEN /\ notifCh' = Append(notifCh, c.msg) /\ wire' = Tail(wire)
         ELSE /\ Len(wire) >= 2
              /\ LET c2 == wire[2] IN
                 notifCh' = Append(notifCh, IF c2.id = c.id /\ c2.part = 2 THEN c.msg ELSE [c.msg EXCEPT !.parts = 0])
              /\ wire' = SubSeq(wire, 3, Len(wire))
  /\ UNCHANGED <<syncCh, asyncCh, slot, pq, pf, fin, sview, rview, stask, rtask, per, nxt, nsend, nre, D, stale, hist>>

\* NotificationHandle::poll_next: notifications of peers not in `peers` are dropped
UserRecv ==
  /\ notifCh # <<>>
  /\ notifCh' = Tail(notifCh)
  /\ LET x == Head(notifCh) IN
     \* repaired: a notification of an earlier stream generation is dropped
     \* (parts = 0 marks a body that is not the bytes of that notification)
     D' = IF (rview /\ (~Fixed \/ x.per = per)) \/ Mut = "no_filter" THEN PDeliver(D, x.m, x.per, x.n, x.len, x.parts # 0, x.n # 0) ELSE D
  /\ Note([a |-> "recv"])
  /\ UNCHANGED <<syncCh, asyncCh, slot, pq, pf, wire, fin, sview, rview, stask, rtask, per, nxt, nsend, nre, stale>>

\* the sender's side ends the stream (close_substream / error); the user learns it later
SenderEnds == /\ stask /\ EndSender /\ Note([a |-> "sclose"])
              /\ UNCHANGED <<wire, notifCh, sview, rview, rtask, per, nxt, nsend, nre, D, stale>>
SenderSeesClosed == /\ ~stask /\ sview /\ sview' = FALSE /\ D' = PClosed(D)
                    /\ UNCHANGED <<syncCh, asyncCh, slot, pq, pf, wire, fin, notifCh, rview, stask, rtask, per, nxt, nsend, nre, stale, hist>>
\* the receiving task ends: after the sender shut the substream down and everything was read,
\* or at any time (receiver closes / connection lost): unread data is discarded
ReceiverEnds == /\ rtask /\ (fin => TRUE) /\ rtask' = FALSE /\ wire' = <<>>
                /\ (stask => EndSender) /\ (~stask => UNCHANGED <<syncCh, asyncCh, slot, pq, pf, stask, fin>>)
                /\ Note([a |-> "rclose"])
                /\ UNCHANGED <<notifCh, sview, rview, per, nxt, nsend, nre, D, stale>>
ReceiverSeesClosed == /\ ~rtask /\ rview /\ rview' = FALSE
                      /\ UNCHANGED <<syncCh, asyncCh, slot, pq, pf, wire, fin, notifCh, sview, stask, rtask, per, nxt, nsend, nre, D, stale, hist>>

Reopen ==
  /\ ~stask /\ ~rtask /\ ~sview /\ ~rview /\ nre < MaxReopen
  /\ nre' = nre + 1 /\ per' = per + 1 /\ nxt' = [m \in Modes |-> 1]
  /\ stask' = TRUE /\ rtask' = TRUE /\ sview' = TRUE /\ rview' = TRUE /\ wire' = <<>> /\ fin' = FALSE
  /\ D' = POpened(D, per + 1)
  \* notifications of the closed stream still sit in the handle's channel: they will pass the filter
  /\ stale' = (stale \/ (notifCh # <<>> /\ ~Fixed))
  /\ Note([a |-> "reopen"])
  /\ UNCHANGED <<syncCh, asyncCh, slot, pq, pf, notifCh, nsend>>

Next == \/ \E sz \in Sizes : SendSync(sz) \/ SendAsync(sz)
        \/ ConnTake \/ ConnWrite \/ SinkFlush \/ ConnRead \/ UserRecv
        \/ SenderEnds \/ SenderSeesClosed \/ ReceiverEnds \/ ReceiverSeesClosed \/ Reopen

Spec == Init /\ [][Next]_vars

LedgerOK == D.bad = "" \/ (KnownStale /\ stale)
\* nothing in flight and the stream open on both sides: everything accepted was delivered
Drained == stask /\ rtask /\ sview /\ rview /\ syncCh = <<>> /\ asyncCh = <<>> /\ slot = Nil /\ pq = <<>> /\ pf = Nil /\ wire = <<>> /\ notifCh = <<>>
NoLoss == (Drained /\ ~(KnownStale /\ stale)) => PEnd(D, TRUE).bad = ""
\* the synchronous channel never holds more than its capacity, the asynchronous one neither (send waits)
Bounded == Len(syncCh) <= S /\ Len(asyncCh) <= A /\ Len(notifCh) <= N
View == <<syncCh, asyncCh, slot, pq, pf, wire, fin, notifCh, sview, rview, stask, rtask, per, nxt, nsend, nre, D, stale>>
Emit == (hist' # hist) => PrintT(<<"B", ToJson(hist')>>)
=============================================================================
