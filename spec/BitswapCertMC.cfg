SPECIFICATION Spec
CONSTANTS
  KnownFindings = TRUE
INVARIANTS TableOK
CHECK_DEADLOCK FALSE
