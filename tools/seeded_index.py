#!/usr/bin/env python3
"""Regenerate seeded/INDEX.md from the meta.json files (status derived from `detected_by`)."""
import glob, json, os
HERE = os.path.dirname(os.path.abspath(__file__))
rows, n = [], {"caught at seeding": 0, "caught after strengthening": 0, "open (missed)": 0}
for m in sorted(glob.glob(f"{HERE}/../seeded/C*/meta.json")):
    d = json.load(open(m))
    det = d.get("detected_by", "")
    low = det.lower()
    missed = "missed" in low or "tool error" in low or "not caught" in low
    if not missed:
        st = "caught at seeding"
    elif "requested" in low and "VIOLATION" not in det:
        st = "open (missed)"
    else:
        st = "caught after strengthening"
    n[st] += 1
    rows.append(f"| {d['id']} | {d['property']} | {st} | {d['summary'][:110].replace('|', '/')} |")
ret = sorted(os.path.basename(os.path.dirname(p)) for p in glob.glob(f"{HERE}/../seeded/_retired/*/meta.json"))
out = ["# Seeded changes (generated from the meta.json files; see DESIGN.md 10.4)", "",
       "| id | property | status | change |", "|---|---|---|---|"] + rows + ["",
       f"{len(rows)} stored: " + ", ".join(f"{v} {k}" for k, v in n.items()) + ".",
       "Retired (invalid as seeded changes, kept for the record): " + ", ".join(ret) + "."]
open(f"{HERE}/../seeded/INDEX.md", "w").write("\n".join(out) + "\n")
print(out[-2])
