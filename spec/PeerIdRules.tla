----------------------------- MODULE PeerIdRules -----------------------------
(***************************************************************************)
(* Peer ids (litep2p src/peer_id.rs), property C18, as explicit decision   *)
(* tables over abstract input classes.                                     *)
(*                                                                         *)
(* Derivation class  [klen, kind]                                          *)
(*   klen  length of the protobuf-encoded key: 0 | 1_41 | 42 | 43 | 44_100 *)
(*   kind  blob (arbitrary bytes) | ed25519 (a real key, 36 bytes encoded) *)
(*                                                                         *)
(* Parse class  [code, dlen, decl, vform, text]                            *)
(*   code  multihash code: identity | sha2_256 | otherknown | unassigned   *)
(*   dlen  declared digest length: 0 | 1_31 | 32 | 33_42 | 43_64 | 65plus  *)
(*   decl  bytes present vs declared: eq | short (fewer) | long (trailing) *)
(*   vform form of the code / length varints: minimal | nonminimal |       *)
(*         overflow (10 bytes, bits beyond 2^64 set, low bits spell the    *)
(*         value) | toolong (more than 10 bytes)                           *)
(*   text  form of the base58 text: valid | badalphabet | empty (the empty  *)
(*         input, as text and as bytes)                                     *)
(* Impl* transcribes litep2p; the property-level oracle for parsing is the *)
(* reference implementation (libp2p-identity), bound in the trace spec.    *)
(***************************************************************************)
EXTENDS Naturals, Sequences, FiniteSets

KLens == {"0", "1_41", "42", "43", "44_100"}
Kinds == {"blob", "ed25519"}
DeriveClasses == {c \in [klen : KLens, kind : Kinds] : c.kind = "ed25519" => c.klen = "1_41"}

\* C18: identity multihash of the encoding when it is at most 42 bytes, SHA-256 otherwise
Derive(c) == IF c.klen \in {"0", "1_41", "42"} THEN "identity" ELSE "sha2_256"
\* digest length class of the derived multihash
DerivedDLen(c) ==
  IF Derive(c) = "sha2_256" THEN {"32"}
  ELSE CASE c.klen = "0" -> {"0"} [] c.klen = "1_41" -> {"1_31", "32", "33_42"} [] c.klen = "42" -> {"33_42"}

Codes == {"identity", "sha2_256", "otherknown", "unassigned"}
DLens == {"0", "1_31", "32", "33_42", "43_64", "65plus"}
Decls == {"eq", "short", "long"}
VForms == {"minimal", "nonminimal", "overflow", "toolong"}
Texts == {"valid", "badalphabet", "empty"}

ParseClasses ==
  {c \in [code : Codes, dlen : DLens, decl : Decls, vform : VForms, text : Texts] :
     /\ (c.decl = "short" => c.dlen # "0")              \* nothing can be missing from 0 bytes
     /\ (c.text = "empty" => c.code = "identity" /\ c.dlen = "0" /\ c.decl = "eq" /\ c.vform = "minimal")}

\* Impl: Multihash::<64>::from_bytes + PeerId::from_multihash
\* (the varint reader of the multihash crate drops bits beyond 2^64: `overflow` reads
\* like `minimal`)
ImplMultihashParses(c) ==
  /\ c.text # "empty"
  /\ c.vform \in {"minimal", "overflow"}
  /\ c.decl = "eq"
  /\ c.dlen # "65plus"
ImplParsesBytes(c) ==
  /\ ImplMultihashParses(c)
  /\ \/ c.code = "sha2_256"                                      \* any digest length up to 64
     \/ c.code = "identity" /\ c.dlen \in {"0", "1_31", "32", "33_42"}
ImplParsesText(c) == c.text = "valid" /\ ImplParsesBytes(c)

Verdict(b) == IF b THEN "accept" ELSE "reject"

\* how a parse class is reached: raw bytes, base58 text, /p2p multiaddress component
\* (binary form), serde human-readable (JSON string), serde binary (byte string)
Vias == {"bytes", "text", "multiaddr", "serde_text", "serde_bin"}
ImplVerdict(c, via) ==
  IF via \in {"text", "serde_text"} THEN Verdict(ImplParsesText(c)) ELSE Verdict(ImplParsesBytes(c))

\* ---- Prop: one observed parse.  real / ref in {accept, reject, panic};
\* same: both sides produced the same peer id bytes; rt: the accepted id survived the
\* conversions to bytes, text, multiaddress component and both serde forms and back
PropParse(real, ref, same, rt) ==
  /\ real \in {"accept", "reject"}
  /\ real = ref
  /\ real = "accept" => same /\ rt

\* ---- Prop: one observed derivation.  got: the multihash code class of the derived id;
\* bytesOk: equals the independently computed multihash; refOk: the reference derives /
\* accepts the same id; rt as above
PropDerive(c, got, bytesOk, refOk, rt) == got = Derive(c) /\ bytesOk /\ refOk /\ rt
-----------------------------------------------------------------------------
(* Position of the peer id inside a multiaddress (PeerId::try_from_multiaddr). *)
(* Class [n, f, s, same]: n = number of /p2p components (0..2); f = what       *)
(* follows the first one (for n = 0: what follows the base address):           *)
(* last (nothing) | circuit (/p2p-circuit) | other (another protocol);         *)
(* s = what follows the second one; same = both carry the same id.             *)
(* Rule (litep2p's documented semantics): Some(p) iff the LAST component of    *)
(* the address is /p2p/p.                                                      *)
Follows == {"last", "circuit", "other"}
MaddrClasses ==
       [n : {0}, f : {"last", "circuit"}, s : {"last"}, same : {TRUE}]
  \cup [n : {1}, f : Follows, s : {"last"}, same : {TRUE}]
  \cup [n : {2}, f : Follows, s : Follows, same : BOOLEAN]
After(x) == IF x = "last" THEN <<>> ELSE <<x>>
\* the address as a sequence of component tokens
MaddrLayout(c) ==
  <<"base">> \o (IF c.n = 0 THEN After(c.f) ELSE <<"p2pA">> \o After(c.f))
            \o (IF c.n = 2 THEN <<IF c.same THEN "p2pA" ELSE "p2pB">> \o After(c.s) ELSE <<>>)
IdOf(t) == CASE t = "p2pA" -> "A" [] t = "p2pB" -> "B" [] OTHER -> "none"
\* the rule on the layout, and the same as a table over the class
LastComponentRule(l) == IdOf(l[Len(l)])
ExpectedMaddr(c) ==
  CASE c.n = 0 -> "none"
    [] c.n = 1 -> IF c.f = "last" THEN "A" ELSE "none"
    [] c.n = 2 -> IF c.s = "last" THEN (IF c.same THEN "A" ELSE "B") ELSE "none"
\* negative model: the first /p2p component wherever it sits
FirstComponentRule(l) ==
  LET hits == {i \in 1..Len(l) : IdOf(l[i]) # "none"} IN
  IF hits = {} THEN "none" ELSE IdOf(l[CHOOSE i \in hits : \A j \in hits : i <= j])
\* Prop: one observed try_from_multiaddr on an address of class c (binary or textual form);
\* appendRt: appending /p2p/<p> to that address and reading back gives p
PropMaddr(c, got, appendRt) == got = ExpectedMaddr(c) /\ appendRt

\* The library's own appender AddressRecord::new(peer P, address, score): the address is
\* kept when it ENDS with /p2p/X (reads back X), otherwise /p2p/P is appended (reads back P);
\* what `new` produced is accepted by AddressRecord::from_multiaddr.
ExpectedRecordNew(c) == IF ExpectedMaddr(c) # "none" THEN ExpectedMaddr(c) ELSE "P"
\* the rule on the layout; negative model: append only if NO /p2p component occurs anywhere
RecordNewLastRule(l) == IF LastComponentRule(l) # "none" THEN LastComponentRule(l) ELSE "P"
RecordNewAnyRule(l) == IF \E i \in 1..Len(l) : IdOf(l[i]) # "none" THEN LastComponentRule(l) ELSE "P"
\* newGot: try_from_multiaddr of the record's address; newOk: the address is the expected one
\* (unchanged or with /p2p/P appended) and from_multiaddr accepts it
PropRecordNew(c, newGot, newOk) == newGot = ExpectedRecordNew(c) /\ newOk
=============================================================================
