//! C04 conformance harness: the real `substream::Substream` on both ends of an in-memory yamux
//! stream; sender programs (Sink API / `send_framed` / raw malformed prefixes), receiver stall
//! patterns and carrier fragmentation from TLC behaviours or seeded random schedules; records
//! NDJSON events for TLC trace validation (`spec/FramedPipeTrace.tla`).
//!
//!   substream --jobs <jsonl> [--random N] [--random-raw M] --seed S --threads T --out <ndjson> [--jobs-out p]
mod pipe;
mod world;

use rand::{rngs::StdRng, seq::SliceRandom, Rng, SeedableRng};
use serde_json::{json, Value};
use vharness::*;
use world::{Job, SendOp, Step};

const KIB: usize = 1024;
/// total bytes a Sink-API program may put in flight without ever exhausting the 256 KiB window
const SINK_BUDGET: usize = 240 * KIB;

/// Regions that are only sampled by the random generator once the corresponding known finding is gone
/// (`--wide id,sink,nomax`): Identity sizes above 1024, Sink programs beyond the window, lengths >= 2^63
/// without a configured maximum.
#[derive(Clone, Copy, Default)]
struct Wide {
    id: bool,
    sink: bool,
    nomax: bool,
}

fn parse_job(v: &Value, fault: &str) -> Job {
    let prog = v["prog"]
        .as_array()
        .unwrap()
        .iter()
        .map(|o| {
            let a = o.as_array().unwrap();
            let n = || a[1].as_u64().unwrap() as usize;
            match a[0].as_str().unwrap() {
                "send" => SendOp::Send(n()),
                "feed" => SendOp::Feed(n()),
                "flush" => SendOp::Flush,
                "framed" => SendOp::Framed(n()),
                "rawmsg" => SendOp::RawMsg(n()),
                "inject" => SendOp::Inject(a[1].as_str().unwrap().to_string()),
                x => panic!("unknown op {x}"),
            }
        })
        .collect();
    let sched = v["sched"]
        .as_array()
        .map(|s| {
            s.iter()
                .map(|o| {
                    let a = o.as_array().unwrap();
                    match a[0].as_str().unwrap() {
                        "op" => Step::Op,
                        "ps" => Step::Ps,
                        "drv" => Step::Drv,
                        "pr" => Step::Pr(a[1].as_u64().unwrap() as usize),
                        "settle" => Step::Settle,
                        x => panic!("unknown step {x}"),
                    }
                })
                .collect()
        })
        .unwrap_or_default();
    Job {
        codec: v["codec"].as_str().unwrap().to_string(),
        n: v["n"].as_i64().unwrap(),
        group: v["group"].as_str().unwrap_or("main").to_string(),
        sender_opens: v["sender_opens"].as_bool().unwrap_or(true),
        raw: v["raw"].as_bool().unwrap_or(false),
        prog,
        sched,
        pipe_cap: v["pipe"][0].as_u64().unwrap_or(65536) as usize,
        pipe_chunk: v["pipe"][1].as_u64().unwrap_or(65536) as usize,
        seed: v["seed"].as_u64().unwrap_or(0),
        fault: fault.to_string(),
        idx: 0,
    }
}

fn job_json(j: &Job) -> Value {
    let prog: Vec<Value> = j
        .prog
        .iter()
        .map(|o| match o {
            SendOp::Send(n) => json!(["send", n]),
            SendOp::Feed(n) => json!(["feed", n]),
            SendOp::Flush => json!(["flush"]),
            SendOp::Framed(n) => json!(["framed", n]),
            SendOp::RawMsg(n) => json!(["rawmsg", n]),
            SendOp::Inject(c) => json!(["inject", c]),
        })
        .collect();
    let sched: Vec<Value> = j
        .sched
        .iter()
        .map(|s| match s {
            Step::Op => json!(["op"]),
            Step::Ps => json!(["ps"]),
            Step::Drv => json!(["drv"]),
            Step::Pr(k) => json!(["pr", k]),
            Step::Settle => json!(["settle"]),
        })
        .collect();
    json!({"codec": j.codec, "n": j.n, "group": j.group, "sender_opens": j.sender_opens, "raw": j.raw, "prog": prog,
           "sched": sched, "pipe": [j.pipe_cap, j.pipe_chunk], "seed": j.seed})
}

fn random_sched(rng: &mut StdRng) -> Vec<Step> {
    let n = match rng.gen_range(0..4) {
        0 => 0,
        1 => rng.gen_range(1..8),
        _ => rng.gen_range(8..48),
    };
    // stall profiles: reader-starved, sender-starved, balanced
    let (wp, wr) = *[(3, 3), (6, 1), (1, 6), (4, 0)].choose(rng).unwrap();
    (0..n)
        .map(|_| {
            let total = 3 + wp + 3 + wr + 1;
            let x = rng.gen_range(0..total);
            if x < 3 {
                Step::Op
            } else if x < 3 + wp {
                Step::Ps
            } else if x < 6 + wp {
                Step::Drv
            } else if x < 6 + wp + wr {
                Step::Pr(rng.gen_range(1..4))
            } else {
                Step::Settle
            }
        })
        .collect()
}

fn codec_choices(w: Wide) -> Vec<(&'static str, i64)> {
    let mut v = codec_choices_base();
    if w.id {
        v.extend([("id", 1025), ("id", 1500), ("id", 4096), ("id", 70000)]);
    }
    v
}

fn codec_choices_base() -> Vec<(&'static str, i64)> {
    vec![
        ("id", 1), ("id", 2), ("id", 10), ("id", 100), ("id", 1023), ("id", 1024),
        ("uv", 0), ("uv", 1), ("uv", 10), ("uv", 127), ("uv", 128), ("uv", 1000), ("uv", 16384), ("uv", 1 << 20), ("uv", -1),
    ]
}

fn size_choices(codec: &str, n: i64, rng: &mut StdRng) -> Vec<usize> {
    if codec == "id" {
        let n = n as usize;
        return vec![n, n, n, n.saturating_sub(1), n + 1, 0, n * 2];
    }
    let mut v = vec![0usize, 1, 2, rng.gen_range(0..300)];
    if n >= 0 {
        let m = n as usize;
        v.extend([m, m, m.saturating_sub(1), m + 1, m / 2, m * 2 + 1]);
    }
    if n < 0 || n as usize >= 300 * KIB {
        v.extend([300 * KIB, 1 << 20, 256 * KIB, 256 * KIB + 1, 127, 128, 16383, 16384, 70000]);
    }
    v
}

fn valid(codec: &str, n: i64, len: usize) -> bool {
    if codec == "id" {
        len == n as usize
    } else {
        n < 0 || len <= n as usize
    }
}

fn random_job(rng: &mut StdRng, fault: &str, w: Wide) -> Job {
    let (codec, n) = *codec_choices(w).choose(rng).unwrap();
    let sink_budget = if w.sink { 3 << 20 } else { SINK_BUDGET };
    let sizes = size_choices(codec, n, rng);
    let mode = rng.gen_range(0..3); // 0 sink, 1 framed, 2 mixed
    let nops = rng.gen_range(1..7);
    let mut prog = vec![];
    let mut wire = 0usize; // bytes of valid messages so far
    let mut unflushed = false;
    for _ in 0..nops {
        let len = *sizes.choose(rng).unwrap();
        let cost = if valid(codec, n, len) { len + 10 } else { 0 };
        let framed_ok = !unflushed;
        let pick_framed = match mode {
            0 => false,
            1 => true,
            _ => rng.gen_bool(0.4) && framed_ok,
        };
        if pick_framed {
            let budget = if mode == 1 { 3 << 20 } else { sink_budget };
            if wire + cost > budget {
                continue;
            }
            wire += cost;
            prog.push(SendOp::Framed(len));
        } else {
            if wire + cost > sink_budget {
                continue;
            }
            match rng.gen_range(0..5) {
                0 | 1 => {
                    wire += cost;
                    prog.push(SendOp::Send(len));
                    // a refused send returns before flushing
                    unflushed &= !valid(codec, n, len);
                }
                2 | 3 => {
                    wire += cost;
                    prog.push(SendOp::Feed(len));
                    unflushed |= valid(codec, n, len);
                }
                _ => {
                    prog.push(SendOp::Flush);
                    unflushed = false;
                }
            }
        }
    }
    if prog.is_empty() {
        prog.push(SendOp::Flush);
    }
    let big = wire > 64 * KIB;
    Job {
        codec: codec.into(),
        n,
        group: "main".into(),
        sender_opens: rng.gen_bool(0.5),
        raw: false,
        prog,
        sched: random_sched(rng),
        pipe_cap: *[256usize, 4096, 65536, 1 << 20].choose(rng).unwrap(),
        pipe_chunk: if big { *[4096usize, 65536, 1 << 20].choose(rng).unwrap() } else { *[13usize, 512, 4096, 1 << 20].choose(rng).unwrap() },
        seed: rng.gen(),
        fault: fault.to_string(),
        idx: 0,
    }
}

fn random_raw_job(rng: &mut StdRng, fault: &str, w: Wide) -> Job {
    let n = *[0i64, 1, 10, 127, 1000, 16384, 1 << 20, -1].choose(rng).unwrap();
    // without a maximum a length >= 2^63 panics the receiver (known finding, exercised by the probe
    // group) and 2^62 aborts the process in the allocator: both only with a configured maximum here
    let mut classes = vec!["overlong", "nonminimal", "nonminimal3"];
    if n >= 0 {
        classes.extend(["overflow10", "oversize", "oversize2x", "huge62", "huge63"]);
    } else if w.nomax {
        classes.extend(["overflow10", "huge63"]);
    }
    let mut prog = vec![];
    for _ in 0..rng.gen_range(0..4) {
        let len = if n < 0 { rng.gen_range(0..3000) } else { rng.gen_range(0..=(n as usize).min(3000)) };
        prog.push(SendOp::RawMsg(len));
    }
    prog.push(SendOp::Inject(classes.choose(rng).unwrap().to_string()));
    Job {
        codec: "uv".into(),
        n,
        group: "main".into(),
        sender_opens: rng.gen_bool(0.5),
        raw: true,
        prog,
        sched: random_sched(rng),
        pipe_cap: *[256usize, 4096, 65536].choose(rng).unwrap(),
        pipe_chunk: *[1usize, 13, 512, 4096].choose(rng).unwrap(),
        seed: rng.gen(),
        fault: fault.to_string(),
        idx: 0,
    }
}

fn main() {
    let args = Args::parse();
    quiet_panics();
    let fault = std::env::var("VERIF_FAULT").unwrap_or_default();
    let seed = args.u64("seed", 1);
    let mut jobs: Vec<Job> = vec![];
    if let Some(p) = args.get("jobs") {
        for v in read_jsonl(p) {
            jobs.push(parse_job(&v, &fault));
        }
    }
    let mut rng = StdRng::seed_from_u64(seed ^ 0xC04);
    let wide = args.str("wide", "");
    let w = Wide { id: wide.contains("id"), sink: wide.contains("sink"), nomax: wide.contains("nomax") };
    for _ in 0..args.u64("random", 0) {
        jobs.push(random_job(&mut rng, &fault, w));
    }
    for _ in 0..args.u64("random-raw", 0) {
        jobs.push(random_raw_job(&mut rng, &fault, w));
    }
    for (i, j) in jobs.iter_mut().enumerate() {
        j.idx = i;
    }
    if let Some(p) = args.get("jobs-out") {
        write_lines(p, &jobs.iter().map(|j| job_json(j).to_string()).collect::<Vec<_>>());
    }
    // `--from i --to j`: only that slice of the job list (crash localisation by the driver)
    let from = (args.u64("from", 0) as usize).min(jobs.len());
    let to = (args.u64("to", jobs.len() as u64) as usize).min(jobs.len()).max(from);
    let jobs = &jobs[from..to];
    let threads = args.u64("threads", 8).max(1) as usize;
    let n = jobs.len();
    let chunk = n.div_ceil(threads).max(1);
    let mut results: Vec<Vec<world::Outcome>> = vec![];
    std::thread::scope(|sc| {
        let hs: Vec<_> = jobs
            .chunks(chunk)
            .map(|c| {
                std::thread::Builder::new()
                    .stack_size(16 << 20)
                    .spawn_scoped(sc, move || c.iter().map(world::run).collect::<Vec<_>>())
                    .unwrap()
            })
            .collect();
        for h in hs {
            results.push(h.join().expect("worker"));
        }
    });
    let mut lines = vec![];
    let (mut events, mut polls) = (0u64, 0u64);
    for o in results.into_iter().flatten() {
        events += o.lines.len() as u64 - 1;
        polls += o.polls;
        lines.extend(o.lines);
    }
    write_lines(&args.str("out", "trace.ndjson"), &lines);
    println!("SUMMARY {}", json!({"executions": n, "events": events, "polls": polls}));
}
