//! In-harness TCP proxy between two nodes.  One `Proxy` = one listener (the address the dialing
//! node is given for the remote) that forwards every accepted stream to the target node's real
//! listen address.  Each stream can be stalled (bytes are no longer forwarded in either
//! direction), cut (both sockets closed), or cut automatically after a given number of forwarded
//! bytes.  The proxy logs `px_accept` / `px_dead` into the scenario log; `px_dead.why` tells which
//! side ended the stream first (`a` = dialer side, `b` = listener side, `cut` = the harness).
use super::Log;
use serde_json::json;
use std::{
    net::SocketAddr,
    sync::{
        atomic::{AtomicBool, AtomicU64, AtomicU8, Ordering},
        Arc, Mutex,
    },
};
use tokio::{
    io::{AsyncReadExt, AsyncWriteExt},
    net::{TcpListener, TcpStream},
    sync::Notify,
};

pub const FWD: u8 = 0;
pub const STALL: u8 = 1;
pub const CUT: u8 = 2;

#[derive(Clone)]
pub struct StreamCtl {
    pub id: usize,
    pub mode: Arc<AtomicU8>,
    pub notify: Arc<Notify>,
    pub dead: Arc<AtomicBool>,
    pub bytes: Arc<AtomicU64>,
    /// local port of the proxy's outbound leg = the remote port the listener node sees
    pub b_port: u16,
}

impl StreamCtl {
    pub fn set(&self, mode: u8) {
        self.mode.store(mode, Ordering::SeqCst);
        self.notify.notify_one();
    }
    pub fn is_dead(&self) -> bool {
        self.dead.load(Ordering::SeqCst)
    }
}

#[derive(Default, Clone, Copy)]
pub struct Policy {
    /// cut the next accepted stream after this many forwarded bytes (both directions summed)
    pub cut_at: Option<u64>,
    /// close accepted sockets immediately (the remote is unreachable)
    pub refuse: bool,
}

pub struct Proxy {
    pub name: String,
    pub listen: SocketAddr,
    pub streams: Arc<Mutex<Vec<StreamCtl>>>,
    pub policy: Arc<Mutex<Policy>>,
    pub accepted: Arc<AtomicU64>,
    task: tokio::task::JoinHandle<()>,
}

impl Drop for Proxy {
    fn drop(&mut self) {
        self.task.abort();
        for s in self.streams.lock().unwrap().iter() {
            s.set(CUT);
        }
    }
}

impl Proxy {
    pub async fn start(name: &str, target: SocketAddr, log: Log) -> Proxy {
        let listener = TcpListener::bind("127.0.0.1:0").await.expect("proxy bind");
        let listen = listener.local_addr().unwrap();
        let streams: Arc<Mutex<Vec<StreamCtl>>> = Arc::new(Mutex::new(Vec::new()));
        let policy = Arc::new(Mutex::new(Policy::default()));
        let accepted = Arc::new(AtomicU64::new(0));
        let (st, po, ac, nm) = (streams.clone(), policy.clone(), accepted.clone(), name.to_string());
        let task = tokio::spawn(async move {
            loop {
                let Ok((a, _)) = listener.accept().await else { return };
                let n = ac.fetch_add(1, Ordering::SeqCst) as usize;
                let pol = {
                    let mut g = po.lock().unwrap();
                    let p = *g;
                    g.cut_at = None;
                    p
                };
                log.push(json!({"e": "px_accept", "px": nm, "s": n}));
                if pol.refuse {
                    drop(a);
                    log.push(json!({"e": "px_dead", "px": nm, "s": n, "why": "refused", "bytes": 0}));
                    continue;
                }
                let Ok(b) = TcpStream::connect(target).await else {
                    log.push(json!({"e": "px_dead", "px": nm, "s": n, "why": "target_unreachable", "bytes": 0}));
                    continue;
                };
                let _ = a.set_nodelay(true);
                let _ = b.set_nodelay(true);
                let ctl = StreamCtl {
                    id: n,
                    mode: Arc::new(AtomicU8::new(FWD)),
                    notify: Arc::new(Notify::new()),
                    dead: Arc::new(AtomicBool::new(false)),
                    bytes: Arc::new(AtomicU64::new(0)),
                    b_port: b.local_addr().map(|x| x.port()).unwrap_or(0),
                };
                st.lock().unwrap().push(ctl.clone());
                tokio::spawn(pump(a, b, ctl, pol.cut_at, log.clone(), nm.clone()));
            }
        });
        Proxy { name: name.to_string(), listen, streams, policy, accepted, task }
    }

    pub fn live(&self) -> Vec<StreamCtl> {
        self.streams.lock().unwrap().iter().filter(|s| !s.is_dead()).cloned().collect()
    }
    pub fn all(&self) -> Vec<StreamCtl> {
        self.streams.lock().unwrap().clone()
    }
    pub fn set_all(&self, mode: u8) {
        for s in self.live() {
            s.set(mode);
        }
    }
    pub fn all_dead(&self) -> bool {
        self.live().is_empty()
    }
}

async fn pump(mut a: TcpStream, mut b: TcpStream, ctl: StreamCtl, cut_at: Option<u64>, log: Log, name: String) {
    let mut ba = vec![0u8; 16 * 1024];
    let mut bb = vec![0u8; 16 * 1024];
    let why;
    'outer: loop {
        let mode = ctl.mode.load(Ordering::SeqCst);
        if mode == CUT {
            why = "cut";
            break;
        }
        let fwd = mode == FWD;
        tokio::select! {
            _ = ctl.notify.notified() => {}
            r = a.read(&mut ba), if fwd => match r {
                Ok(0) | Err(_) => { why = "a"; break 'outer; }
                Ok(n) => {
                    let mut n = n;
                    if let Some(c) = cut_at {
                        let sofar = ctl.bytes.load(Ordering::SeqCst);
                        if sofar + n as u64 >= c {
                            n = (c - sofar.min(c)) as usize;
                            let _ = b.write_all(&ba[..n]).await;
                            ctl.bytes.fetch_add(n as u64, Ordering::SeqCst);
                            why = "cut";
                            break 'outer;
                        }
                    }
                    if b.write_all(&ba[..n]).await.is_err() { why = "b"; break 'outer; }
                    ctl.bytes.fetch_add(n as u64, Ordering::SeqCst);
                }
            },
            r = b.read(&mut bb), if fwd => match r {
                Ok(0) | Err(_) => { why = "b"; break 'outer; }
                Ok(n) => {
                    let mut n = n;
                    if let Some(c) = cut_at {
                        let sofar = ctl.bytes.load(Ordering::SeqCst);
                        if sofar + n as u64 >= c {
                            n = (c - sofar.min(c)) as usize;
                            let _ = a.write_all(&bb[..n]).await;
                            ctl.bytes.fetch_add(n as u64, Ordering::SeqCst);
                            why = "cut";
                            break 'outer;
                        }
                    }
                    if a.write_all(&bb[..n]).await.is_err() { why = "a"; break 'outer; }
                    ctl.bytes.fetch_add(n as u64, Ordering::SeqCst);
                }
            },
        }
    }
    drop(a);
    drop(b);
    ctl.dead.store(true, Ordering::SeqCst);
    log.push(json!({"e": "px_dead", "px": name, "s": ctl.id, "why": why, "bytes": ctl.bytes.load(Ordering::SeqCst)}));
}
