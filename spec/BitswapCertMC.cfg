SPECIFICATION Spec
INVARIANTS TableOK
CHECK_DEADLOCK FALSE
