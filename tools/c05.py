"""C05 - every dial attempt ends in exactly one outcome and never wedges the peer."""
import json
from vlib import *
import connmgr_util as cm

ASSUME = [
    "the transport is legal: at most one outcome per requested operation, none after cancel(); it behaves like the TCP "
    "transport at the trait boundary (the scripted transport parses addresses with the real TcpAddress parser)",
    "one stimulus is delivered at a time and the manager loop is polled to idle before the next one",
    "TLC bounds: 2 peers, 1-2 addresses per peer, up to 3-4 connection ids, the listed limit configurations",
]


def check(ctx):
    mc, gstats, summ, lines, nseg, nev, rejects, drift = cm.pipeline(ctx, "C05")
    violations = []
    for r in rejects:
        seg, idx = r
        if r.reason in cm.C06_REASONS:
            # one of C06's capacity rules is also C05's: at quiescence the probe dial of a peer without any
            # connection is refused by a limit that is not reached - "the dial is actually attempted" fails
            # (a leaked limit slot, seeded C05g)
            step = json.loads(seg[idx - 1])
            if not (r.reason == "dial refused by the outgoing limit although below it"
                    and step.get("s", {}).get("a") == "probe"):
                continue
            violations.append({"sig": "probe-dial-refused-by-a-limit-that-is-not-reached",
                               "what": "%s at %s" % (r.reason, seg[idx - 1][:500]),
                               "replay_obj": {"property": "C05", "reason": r.reason,
                                              "signature": "probe-dial-refused-by-a-limit-that-is-not-reached",
                                              "segment": [json.loads(x) for x in seg[:idx]]}})
            continue
        for sig in cm.classify(seg, idx, r.reason):
            violations.append({"sig": sig, "what": "%s at %s" % (r.reason, seg[idx - 1][:500]),
                               "replay_obj": {"property": "C05", "reason": r.reason, "signature": sig,
                                              "segment": [json.loads(x) for x in seg[:idx]]}})
    cov = cm.evidence(mc, gstats, summ, lines, nseg, nev, drift)
    # the same property on real nodes over loopback TCP / WebSocket / QUIC (public API, perturbed schedules)
    nsumm, nnseg, nnev, nviol = cm.net_pipeline(ctx)
    violations += nviol
    cov["real_network"] = dict(nsumm, node_logs_validated=nnseg, events_validated=nnev)
    cov["traces_validated_against_impl"] += nnseg
    return conclude(ctx, "model_checking", cov, violations, ASSUME + [
        "real-network runs: 3 nodes per world on 127.0.0.1 listening on TCP, WebSocket and QUIC (a world dials over one of them or a mix), connection-open timeout 1 s, quiescence = no command/event on any "
        "node for 8 s; worlds that do not calm down within 60 s or whose runtime was starved (>400 ms timer lag) are not judged"])


def replay(ctx, path):
    obj = json.load(open(path))
    seg = [json.dumps(x, separators=(",", ":")) for x in obj["segment"]]
    if obj.get("net"):
        _, _, rej = validate_all(ctx, "NetDial.tla", "NetDial.cfg", seg + ['{"e":"quiesce"}'] if not seg[-1].count('"quiesce"') else seg)
        log("replay (recorded real-network log): %s" % ("rejected: %s" % rej[0].reason if rej else "accepted"))
        return 1 if rej else 0
    _, _, rej = validate_all(ctx, "ConnMgrTrace.tla", "ConnMgrTrace.cfg", seg)
    log("replay: %s" % ("rejected: %s" % rej[0].reason if rej else "accepted"))
    return 1 if rej else 0


def selftest(ctx):
    return cm.selftest(ctx, "C05")
