---------------------------- MODULE NoisePipeMC ----------------------------
(* Bounded, unit-scaled model of the Noise pipe for TLC: exhaustive check   *)
(* that the Impl layer is accepted by the Prop monitor (C02) for every      *)
(* schedule of writes, carrier room, chunking, Pending injection, reads and *)
(* every single-frame attack; behaviour generation for the replay harness.  *)
EXTENDS NoisePipe, TLC, Json

CONSTANTS MSG, TAG, R, W, CHUNK,          \* sizes (unit-scaled)
          WSizes, RBufs, ChunkSizes, RoomSizes,
          MaxWrites, MaxOps, MaxPend, MaxFrames, PlanKinds,
          MaxQueue, \* max. number of chunks queued ahead of the reader
          Phased   \* TRUE: the writer finishes before the carrier/reader start (see DESIGN: no loss of reader behaviours)

C == [MSG |-> MSG, TAG |-> TAG, R |-> R, W |-> W, CHUNK |-> CHUNK]

Mk(k, i, x) == [kind |-> k, i |-> i, x |-> x,
               ea |-> IF k = "replay" THEN i + x ELSE i,
               ef |-> IF k = "replay" THEN i + x + 1 ELSE i]
NoPlan == [kind |-> "none", i |-> 0, x |-> 0, ea |-> 0, ef |-> 0]
Plans == {NoPlan} \cup
  {Mk(k, i, 0) : k \in PlanKinds \cap {"body", "drop", "swap"}, i \in 1..MaxFrames} \cup
  {Mk("hdr", i, x) : i \in IF "hdr" \in PlanKinds THEN 1..MaxFrames ELSE {}, x \in 1..(MSG - 1)} \cup
  {Mk("trunc", i, x) : i \in IF "trunc" \in PlanKinds THEN 1..MaxFrames ELSE {}, x \in {1, 2}} \cup
  {Mk("cut", i, x) : i \in IF "cut" \in PlanKinds THEN 1..MaxFrames ELSE {}, x \in {0, 1, 2, 3}} \cup
  {Mk("replay", i, x) : i \in IF "replay" \in PlanKinds THEN 1..MaxFrames ELSE {}, x \in {0, 1}}

VARIABLES I, P, ev, hist, nops, rp, npend, nw, wd
vars == <<I, P, ev, hist, nops, rp, npend, nw, wd>>

Init == /\ \E plan \in Plans : I = InitImpl(C, plan) /\ P = InitProp(plan)
        /\ ev = [e |-> "init"]
        /\ hist = <<>>
        /\ nops = 0 /\ rp = 0 /\ npend = 0 /\ nw = 0 /\ wd = FALSE

Do(in) == LET r == ImplApply(C, I, in) IN
            /\ I' = r.I
            /\ ev' = r.ev
            /\ P' = PropUpdate(C, P, r.ev)
            /\ hist' = Append(hist, in)
            /\ nops' = nops + 1


Next ==
  /\ nops < MaxOps /\ ~P.q
  /\ \/ /\ ~wd /\ nw < MaxWrites
        /\ \E n \in WSizes : Do([e |-> "write", req |-> n])
        /\ nw' = nw + 1 /\ UNCHANGED <<rp, npend, wd>>
     \/ /\ ~wd /\ I.Wr.writing
        /\ Do([e |-> "flush"])
        /\ UNCHANGED <<rp, npend, nw, wd>>
     \/ /\ ~wd /\ I.Wr.writing /\ I.Wr.wcap = 0
        /\ \E c \in RoomSizes : Do([e |-> "room", c |-> c])
        /\ UNCHANGED <<rp, npend, nw, wd>>
     \/ /\ ~wd /\ ~I.Wr.writing /\ P.fl /\ nw > 0
        /\ Do([e |-> "wdone"])
        /\ wd' = TRUE /\ UNCHANGED <<rp, npend, nw>>
     \/ /\ (Phased => wd) /\ Unscripted(C, I) > 0 /\ Len(I.ch) < MaxQueue
        /\ \E c \in ChunkSizes \cup {Unscripted(C, I)} : c <= Unscripted(C, I) /\ Do([e |-> "chunk", c |-> c, n |-> 1])
        /\ UNCHANGED <<rp, npend, nw, wd>>
     \/ /\ (Phased => wd) /\ npend < MaxPend /\ Len(I.ch) < MaxQueue /\ (IF I.ch = <<>> THEN TRUE ELSE I.ch[Len(I.ch)].c # 0)
        /\ Do([e |-> "chunk", c |-> 0, n |-> 1])
        /\ npend' = npend + 1 /\ UNCHANGED <<rp, nw, wd>>
     \/ /\ ~I.closed /\ wd /\ Unscripted(C, I) = 0
        /\ Do([e |-> "close"])
        /\ UNCHANGED <<rp, npend, nw, wd>>
     \/ /\ (Phased => wd) /\ (~P.rdone \/ rp < 1)
        /\ \E b \in RBufs : Do([e |-> "read", buf |-> b])
        /\ rp' = IF P.rdone THEN rp + 1 ELSE rp
        /\ UNCHANGED <<npend, nw, wd>>
     \/ /\ I.closed /\ P.rdone
        /\ Do([e |-> "quiesce"])
        /\ UNCHANGED <<rp, npend, nw, wd>>

Spec == Init /\ [][Next]_vars

StepOK == [][PropAccepts(C, P, ev')]_vars             \* C02 on the model
StateInv == PropInv(C, P)
NoLoop == ev.e = "read" => ev.res # "loop"

\* reachability probes (self-test / evidence against vacuity): counts how many transitions reach
\* each interesting situation; run with -workers 1
ProbeConds == <<
  I'.D.rs = "data" /\ I'.D.maxRead # Canon(C),                               \* 1 auxiliary tail in use
  I'.D.rs = "data" /\ I'.D.cfs # None /\ I'.D.maxRead = Canon(C),            \* 2 frame continues inside the buffer
  I'.D.rs = "data" /\ I'.D.nread = 1 /\ I'.D.offset = 0 /\ I'.D.taken > 1,   \* 3 one byte carried over
  I'.D.pend # <<>>,                                                          \* 4 frame handed out in pieces
  ev'.e = "write" /\ ev'.res = "ok" /\ ev'.acc < ev'.req,                    \* 5 partial accept
  ev'.e = "write" /\ ev'.res = "pending",                                    \* 6 write Pending
  I'.Wr.writing /\ I'.Wr.wlen > MSG + HDR,                                   \* 7 two frames buffered
  ev'.e = "read" /\ ev'.res = "err" /\ ~P.closed,                            \* 8 error caused by an attack
  P'.q >>                                                                    \* 9 quiescence
Probe == \A i \in 1..9 : ProbeConds[i] => TLCSet(10 + i, TLCGet(10 + i) + 1)
ProbeSpec == (Init /\ \A i \in 1..9 : TLCSet(10 + i, 0)) /\ [][Next]_vars
ProbeReport == PrintT(<<"REACH", [i \in 1..9 |-> TLCGet(10 + i)]>>)

View == <<I, P, rp, npend, nw, wd>>
Emit == PrintT(<<"B", ToJson([cfg |-> C, plan |-> I.plan, ops |-> hist'])>>)
=============================================================================
