--------------------------- MODULE TcpTransportMC ---------------------------
(***************************************************************************)
(* Implementation-shaped model of TcpTransport (src/transport/tcp/mod.rs), *)
(* one action per Transport trait method and per arm of poll_next(),       *)
(* composed with                                                           *)
(*   - an arbitrary caller that keeps the caller side of the interface     *)
(*     (fresh connection ids) but otherwise calls anything on any id at    *)
(*     any time (a superset of what TransportManager does), and            *)
(*   - the network: every future may resolve with any result the code      *)
(*     allows (connect refused / timed out, negotiation failed / timed     *)
(*     out / other identity, success), remotes connect to the listener,    *)
(* and with the interface monitor of TransportIface.tla.                   *)
(*                                                                         *)
(* Bookkeeping variables are the fields of the struct:                     *)
(*   pd    pending_dials                 (keys)                            *)
(*   pin   pending_inbound_connections   (keys)                            *)
(*   pconn pending_connections           (futures: [c, k, peer])           *)
(*   praw  pending_raw_connections       (futures: ids)                    *)
(*   opened, popen (pending_open)        (keys)                            *)
(*   cf    cancel_futures                (id -> aborted?)                  *)
(***************************************************************************)
EXTENDS TransportIface, Integers, SequencesExt, FiniteSetsExt, Json

CONSTANTS Addrs,      \* address names
          Peers,      \* identities a remote may authenticate as
          MaxCid,     \* connection ids that may be allocated
          MaxOpenLen, \* addresses per open()
          Kind,       \* "tcp" | "ws": WebSocketTransport is the same state machine (websocket/mod.rs is a copy of
                      \* tcp/mod.rs); it differs in that an address without /p2p is refused (dial(): Err before any
                      \* bookkeeping, open(): that address can only fail) and in reporting addresses as requested
          Mutant      \* "" or the name of a seeded defect (negative self-test models)

VARIABLES pd, pin, pconn, praw, opened, popen, cf,
          req,     \* id -> [addrs, kind]   what was requested (static)
          auth,    \* id -> [p, a] peer authenticated / address reached while opening
          next,    \* shared connection id allocator
          nconn,   \* remote connections waiting in the listener's accept queue
          mon,     \* interface monitor
          warn,    \* a "without a cancel handle" arm of poll_next was reached
          hist

bvars == <<pd, pin, pconn, praw, opened, popen, cf, req, auth, next, nconn>>
vars == <<pd, pin, pconn, praw, opened, popen, cf, req, auth, next, nconn, mon, warn, hist>>

\* address a names peer WantOf(a) ("" = no /p2p component); its socket part is SockOf(a)
WantOf(a) == IF a = "a3" THEN "" ELSE "P1"
SockOf(a) == "s" \o a
Reported(a) == IF Kind = "ws" THEN a ELSE SockOf(a)
Dialable(a) == Kind = "tcp" \/ WantOf(a) # ""
Addrs2 == {"a1", "a2"}
Addrs3 == {"a1", "a2", "a3"}
Addrs13 == {"a1", "a3"}
PeersDef == {"P1", "P2"}

Init ==
  /\ pd = {} /\ pin = {} /\ pconn = {} /\ praw = {} /\ opened = {} /\ popen = {} /\ cf = <<>>
  /\ req = <<>> /\ auth = <<>> /\ next = 0 /\ nconn = 0
  /\ mon = MonInit /\ warn = FALSE /\ hist = <<>>

Ids == 0..(next - 1)
Seq1(S) == {<<a>> : a \in S}
Seq2(S) == {<<a, b>> : a \in S, b \in S} \ {<<a, a>> : a \in S}
OpenArgs == IF MaxOpenLen >= 2 THEN Seq1(Addrs) \cup Seq2(Addrs) ELSE Seq1(Addrs)
Map(f(_), s) == [i \in 1..Len(s) |-> f(s[i])]
Without(f, c) == [x \in DOMAIN f \ {c} |-> f[x]]

Feed(m, h) == /\ mon' = m /\ hist' = Append(hist, h)
Call(k, h) == Feed(MonCall(mon, k), h)
Event(e, h) == Feed(MonEvent(mon, e), h)

-----------------------------------------------------------------------------
(* impl Transport for TcpTransport                                          *)

\* dial(): the address parses; pending_dials.insert, pending_connections.push
CDial(a) ==
  /\ next < MaxCid /\ Dialable(a)
  /\ LET c == next IN
     /\ next' = next + 1
     /\ pd' = pd \cup {c}
     /\ pconn' = pconn \cup {[c |-> c, k |-> "dial"]}
     /\ req' = (c :> [addrs |-> <<a>>, kind |-> "dial"]) @@ req
     /\ UNCHANGED <<pin, praw, opened, popen, cf, auth, nconn, warn>>
     /\ Call([c |-> "dial", cid |-> c, ret |-> "ok", addrs |-> <<a>>, socks |-> <<SockOf(a)>>, wants |-> <<WantOf(a)>>],
             [a |-> "dial", c |-> c, addr |-> a])

\* dial() with an address TcpAddress::multiaddr_to_socket_address refuses: `?` before any bookkeeping
CDialBad ==
  /\ next < MaxCid
  /\ next' = next + 1
  /\ req' = (next :> [addrs |-> <<"bad">>, kind |-> "bad"]) @@ req
  /\ UNCHANGED <<pd, pin, pconn, praw, opened, popen, cf, auth, nconn, warn>>
  /\ Call([c |-> "dial", cid |-> next, ret |-> "err", addrs |-> <<"bad">>, socks |-> <<"bad">>, wants |-> <<"">>],
          [a |-> "dial_bad", c |-> next])

\* WebSocket dial() of an address without /p2p: multiaddr_into_url()? fails with PeerIdMissing
CDialNoPeer(a) ==
  /\ next < MaxCid /\ ~Dialable(a)
  /\ next' = next + 1
  /\ req' = (next :> [addrs |-> <<a>>, kind |-> "bad"]) @@ req
  /\ UNCHANGED <<pd, pin, pconn, praw, opened, popen, cf, auth, nconn, warn>>
  /\ Call([c |-> "dial", cid |-> next, ret |-> "err", addrs |-> <<a>>, socks |-> <<SockOf(a)>>, wants |-> <<"">>],
          [a |-> "dial", c |-> next, addr |-> a])

\* open(): pending_raw_connections.push(abortable), cancel_futures.insert
COpen(as) ==
  /\ next < MaxCid
  /\ LET c == next IN
     /\ next' = next + 1
     /\ praw' = praw \cup {c}
     /\ cf' = (c :> FALSE) @@ cf
     /\ req' = (c :> [addrs |-> as, kind |-> "open"]) @@ req
     /\ UNCHANGED <<pd, pin, pconn, opened, popen, auth, nconn, warn>>
     /\ Call([c |-> "open", cid |-> c, ret |-> "ok", addrs |-> as, socks |-> Map(SockOf, as), wants |-> Map(WantOf, as)],
             [a |-> "open", c |-> c, addrs |-> as])

\* cancel(): abort the handle if there is one; clean-up happens in poll_next
CCancel(c) ==
  /\ cf' = IF c \in DOMAIN cf THEN [cf EXCEPT ![c] = TRUE] ELSE cf
  /\ UNCHANGED <<pd, pin, pconn, praw, opened, popen, req, auth, next, nconn, warn>>
  /\ Call([c |-> "cancel", cid |-> c, ret |-> "ok"], [a |-> "cancel", c |-> c])

\* negotiate(): opened.remove(id)?  then push a ready future
CNegotiate(c) ==
  /\ IF c \in opened
       THEN /\ opened' = opened \ {c}
            /\ pconn' = pconn \cup {[c |-> c, k |-> "neg"]}
       ELSE UNCHANGED <<opened, pconn>>
  /\ UNCHANGED <<pd, pin, praw, popen, cf, req, auth, next, nconn, warn>>
  /\ Call([c |-> "negotiate", cid |-> c, ret |-> IF c \in opened THEN "ok" ELSE "err"], [a |-> "negotiate", c |-> c])

\* accept() / reject(): pending_open.remove(id)
CDecide(c, what) ==
  /\ popen' = popen \ {c}
  /\ UNCHANGED <<pd, pin, pconn, praw, opened, cf, req, auth, next, nconn, warn>>
  /\ Call([c |-> what, cid |-> c, ret |-> IF c \in popen THEN "ok" ELSE "err"], [a |-> what, c |-> c])

\* accept_pending(): pending_inbound_connections.remove(id)? then on_inbound_connection pushes the negotiation
CAcceptPending(c) ==
  /\ pin' = pin \ {c}
  /\ pconn' = IF c \in pin THEN pconn \cup {[c |-> c, k |-> "in"]} ELSE pconn
  /\ UNCHANGED <<pd, praw, opened, popen, cf, req, auth, next, nconn, warn>>
  /\ Call([c |-> "accept_pending", cid |-> c, ret |-> IF c \in pin THEN "ok" ELSE "err"], [a |-> "accept_pending", c |-> c])

CRejectPending(c) ==
  /\ pin' = pin \ {c}
  /\ UNCHANGED <<pd, pconn, praw, opened, popen, cf, req, auth, next, nconn, warn>>
  /\ Call([c |-> "reject_pending", cid |-> c, ret |-> IF c \in pin THEN "ok" ELSE "err"], [a |-> "reject_pending", c |-> c])

-----------------------------------------------------------------------------
(* the network                                                              *)

RemoteConnect ==
  /\ nconn + next < MaxCid
  /\ nconn' = nconn + 1
  /\ UNCHANGED <<pd, pin, pconn, praw, opened, popen, cf, req, auth, next, warn>>
  /\ Feed(MonConnect(mon), [a |-> "connect"])

-----------------------------------------------------------------------------
(* impl Stream for TcpTransport: poll_next                                   *)

\* listener arm: a socket is accepted, gets an id from the shared allocator and is parked
PListener ==
  /\ nconn > 0 /\ next < MaxCid
  /\ LET c == next IN
     /\ next' = next + 1 /\ nconn' = nconn - 1
     /\ pin' = pin \cup {c}
     /\ req' = (c :> [addrs |-> <<>>, kind |-> "in"]) @@ req
     /\ UNCHANGED <<pd, pconn, praw, opened, popen, cf, auth, warn>>
     /\ Event([k |-> "pending_inbound", cid |-> c], [a |-> "p_listener", c |-> c])

\* pending_raw_connections arm, future of open(c) resolves (Abortable: Aborted wins when the handle was aborted before the poll)
PRawCanceled(c) ==
  /\ c \in praw /\ c \in DOMAIN cf /\ cf[c]
  /\ praw' = praw \ {c}
  /\ cf' = IF Mutant = "cancel-handle-kept" THEN cf ELSE Without(cf, c)
  /\ UNCHANGED <<pd, pin, pconn, opened, popen, req, auth, next, nconn, warn>>
  /\ IF Mutant = "cancelled-open-surfaces"
       THEN Event([k |-> "open_failure", cid |-> c, errs |-> <<>>], [a |-> "p_raw", c |-> c, res |-> "canceled"])
       ELSE Feed(mon, [a |-> "p_raw", c |-> c, res |-> "canceled"])

PRawConnected(c) ==
  /\ c \in praw /\ (c \in DOMAIN cf => ~cf[c])
  /\ praw' = praw \ {c}
  /\ \E i \in 1..Len(req[c].addrs) : \E errset \in SUBSET (ToSetS(req[c].addrs) \ {req[c].addrs[i]}) :
     \E p \in Peers :
       LET a == req[c].addrs[i] errs == SetToSeq(errset) IN
       /\ Dialable(a)
       /\ (WantOf(a) # "" => p = WantOf(a))        \* negotiate_connection: PeerIdMismatch otherwise
       /\ IF c \in DOMAIN cf
            THEN /\ cf' = Without(cf, c)
                 /\ opened' = opened \cup {c}
                 /\ auth' = (c :> [p |-> p, a |-> a]) @@ auth
                 /\ warn' = warn
                 /\ Event([k |-> "opened", cid |-> c, addr |-> Reported(a), errs |-> errs],
                          [a |-> "p_raw", c |-> c, res |-> "connected", addr |-> a, errs |-> errs])
            ELSE \* "raw connection without a cancel handle": dropped with a warning
                 /\ warn' = TRUE /\ UNCHANGED <<cf, opened, auth>>
                 /\ Feed(mon, [a |-> "p_raw", c |-> c, res |-> "lost"])
  /\ UNCHANGED <<pd, pin, pconn, popen, req, next, nconn>>

PRawFailed(c) ==
  /\ c \in praw /\ (c \in DOMAIN cf => ~cf[c])
  /\ praw' = praw \ {c}
  /\ \E errset \in SUBSET ToSetS(req[c].addrs) :
       LET errs == SetToSeq(errset) IN
       IF c \in DOMAIN cf
         THEN /\ cf' = Without(cf, c) /\ warn' = warn
              /\ Event([k |-> "open_failure", cid |-> c, errs |-> errs],
                       [a |-> "p_raw", c |-> c, res |-> "failed", errs |-> errs])
         ELSE /\ warn' = TRUE /\ UNCHANGED cf
              /\ Feed(mon, [a |-> "p_raw", c |-> c, res |-> "lost"])
  /\ UNCHANGED <<pd, pin, pconn, opened, popen, req, auth, next, nconn>>

\* pending_connections arm, Ok(connection)
PConnOk(f) ==
  /\ f \in pconn
  /\ pconn' = pconn \ {f}
  /\ LET c == f.c IN
     /\ pd' = pd \ {c}
     /\ popen' = popen \cup {c}
     /\ UNCHANGED <<pin, praw, opened, cf, req, auth, next, nconn, warn>>
     /\ CASE f.k = "dial" ->
               \E p \in Peers :
                 /\ (WantOf(req[c].addrs[1]) # "" => p = WantOf(req[c].addrs[1]))
                 /\ Event([k |-> "est", cid |-> c, dir |-> "out", peer |-> p, addr |-> Reported(req[c].addrs[1])],
                          [a |-> "p_conn", c |-> c, res |-> "ok", peer |-> p])
          [] f.k = "neg" ->
               \* the future is `async { Ok(negotiated) }`: the connection authenticated while opening
               Event([k |-> "est", cid |-> c, dir |-> "out", peer |-> auth[c].p, addr |-> Reported(auth[c].a)],
                     [a |-> "p_conn", c |-> c, res |-> "ok", peer |-> auth[c].p])
          [] f.k = "in" ->
               \E p \in Peers :
                 Event([k |-> "est", cid |-> c, dir |-> "in", peer |-> p, addr |-> "remote"],
                       [a |-> "p_conn", c |-> c, res |-> "ok", peer |-> p])

\* pending_connections arm, Err((id, error)): only dial and inbound futures can fail
PConnErr(f) ==
  /\ f \in pconn /\ f.k \in {"dial", "in"}
  /\ pconn' = pconn \ {f}
  /\ LET c == f.c IN
     /\ pd' = IF Mutant = "dial-entry-kept" THEN pd ELSE pd \ {c}
     /\ UNCHANGED <<pin, praw, opened, popen, cf, req, auth, next, nconn, warn>>
     /\ IF c \in pd /\ Mutant # "dial-failure-swallowed"
          THEN Event([k |-> "dial_failure", cid |-> c, addr |-> req[c].addrs[1]], [a |-> "p_conn", c |-> c, res |-> "err"])
          ELSE Feed(mon, [a |-> "p_conn", c |-> c, res |-> "err"])   \* "Pending inbound connection failed": logged only

Next ==
  \/ \E a \in Addrs : CDial(a) \/ CDialNoPeer(a)
  \/ CDialBad
  \/ \E as \in OpenArgs : COpen(as)
  \/ \E c \in Ids : \/ CCancel(c) \/ CNegotiate(c) \/ CDecide(c, "accept") \/ CDecide(c, "reject")
                    \/ CAcceptPending(c) \/ CRejectPending(c)
                    \/ PRawCanceled(c) \/ PRawConnected(c) \/ PRawFailed(c)
  \/ RemoteConnect \/ PListener
  \/ \E f \in pconn : PConnOk(f) \/ PConnErr(f)

Spec == Init /\ [][Next]_vars

-----------------------------------------------------------------------------
(* Properties                                                               *)

Bk == [pending_dials |-> SetToSeq(pd), pending_inbound |-> SetToSeq(pin), opened |-> SetToSeq(opened),
       pending_open |-> SetToSeq(popen), cancel_futures |-> SetToSeq(DOMAIN cf),
       pending_connections |-> Cardinality(pconn), pending_raw_connections |-> Cardinality(praw)]

\* the transport keeps the interface (LegalTransport)
LegalTransport == mon.bad = ""
\* abort handles are removed exactly once: the "without a cancel handle" arms are dead code
HandlesExact == ~warn /\ DOMAIN cf = praw
\* bookkeeping is a function of the interface state at every step
BookkeepingExact == /\ BkExact(mon, Bk)
                    /\ pd = IdsIn(mon, {"dialing"})
                    /\ IdsIn(mon, {"dialing", "negotiating"}) \subseteq {f.c : f \in pconn}
                    /\ {f.c : f \in pconn} \subseteq IdsIn(mon, {"dialing", "negotiating", "in_neg"})
\* nothing outstanding in the network  =>  every operation concluded and nothing retained (G7 + L)
Quiescent == pconn = {} /\ praw = {} /\ nconn = 0
LeakFree == Quiescent => MonQuiesce(mon, Bk).bad = ""
\* a cancelled open never surfaces (also a monitor rule; stated on the model state as well)
CancelledNeverOpened == \A c \in DOMAIN cf : cf[c] => c \notin opened

View == <<pd, pin, pconn, praw, opened, popen, cf, req, auth, next, nconn, mon, warn>>
GenView == <<pd, pin, pconn, praw, opened, popen, cf, req, auth, next, nconn>>
Emit == PrintT(<<"B", ToJson([steps |-> hist'])>>)
=============================================================================
