//! In-memory duplex with a scripted man in the middle for the three Noise XX handshake messages.
//!
//! Bytes written by one endpoint go into the MITM input of that direction; the MITM frames them
//! by the 2-byte length prefix, applies its single move to the targeted handshake message and
//! releases the result to the receiver, which reads it in chunks of a chosen fragmentation class.
use futures::io::{AsyncRead, AsyncWrite};
use rand::{rngs::StdRng, Rng};
use std::{
    io,
    pin::Pin,
    sync::{Arc, Mutex},
    task::{Context, Poll},
};

#[derive(Clone, Debug, Default)]
pub struct Move {
    /// 0 = pass everything, 1..3 = handshake message the move applies to
    pub msg: usize,
    /// corrupt | truncadj | truncraw | extend | substitute | replay | drop
    pub kind: String,
    /// byte offset within the *whole* wire message (incl. the 2 length bytes) for `corrupt`
    pub off: usize,
    pub bit: u8,
    /// number of bytes for truncate / extend
    pub n: usize,
    /// replacement bytes (complete wire message incl. length) for substitute / replay
    pub with: Vec<u8>,
}

#[derive(Default)]
pub struct Dir {
    pub inq: Vec<u8>,
    pub parsed: usize,
    pub nmsg: usize,
    pub outq: Vec<u8>,
    pub rpos: usize,
    pub closed: bool,
    /// boundaries (absolute offsets in outq) the `fields` chunking must not cross
    pub cuts: Vec<usize>,
    /// original wire messages seen in this direction (before the move)
    pub seen: Vec<Vec<u8>>,
}

pub struct Shared {
    pub d2l: Dir,
    pub l2d: Dir,
    pub mv: Move,
    pub applied: bool,
    /// whole | byte1 | fields | random
    pub chunk: String,
    pub rng: StdRng,
    pub progress: u64,
}

pub struct End {
    pub sh: Arc<Mutex<Shared>>,
    pub dialer: bool,
}

pub fn pair(mv: Move, chunk: &str, rng: StdRng) -> (End, End, Arc<Mutex<Shared>>) {
    let sh = Arc::new(Mutex::new(Shared {
        d2l: Dir::default(), l2d: Dir::default(), mv, applied: false, chunk: chunk.to_string(), rng, progress: 0,
    }));
    (End { sh: sh.clone(), dialer: true }, End { sh: sh.clone(), dialer: false }, sh)
}

/// field boundaries of handshake message `k` (offsets within the wire message incl. length)
pub fn field_cuts(k: usize, len: usize) -> Vec<usize> {
    let mut v = vec![2];
    match k {
        1 => v.push(2 + 32),
        2 => {
            v.push(2 + 32);
            v.push(2 + 80);
        }
        _ => v.push(2 + 48),
    }
    if len > 16 {
        v.push(len - 16);
    }
    v.retain(|c| *c < len);
    v
}

impl Shared {
    /// handshake message number of the n-th message of a direction
    fn msg_no(d2l: bool, n: usize) -> usize {
        match (d2l, n) {
            (true, 1) => 1,
            (false, 1) => 2,
            (true, 2) => 3,
            _ => 99,
        }
    }

    fn process(&mut self, d2l: bool) {
        loop {
            let mv = self.mv.clone();
            let dir = if d2l { &mut self.d2l } else { &mut self.l2d };
            let rest = &dir.inq[dir.parsed..];
            if rest.len() < 2 {
                return;
            }
            let len = ((rest[0] as usize) << 8) | rest[1] as usize;
            if rest.len() < 2 + len {
                return;
            }
            let mut m = rest[..2 + len].to_vec();
            dir.parsed += 2 + len;
            dir.nmsg += 1;
            dir.seen.push(m.clone());
            let k = Self::msg_no(d2l, dir.nmsg);
            let mut close_after = false;
            if k == mv.msg {
                match mv.kind.as_str() {
                    "corrupt" => {
                        let o = mv.off % m.len();
                        m[o] ^= 1 << (mv.bit % 8);
                    }
                    "corrupttail" => {
                        // a byte among the last 16 (the AEAD tag of the identity payload)
                        let o = m.len() - 1 - (mv.off % 16);
                        m[o] ^= 1 << (mv.bit % 8);
                    }
                    "truncadj" => {
                        let n = mv.n.max(1).min(len);
                        m.truncate(2 + len - n);
                        let l = len - n;
                        m[0] = (l >> 8) as u8;
                        m[1] = (l & 0xff) as u8;
                    }
                    "truncraw" => {
                        let n = mv.n.max(1).min(len + 1);
                        m.truncate(2 + len - n);
                    }
                    "extend" => {
                        let l = len + mv.n.max(1);
                        m.extend(std::iter::repeat(0xA5).take(mv.n.max(1)));
                        m[0] = (l >> 8) as u8;
                        m[1] = (l & 0xff) as u8;
                    }
                    "substitute" => m = mv.with.clone(),
                    "replay" => m = dir.seen[0].clone(),
                    "drop" => {
                        m.clear();
                        close_after = true;
                    }
                    _ => {}
                }
                self.applied = true;
            }
            let dir = if d2l { &mut self.d2l } else { &mut self.l2d };
            let base = dir.outq.len();
            for c in field_cuts(k, m.len()) {
                dir.cuts.push(base + c);
            }
            dir.cuts.push(base + m.len());
            dir.outq.extend_from_slice(&m);
            if close_after {
                dir.closed = true;
            }
        }
    }
}

impl AsyncWrite for End {
    fn poll_write(self: Pin<&mut Self>, _cx: &mut Context<'_>, buf: &[u8]) -> Poll<io::Result<usize>> {
        let mut g = self.sh.lock().unwrap();
        let d2l = self.dialer;
        {
            let dir = if d2l { &mut g.d2l } else { &mut g.l2d };
            dir.inq.extend_from_slice(buf);
        }
        g.progress += 1;
        g.process(d2l);
        Poll::Ready(Ok(buf.len()))
    }
    fn poll_flush(self: Pin<&mut Self>, _cx: &mut Context<'_>) -> Poll<io::Result<()>> {
        Poll::Ready(Ok(()))
    }
    fn poll_close(self: Pin<&mut Self>, _cx: &mut Context<'_>) -> Poll<io::Result<()>> {
        Poll::Ready(Ok(()))
    }
}

impl AsyncRead for End {
    fn poll_read(self: Pin<&mut Self>, _cx: &mut Context<'_>, buf: &mut [u8]) -> Poll<io::Result<usize>> {
        let mut guard = self.sh.lock().unwrap();
        let g = &mut *guard;
        // the dialer reads what the listener wrote
        let dir = if self.dialer { &mut g.l2d } else { &mut g.d2l };
        let avail = dir.outq.len() - dir.rpos;
        if avail == 0 {
            if dir.closed {
                g.progress += 1;
                return Poll::Ready(Ok(0));
            }
            return Poll::Pending;
        }
        if buf.is_empty() {
            return Poll::Ready(Ok(0));
        }
        let mut k = avail.min(buf.len());
        match g.chunk.as_str() {
            "byte1" => k = 1,
            "fields" => {
                if let Some(c) = dir.cuts.iter().find(|c| **c > dir.rpos) {
                    k = k.min(*c - dir.rpos);
                }
            }
            "random" => {
                if g.rng.gen_bool(0.25) {
                    g.progress += 1; // an injected Pending is progress of the schedule
                    return Poll::Pending;
                }
                k = g.rng.gen_range(1..=k);
            }
            _ => {}
        }
        buf[..k].copy_from_slice(&dir.outq[dir.rpos..dir.rpos + k]);
        dir.rpos += k;
        g.progress += 1;
        Poll::Ready(Ok(k))
    }
}
