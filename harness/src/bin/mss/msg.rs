//! Message variant: real `WebRtcDialerState` against real `webrtc_listener_negotiate`, driven
//! as in `transport/webrtc/connection.rs`, over two queues of whole messages.  A message made
//! of several multistream frames may be delivered whole or split at frame boundaries.
use bytes::Bytes;
use litep2p::{
    types::protocol::ProtocolName,
    verif::mss::{webrtc_listener_negotiate, HandshakeResult, ListenerSelectResult, WebRtcDialerState},
};
use rand::{rngs::StdRng, Rng, SeedableRng};
use serde_json::json;
use std::collections::VecDeque;

pub struct MsgJob {
    pub dlist: Vec<String>,
    pub lset: Vec<String>,
    /// (action, pieces)
    pub ops: Vec<(String, usize)>,
    pub seed: u64,
    pub fault: String,
}

pub struct MsgOutcome {
    pub lines: Vec<String>,
    pub drift: Option<String>,
    pub steps: u64,
}

/// Cut `msg` (concatenated varint-framed multistream messages) at frame boundaries.
fn frames(msg: &[u8]) -> Vec<Vec<u8>> {
    let mut out = vec![];
    let mut rest = msg;
    while !rest.is_empty() {
        let mut len = 0usize;
        let mut shift = 0;
        let mut i = 0;
        loop {
            if i >= rest.len() {
                return vec![msg.to_vec()]; // not parseable: keep whole
            }
            let b = rest[i];
            len |= ((b & 0x7f) as usize) << shift;
            shift += 7;
            i += 1;
            if b & 0x80 == 0 {
                break;
            }
        }
        if i + len > rest.len() {
            return vec![msg.to_vec()];
        }
        out.push(rest[..i + len].to_vec());
        rest = &rest[i + len..];
    }
    out
}

fn group(msg: &[u8], pieces: usize) -> Vec<Vec<u8>> {
    let f = frames(msg);
    if pieces <= 1 || f.len() <= 1 {
        vec![msg.to_vec()]
    } else {
        f
    }
}

#[derive(PartialEq, Clone, Copy, Debug)]
enum St {
    Init,
    Run,
    Ok,
    Fail,
}

struct World {
    dl: VecDeque<Vec<u8>>,
    ld: VecDeque<Vec<u8>>,
    dialer: Option<WebRtcDialerState>,
    d: St,
    l: St,
    hr: bool,
    log: Vec<String>,
    fault: String,
}

impl World {
    fn done(&mut self, s: &str, ok: bool, p: &str, err: String) {
        let mut p = p.to_string();
        if self.fault == "wrongname" && ok && s == "l" {
            p.push('x');
        }
        self.log.push(json!({"e": "done", "s": s, "ok": ok, "p": p, "err": err}).to_string());
    }
    fn enabled(&self, a: &str) -> bool {
        match a {
            "propose" => self.d == St::Init,
            "lrecv" => self.l == St::Run && !self.dl.is_empty(),
            "drecv" => self.d == St::Run && !self.ld.is_empty(),
            "dclose" => self.d == St::Run && self.ld.is_empty() && self.l == St::Fail,
            "lclose" => self.l == St::Run && self.dl.is_empty() && self.d == St::Fail,
            _ => false,
        }
    }
    fn step(&mut self, job: &MsgJob, a: &str, pieces: usize) {
        match a {
            "propose" => {
                let main = ProtocolName::from(job.dlist[0].clone());
                let fb: Vec<ProtocolName> = job.dlist[1..].iter().map(|n| ProtocolName::from(n.clone())).collect();
                match vharness::catch(|| WebRtcDialerState::propose(main, fb)) {
                    Ok(Ok((st, msg))) => {
                        self.dialer = Some(st);
                        self.d = St::Run;
                        self.dl.extend(group(&msg, pieces));
                    }
                    Ok(Err(e)) => {
                        self.d = St::Fail;
                        self.done("d", false, "", format!("{e:?}"));
                    }
                    Err(m) => {
                        self.d = St::Fail;
                        self.log.push(json!({"e": "panic", "s": "d", "msg": m}).to_string());
                    }
                }
            }
            "lrecv" => {
                let msg = self.dl.pop_front().unwrap();
                let sup: Vec<ProtocolName> = job.lset.iter().map(|n| ProtocolName::from(n.clone())).collect();
                let hr = self.hr;
                match vharness::catch(|| webrtc_listener_negotiate(sup, Bytes::from(msg), hr)) {
                    Ok(Ok(ListenerSelectResult::Accepted { protocol, message })) => {
                        self.l = St::Ok;
                        self.done("l", true, &protocol, String::new());
                        self.ld.extend(group(&message, pieces));
                    }
                    Ok(Ok(ListenerSelectResult::Rejected { message })) | Ok(Ok(ListenerSelectResult::PendingProtocol { message })) => {
                        self.hr = true;
                        self.ld.extend(group(&message, pieces));
                    }
                    Ok(Err(e)) => {
                        self.l = St::Fail;
                        self.dl.clear();
                        self.done("l", false, "", format!("{e:?}"));
                    }
                    Err(m) => {
                        self.l = St::Fail;
                        self.dl.clear();
                        self.log.push(json!({"e": "panic", "s": "l", "msg": m}).to_string());
                    }
                }
            }
            "drecv" => {
                let msg = self.ld.pop_front().unwrap();
                let mut st = self.dialer.take().unwrap();
                let r = vharness::catch(|| {
                    let r = st.register_response(msg);
                    match r {
                        Ok(HandshakeResult::Rejected) => match st.propose_next_fallback() {
                            Ok(Some(m)) => Ok((None, Some(m))),
                            Ok(None) => Err("all protocols rejected".to_string()),
                            Err(e) => Err(format!("{e:?}")),
                        },
                        Ok(HandshakeResult::NotReady) => Ok((None, None)),
                        Ok(HandshakeResult::Succeeded(p)) => Ok((Some(p.to_string()), None)),
                        Err(e) => Err(format!("{e:?}")),
                    }
                });
                match r {
                    Ok(Ok((Some(p), _))) => {
                        self.d = St::Ok;
                        self.done("d", true, &p, String::new());
                    }
                    Ok(Ok((None, next))) => {
                        if let Some(m) = next {
                            self.dl.push_back(m);
                        }
                        self.dialer = Some(st);
                    }
                    Ok(Err(e)) => {
                        self.d = St::Fail;
                        self.done("d", false, "", e);
                    }
                    Err(m) => {
                        self.d = St::Fail;
                        self.log.push(json!({"e": "panic", "s": "d", "msg": m}).to_string());
                    }
                }
            }
            "dclose" => {
                self.d = St::Fail;
                self.done("d", false, "", "channel closed".into());
            }
            "lclose" => {
                self.l = St::Fail;
                self.done("l", false, "", "channel closed".into());
            }
            _ => unreachable!(),
        }
    }
}

const ACTIONS: [&str; 5] = ["propose", "lrecv", "drecv", "dclose", "lclose"];

pub fn run(job: &MsgJob) -> MsgOutcome {
    let mut rng = StdRng::seed_from_u64(job.seed);
    let mut w = World {
        dl: VecDeque::new(),
        ld: VecDeque::new(),
        dialer: None,
        d: St::Init,
        l: St::Run,
        hr: false,
        log: vec![],
        fault: job.fault.clone(),
    };
    w.log.push(
        json!({"e": "reset", "variant": "msg", "dlist": job.dlist, "lset": job.lset, "lazy": false,
               "dpay": [], "lpay": [], "dimpl": "lite", "limpl": "lite"})
        .to_string(),
    );
    let mut drift = None;
    let mut steps = 0u64;
    for (i, (a, g)) in job.ops.iter().enumerate() {
        if !w.enabled(a) {
            drift = Some(format!("at script op {i}: `{a}` is not enabled in the real run"));
            break;
        }
        w.step(job, a, *g);
        steps += 1;
    }
    loop {
        let en: Vec<&str> = ACTIONS.iter().copied().filter(|a| w.enabled(a)).collect();
        if en.is_empty() || steps > 10_000 {
            break;
        }
        let a = en[rng.gen_range(0..en.len())];
        let g = rng.gen_range(1..=2);
        w.step(job, a, g);
        steps += 1;
    }
    if steps > 10_000 {
        w.log.push(json!({"e": "livelock"}).to_string());
    } else {
        w.log.push(json!({"e": "quiesce"}).to_string());
    }
    MsgOutcome { lines: w.log, drift, steps }
}
