"""C16 - every Kademlia operation started by the user ends with one terminal event
(KadOps.tla monitor, KadOpsMC.tla orchestration model, KadOpsTrace.tla, harness bin `kadops`:
small networks of real litep2p nodes over loopback TCP with fault nodes, public API only)."""
import json
import os
import random
import re
from vlib import *

ASSUME = [
    "networks are real litep2p nodes in one process over loopback TCP (one OS thread + current-thread runtime per node); "
    "fault nodes: bound-but-not-listening port (undialable), accept-and-drop listener (refusing), routing entry whose only "
    "address no enabled transport can dial (noaddr), node without Kademlia (nokad), node killed before the request / when the "
    "connection is established / when the data arrives, silent peer (user protocol under /ipfs/kad/1.0.0 that never answers; "
    "variant that answers FIND_NODE only), inbound-only peer, local outgoing connection limit",
    "every network runs over one transport dimension: tcp, ws (/ip4/127.0.0.1/tcp/0/ws), quic (/ip4/127.0.0.1/udp/0/quic-v1, "
    "connection_open_timeout 5 s = quinn handshake and idle timeout) or mix (every node listens on all three; the addresses told "
    "to the others are one, two or three of them per node); fault nodes per transport: ws undialable = bound-not-listening TCP port "
    "behind a /ws address, quic undialable = bound UDP socket nobody reads, quic refusing = live endpoint with another identity, "
    "noaddr = address of a transport that is compiled but not enabled (plain /udp in mix), decoy = live node whose routing "
    "entries also carry dead addresses (of the other transports in mix); over quic / mix every scenario with a fault adds "
    "2 x 5 s (dial deadline) per phase to the timeouts before the x3",
    "pair family: two concurrent operations (every pair of kinds) whose only / last target is the same fault node (silent, "
    "killed when the first request has been read, killed at connection, killed when the data arrives) in networks of 2-3 nodes; "
    "killed-after-request family: one operation whose target dies as soon as it has read the request - the order in which the "
    "local node sees ConnectionClosed and the executor result is decided by timing, the runs are repeated",
    "deadline per scenario = 3 x (compile-time / default timeouts that fire on its path: 15 s executor read timeout per silent "
    "phase, 5 s keep-alive, 5 s substream open) + 30 s; a scenario in which any node's own watchdog or the controller saw a "
    "scheduling delay above 2 s is discarded and re-run once, never judged",
    "'actually sent' = IncomingRecord / IncomingProvider at the target or the raw PUT_VALUE / ADD_PROVIDER message read by the "
    "silent peer; a target killed in the middle of the operation counts as possibly sent (lenient); receipts are compared at "
    "quiescence only, never ordered against the terminal event",
    "the number of addressed peers T is observable only for put_record_to_peers (all given peers are routing-table entries of "
    "the local node); for put_record / start_providing the monitor demands at least one receipt (lenient side)",
    "the query engine is abstracted to its guarantee (C15): a lookup ends once every contacted peer was answered or reported "
    "failed; the connection manager is assumed to give every accepted dial one outcome (C05; true at the outgoing "
    "connection limit since /repo commits 7c774cf and 6dd408e - a hang there would be reported under the C05 signatures)",
    "TLC bounds: 3 target peers and one operation of every kind with quorums One / N(2) / All (2 peers and 2 concurrent "
    "operations in the thorough tier); idle connections are eventually closed (keep-alive)",
]

ALLK = ["find_node", "put", "put_to", "get", "provide", "get_providers"]
MC_BASE = {"Peers": {"p1", "p2", "p3"}, "Qs": {1}, "Kinds": set(ALLK), "Quorums": {"one", "n2", "all"},
           "Roles": "<- AnyNoAddr", "Fixed": "<- AllTags", "Limit": True, "Inbound": False, "Discover": False, "Mut": "none"}
MC_INV = ["SPECIFICATION Spec", "INVARIANTS MonOK QuiesceOK OwedCovered Shape", "CHECK_DEADLOCK FALSE"]
MC_STRICT = ["SPECIFICATION Spec", "INVARIANTS MonStrict QuiesceStrict OwedStrict Shape", "CHECK_DEADLOCK FALSE"]
MUTS = ["dialfail_no_report", "closed_no_report", "exfail_no_report", "assume_without_send", "double_terminal",
        "quorum_off_by_one", "hdial_dropped", "limit_reject_silent", "ctx_gone_no_report",
        "est_open_err_send_failure_only"]


def mc_runs(ctx):
    """Exhaustive runs.  The model follows the code of /repo after commit f6b26d6 (Fixed = all tags: every failure path
    reports to the owning query), so the strict invariants - no excuse for tagged paths - must hold everywhere.  The
    model of the earlier code (Fixed = {}) is kept as a negative configuration of the self-test."""
    if ctx.quick():
        runs = [("code", dict(MC_BASE), MC_STRICT),
                # two concurrent operations sharing their target peers; executor results and connection events in any order
                ("two-ops-shared-peer", dict(MC_BASE, Peers={"p1", "p2"}, Qs={1, 2}, Kinds={"find_node", "get", "provide"},
                                             Quorums={"all"}, Roles="<- AnyOnly", Limit=False), MC_STRICT)]
    else:
        runs = [("code", dict(MC_BASE), MC_STRICT),
                ("code-inbound-discover", dict(MC_BASE, Inbound=True, Discover=True), MC_STRICT),
                ("two-ops-shared-peer", dict(MC_BASE, Peers={"p1", "p2"}, Qs={1, 2}, Kinds={"find_node", "get", "provide"},
                                             Quorums={"all"}, Roles="<- AnyOnly", Limit=False), MC_STRICT),
                ("two-ops", dict(MC_BASE, Peers={"p1", "p2"}, Qs={1, 2}, Kinds={"find_node", "put_to", "provide"},
                                 Quorums={"one", "all"}, Roles="<- AnyOnly"), MC_STRICT)]
    out = []
    for name, consts, lines in runs:
        r = tlc_mc(ctx, "KadOpsMC.tla", write_cfg(ctx, "mc_%s.cfg" % name, consts, lines), workers=6, timeout=2400)
        if not r["ok"]:
            raise ToolError("KadOpsMC violates an invariant in config %s "
                            "(model error or a new design finding to be replayed):\n%s" % (name, r.get("error", r["out"][-3000:])))
        out.append({k: r[k] for k in ("transitions", "distinct", "depth", "wall_s") if k in r})
        out[-1]["cfg"] = name
        log("MC %s: %s" % (name, out[-1]))
    return out


# --------------------------------------------------------------------------- scenarios

CONCRETE = {"healthy": [None, "decoy", None], "undialable": ["undialable", "refusing", "dropbefore"], "noaddr": ["noaddr"], "nokad": ["nokad"],
            "silent": ["silent", "silentput"], "dropafter": ["dropconn", "droprecv"]}


def placements(ctx, npeers):
    """Fault placements enumerated by TLC: the initial states of KadOpsMC (role of every target peer x operation kind x
    quorum), reduced to multisets of roles."""
    consts = dict(MC_BASE, Peers={"p%d" % (i + 1) for i in range(npeers)}, Roles="<- PlacementRoles", Limit=False)
    behs, st = tlc_generate(ctx, "KadOpsMC.tla", write_cfg(ctx, "gen%d.cfg" % npeers, consts, ["INIT GenInit", "NEXT GenNext", "CHECK_DEADLOCK FALSE"]))
    seen, out = set(), []
    for b in behs:
        roles = tuple(sorted(b["roles"].values()))
        op = b["ops"][0]
        k = (roles, op["kind"], op["quorum"])
        if k not in seen:
            seen.add(k)
            out.append(k)
    return out, st


def placement_scenarios(ctx, pl):
    """one real network per placement: two ordinary nodes + one node per model peer"""
    S, cyc = [], {}
    for roles, kind, quorum in pl:
        if all(r == "healthy" for r in roles):
            continue
        conc = []
        for r in roles:
            i = cyc.get(r, 0)
            cyc[r] = i + 1
            conc.append(CONCRETE[r][i % len(CONCRETE[r])])
        slow = [c for c in conc if c in ("silent", "silentput")]
        if slow:
            # every silent placement costs 15 s and more of real time: a third of the operations each (all of them over the run)
            i = cyc.get("slowpick", 0)
            cyc["slowpick"] = i + 1
            if i % 3 != (ctx.seed % 3) and not ctx.quick():
                continue
        nodes = [dict(H), dict(H)] + [dict(H) if c is None else fault(c) for c in conc]
        tg = list(range(3, 3 + len(roles)))
        op = {"kind": kind, "quorum": "n" if quorum == "n2" else quorum, "n": 2}
        if kind == "put_to":
            op["targets"] = [1] + tg
        if kind == "get":
            op["holders"] = [1, 2]
        if kind == "get_providers":
            op["holders"] = [1]
        S.append(mk("tlc-%s-%s-%s" % ("+".join(c or "healthy" for c in conc), kind, op["quorum"]), nodes, [op]))
    return S

H = {"role": "kad", "known": True, "learn": True}
FAULTS = {
    "undialable": {"role": "undialable"},
    "refusing": {"role": "refusing"},
    "noaddr": {"role": "noaddr"},
    "nokad": {"role": "nokad"},
    "dropbefore": {"role": "kad", "drop": "before"},
    "dropconn": {"role": "kad", "drop": "conn"},
    "droprecv": {"role": "kad", "drop": "recv"},
    "silent": {"role": "silent"},
    "silentput": {"role": "silentput"},
    # a live node whose routing entries also carry dead addresses (mix: of the other transports)
    "decoy": {"role": "kad", "decoy": True},
}
SLOW = {"silent": 15, "silentput": 15, "nokad": 10, "dieonreq": 5}     # seconds of timeouts expected to fire on the path


def fault(name, known=True, learn=True):
    return dict(FAULTS[name], known=known, learn=learn, fault=name)


QUIC_DIAL = 10    # QUIC open timeout configured by the harness (5 s: quinn handshake and idle timeout) x DIAL_DEADLINE_MULTIPLIER


def deadline(nodes, ops, tr="tcp"):
    t = 0
    for n in nodes:
        t = max(t, SLOW.get(n.get("fault", ""), 0))
    # a peer that answers lookups but nothing else is waited for in the lookup of others and again in the send phase
    phases = 2 if any(o["kind"] in ("put", "provide") for o in ops) and any(n.get("fault") == "silentput" for n in nodes) else 1
    if tr in ("quic", "mix") and (any(n.get("fault") for n in nodes)):
        # over QUIC a dead or unreachable peer is only noticed by the handshake / idle timeout, in the lookup and
        # again in the send phase
        t += QUIC_DIAL
        if any(o["kind"] in ("put", "provide") for o in ops):
            phases = 2
    return (3 * t * phases + 30) * 1000


TRANSPORTS = ("tcp", "ws", "quic", "mix")


def retarget(s, tr):
    d = json.loads(json.dumps(s))
    d["transport"] = tr
    if tr != "tcp":
        d["name"] = "%s@%s" % (s["name"], tr)
    if "deadline_ms" in s:
        d["deadline_ms"] = deadline(d["nodes"], d["ops"], tr)
    return d


def family(name):
    """scenario family of a base scenario name (used to sample the non-tcp transports in the quick tier)"""
    if name.startswith("tlc-"):
        return "tlc:" + name.split("-")[1]
    for k in ("-discovered-", "-warm-", "-direct-"):
        if k in name:
            return k.strip("-")
    if name.startswith("limit-"):
        return "limit"
    if name.startswith("inbound-only"):
        return "inbound"
    if name.startswith("random-"):
        return "random"
    if name.startswith("pair-"):
        return "pair:" + name.split("-")[1]
    if name.startswith("killed-after-request-"):
        return "killed-after-request"
    if name.startswith("dropafterconnect-"):
        return "dropafterconnect"
    if name.startswith("sibling-killed-"):
        return "sibling-killed"
    return "single:" + name


def mk(name, nodes, ops, **kw):
    d = {"name": name, "nodes": nodes, "ops": ops, "deadline_ms": deadline(nodes, ops), "settle_ms": 2000}
    if any(n.get("fault") in ("silent", "silentput") for n in nodes):
        d["settle_ms"] = 18000    # late executor time-outs (15 s) must not produce a second terminal event
    d.update(kw)
    return d


def op_variants(fault_idx, nh):
    """operations for a network of nh ordinary nodes (1..nh) and one fault node at fault_idx"""
    v = [{"kind": "find_node"}]
    for q in ("one", "n", "all"):
        v.append({"kind": "put", "quorum": q, "n": 2})
        v.append({"kind": "provide", "quorum": q, "n": 2})
        v.append({"kind": "put_to", "quorum": q, "n": 2, "targets": [1, fault_idx]})
    v.append({"kind": "put_to", "quorum": "all", "targets": [fault_idx]})
    v.append({"kind": "put_to", "quorum": "n", "n": 2, "targets": [1, 2, fault_idx]})
    v.append({"kind": "get", "quorum": "one", "holders": [2]})
    v.append({"kind": "get", "quorum": "all", "holders": [1, 2]})
    v.append({"kind": "get_providers", "holders": [1]})
    # the local node already holds the record / is a provider itself (holder 0)
    v.append({"kind": "get", "quorum": "one", "holders": [0]})
    v.append({"kind": "get", "quorum": "all", "holders": [0, 1]})
    v.append({"kind": "get_providers", "holders": [0, 2]})
    return v


def no_usable_target_scenarios():
    """put_record_to_peers whose every target is unusable (address-less unknown peer, the local node itself, an empty
    list): the send phase has nobody to send to, so no quorum can be met - success would certify a record nobody was
    sent (seeded C16f: quorum arithmetic of the send phase clamps to the number of targets, 0 >= 0)"""
    S = []
    for q in ("all", "n", "one"):
        S.append(mk("no-usable-target-put_to-%s" % q, [dict(H), dict(H), fault("noaddr", learn=False)],
                    [{"kind": "put_to", "quorum": q, "n": 2, "targets": [3]}]))
    S.append(mk("empty-target-list-put_to-all", [dict(H), dict(H)], [{"kind": "put_to", "quorum": "all", "targets": []}]))
    S.append(mk("own-id-target-put_to-n", [dict(H), dict(H)], [{"kind": "put_to", "quorum": "n", "n": 1, "targets": [0]}]))
    return S


def base_scenarios(ctx, pl, seed):
    """transport-agnostic scenario list (no ids)"""
    rnd = random.Random(seed)
    S = []
    names = list(FAULTS)
    if ctx.quick():
        # TLC placements with one fault slot; every silent placement costs 15 s and more: two networks in the quick tier
        for sc in placement_scenarios(ctx, pl):
            if any(n.get("fault") in ("silent", "silentput") for n in sc["nodes"]):
                continue
            S.append(sc)
        for f in names:
            if f in ("silent", "silentput"):
                op = {"kind": "put_to", "quorum": "all", "targets": [1, 4]} if f == "silent" else {"kind": "put", "quorum": "all"}
                # the silent peer is also a lookup candidate: FIND_NODE read time-out next to the PUT_VALUE one
                S.append(mk("%s-direct-%s+find_node" % (f, op["kind"]), [dict(H), dict(H), dict(H), fault(f)], [op, {"kind": "find_node"}]))
                continue
            for op in ({"kind": "put", "quorum": "all"}, {"kind": "get_providers", "holders": [1]}):
                S.append(mk("%s-discovered-%s" % (f, op["kind"]), [dict(H), dict(H), dict(H), fault(f, known=False)], [op]))
            S.append(mk("%s-warm-provide" % f, [dict(H), dict(H), dict(H), fault(f)], [{"kind": "provide", "quorum": "all"}], warm=True))
        # the address-less routing entry in the send phase
        for q in ("one", "all"):
            S.append(mk("noaddr-put_to-%s" % q, [dict(H), dict(H), fault("noaddr", learn=False)],
                        [{"kind": "put_to", "quorum": q, "targets": [1, 3]}]))
        S.append(mk("undialable-put_to-all", [dict(H), dict(H), fault("undialable")], [{"kind": "put_to", "quorum": "all", "targets": [1, 3]}]))
        S += no_usable_target_scenarios()
        S.append(mk("all-kinds-undialable", [dict(H), dict(H), dict(H), fault("undialable")],
                    [o for o in op_variants(4, 3) if o.get("quorum", "one") in ("one", "all")][:7]))
        S += limit_scenarios()
        S.append(mk("healthy-all-kinds", [dict(H), dict(H), dict(H), dict(H)], op_variants(4, 4)[:8] + [{"kind": "get_providers", "holders": [3]}]))
        S.append(mk("decoy-all-kinds", [dict(H), fault("decoy"), fault("decoy"), dict(H)],
                    [{"kind": "find_node"}, {"kind": "put", "quorum": "all"}, {"kind": "put_to", "quorum": "all", "targets": [1, 2, 3]},
                     {"kind": "provide", "quorum": "all"}]))
        S.append(mk("local-holder-undialable", [dict(H), dict(H), fault("undialable")], op_variants(3, 2)[-3:]))
    else:
        S += placement_scenarios(ctx, pl)
        for f in names:
            slow = f in ("silent", "silentput")
            ops = op_variants(4, 3)
            if slow:
                ops = [o for i, o in enumerate(ops) if i % 2 == (0 if f == "silent" else 1)] + [ops[0]]
            for op in ops:
                S.append(mk("%s-direct-%s-%s" % (f, op["kind"], op.get("quorum", "")), [dict(H), dict(H), dict(H), fault(f)], [op]))
            for op in [o for o in ops if o["kind"] != "put_to"][::(3 if slow else 2)]:
                S.append(mk("%s-discovered-%s-%s" % (f, op["kind"], op.get("quorum", "")),
                            [dict(H), dict(H), dict(H), fault(f, known=False)], [op]))
            if not slow:
                for op in ops[::3]:
                    S.append(mk("%s-warm-%s-%s" % (f, op["kind"], op.get("quorum", "")),
                                [dict(H), dict(H), dict(H), fault(f)], [op], warm=True, after_drop_ms=rnd.choice([0, 0, 300])))
            S.append(mk("%s-all-kinds" % f, [dict(H), dict(H), dict(H), fault(f)],
                        [o for o in op_variants(4, 3) if o.get("quorum", "one") in ("one", "all")][:7]))
        for q in ("one", "n", "all"):
            S.append(mk("noaddr-put_to-only-%s" % q, [dict(H), dict(H), fault("noaddr", learn=False)],
                        [{"kind": "put_to", "quorum": q, "n": 2, "targets": [1, 2, 3]}]))
        S += limit_scenarios()
        S += inbound_scenarios()
        S += no_usable_target_scenarios()
        S.append(mk("healthy-all-kinds", [dict(H), dict(H), dict(H), dict(H)], op_variants(4, 4)))
        # random placements: 1-3 fault nodes among 2-4 ordinary ones, 1-4 concurrent operations
        fast = [f for f in names if f not in ("silent", "silentput")]
        for i in range(60):
            nh = rnd.randint(2, 4)
            nf = rnd.randint(1, 3)
            pool = names if i % 6 == 0 else fast
            nodes = [dict(H, known=(j == 0 or rnd.random() < 0.7)) for j in range(nh)]
            nodes += [fault(rnd.choice(pool), known=rnd.random() < 0.7) for _ in range(nf)]
            allv = []
            for fi in range(nh + 1, nh + nf + 1):
                allv += op_variants(fi, nh)
            ops = [dict(rnd.choice(allv)) for _ in range(rnd.randint(1, 4))]
            for o in ops:
                if o["kind"] == "put_to":     # put-to-peers targets must be routing entries of the local node
                    for t in o["targets"]:
                        nodes[t - 1]["known"] = True
            S.append(mk("random-%d" % i, nodes, ops, warm=rnd.random() < 0.4, seq=rnd.random() < 0.2,
                        after_drop_ms=rnd.choice([0, 300])))
    S += pair_scenarios(ctx, rnd)
    S += est_scenarios(ctx, rnd)
    # put to given peers, one of which is killed the moment the record arrives: the others must still be sent the record
    # before success is reported (over QUIC closing the substream to the dead peer used to block the Kademlia loop for the
    # idle timeout - fixed by /repo 080357c; a rare race, hence repeated)
    for r in range(8 if ctx.quick() else 40):
        S.append(mk("sibling-killed-put_to-all-%d" % r, [dict(H), fault("droprecv"), dict(H)],
                    [{"kind": "put_to", "quorum": "all", "targets": [1, 2, 3]}]))
    return S


def scenarios(ctx, pl=()):
    """tcp: every base scenario.  ws / quic / mix: thorough - every base scenario again (random family with its own
    seed); quick - a sample of every scenario family, rotating through roles and operations per transport."""
    base = base_scenarios(ctx, pl, ctx.seed)
    if ctx.quick():
        base.append(inbound_scenarios()[1])
    S = [retarget(s, "tcp") for s in base]
    for ti, tr in enumerate(TRANSPORTS[1:]):
        if not ctx.quick():
            S += [retarget(s, tr) for s in base_scenarios(ctx, pl, ctx.seed * 10 + ti + 1)]
            continue
        fams = {}
        for s in base:
            fams.setdefault(family(s["name"]), []).append(s)
        for fam, L in sorted(fams.items()):
            if fam.startswith("tlc:"):
                n = 2
            elif fam in ("discovered", "warm"):
                n = 3
            elif fam.startswith("pair:"):
                n = 4
            elif fam == "killed-after-request":
                n = 6
            elif fam == "dropafterconnect":
                n = 5
            elif fam == "sibling-killed":
                n = len(L) if tr in ("quic", "mix") else 2
            elif fam == "direct":          # the two silent placements of the quick tier: one per transport
                n = 1
            else:
                n = len(L)
            step = max(1, len(L) // n)
            picks = [L[(ti + ctx.seed + k * step + (ti * 5 if step > 1 else 0)) % len(L)] for k in range(n)]
            seen = set()
            for s in picks:
                if s["name"] not in seen:
                    seen.add(s["name"])
                    S.append(retarget(s, tr))
    for i, s in enumerate(S):
        s["id"] = i + 1
    return S


LOOKUPS = ["find_node", "get", "get_providers", "put", "provide"]


def pair_scenarios(ctx, rnd):
    """Two concurrent operations (every pair of kinds) whose only / last target is the same fault node, in networks of
    2-3 nodes so that nothing else can finish the query, and single operations whose target is killed right after the
    request was written (the order ConnectionClosed / executor result is decided by timing: repeated)."""
    def op(k):
        return {"kind": k, "quorum": "all", "n": 2} if k in ("put", "provide") else {"kind": k}
    pairs = [(a, b) for i, a in enumerate(LOOKUPS) for b in LOOKUPS[i + 1:]]
    same = [(a, a) for a in ("find_node", "put")]
    out = []
    reps = 1 if ctx.quick() else 3
    k = 0
    for fname, spec_, plist in (
            ("silent", {"role": "silent"}, pairs + same),
            ("dieonreq", {"role": "dieonreq"}, pairs + same),
            ("dropconn", {"role": "kad", "drop": "conn"}, pairs),
            ("droprecv", {"role": "kad", "drop": "recv"}, [p for p in pairs if "put" in p or "provide" in p] + [("put", "put")])):
        for (a, b) in plist:
            for r in range(reps if fname != "silent" else 1):
                k += 1
                f = dict(spec_, known=True, learn=True, fault=fname)
                # alternately the fault node alone, or next to one ordinary node (it is then the last pending peer)
                nodes = [f] if k % 2 else [dict(H), f]
                sc = mk("pair-%s-%s+%s-%d" % (fname, a, b, r), nodes, [op(a), op(b)])
                if fname == "silent":
                    sc["settle_ms"] = 3000
                out.append(sc)
    for kind in LOOKUPS + ["put_to"]:
        for r in range(3 if ctx.quick() else 8):
            k += 1
            f = {"role": "dieonreq", "known": True, "learn": True, "fault": "dieonreq"}
            nodes = [f] if k % 2 else [dict(H), f]
            o = op(kind) if kind != "put_to" else {"kind": "put_to", "quorum": "all", "targets": [len(nodes)]}
            out.append(mk("killed-after-request-%s-%d" % (kind, r), nodes, [o]))
    return out


def est_scenarios(ctx, rnd):
    """The open-substream error branch of on_connection_established.  burst: more operations wait for the dial of
    one peer than the connection's command channel holds (256) - the peer is reached through a proxy of the harness
    that holds the connection until all operations are issued, so the excess deterministically gets ChannelClogged.
    dropafterconnect: the remote forcibly closes the connection as soon as it is established (timing decides what
    the local node sees first); it is the only / last target of every lookup kind."""
    def op(k):
        return {"kind": k, "quorum": "one"} if k in ("put", "provide") else {"kind": k}
    out = []
    g = {"role": "kad", "known": True, "learn": True, "gated": True, "fault": "gated-burst"}
    for v, nodes in enumerate(([dict(g)], [dict(H), dict(g)])[: (1 if ctx.quick() else 2)]):
        out.append(mk("burst-%d" % v, nodes, [op(LOOKUPS[n % 5]) for n in range(300)]))
    d = {"role": "dropafterconnect", "known": True, "learn": True, "fault": "dropafterconnect"}
    k = 0
    for kind in LOOKUPS:
        for r in range(2 if ctx.quick() else 6):
            k += 1
            nodes = [dict(d)] if k % 2 else [dict(H), dict(d)]
            out.append(mk("dropafterconnect-%s-%d" % (kind, r), nodes, [op(kind)], jitter_ms=(400 if r % 2 else 0)))
    # all lookup kinds at once, the closing peer behind the gate (its connection is established after everything waits)
    for r in range(1 if ctx.quick() else 3):
        out.append(mk("dropafterconnect-gated-%d" % r, [dict(H), dict(d, gated=True)], [op(x) for x in LOOKUPS] * 2, jitter_ms=400))
    return out


def limit_scenarios():
    late = {"role": "kad", "late_known": True, "learn": False}
    return [
        # the limit is reached (warm-up) before the operation dials another peer: the dial is refused in the manager
        mk("limit-reached-find_node", [dict(H), dict(late)], [{"kind": "find_node"}], limit=1, warm=True, lim="reached"),
        mk("limit-reached-put_to-all", [dict(H), dict(late)], [{"kind": "put_to", "quorum": "all", "targets": [1, 2]}], limit=1, warm=True, lim="reached"),
        mk("limit-reached-put-provide", [dict(H), dict(late, learn=True)], [{"kind": "put", "quorum": "all"}, {"kind": "provide", "quorum": "one"}],
           limit=1, warm=True, lim="reached"),
        # two dials in flight reach the limit together
        mk("limit-racing-find_node", [dict(H), dict(H)], [{"kind": "find_node"}], limit=1, lim="racing"),
        mk("limit-racing-put-one", [dict(H), dict(H), dict(H)], [{"kind": "put", "quorum": "one"}], limit=2, lim="racing"),
        mk("limit-not-reached-put-all", [dict(H), dict(H)], [{"kind": "put", "quorum": "all"}], limit=2, lim="free"),
    ]


def inbound_scenarios():
    """A peer that is only connected inbound (no dialable address known) answers the lookup, its connection idles out
    while the lookup waits for a silent peer, and the send phase then cannot even start a dial."""
    X = {"role": "kad", "known": True, "learn": False, "hidden": True, "dials_local": True, "fault": "inbound-only"}
    sil = fault("silent", learn=False)
    out = []
    for op in ({"kind": "put", "quorum": "all"}, {"kind": "put", "quorum": "one"}, {"kind": "provide", "quorum": "one"}):
        out.append(mk("inbound-only-slow-lookup-%s-%s" % (op["kind"], op["quorum"]), [dict(H), dict(H), dict(sil), dict(X)], [op]))
    out.append(mk("inbound-only-fast-lookup-put", [dict(H), dict(H), dict(X)], [{"kind": "put", "quorum": "all"}]))
    return out


# --------------------------------------------------------------------------- running

def run_harness(ctx, scen, tag, parallel, env=None):
    sp = ctx.path("scen_%s.jsonl" % tag)
    write_jsonl(sp, scen)
    tp, dp = ctx.path("trace_%s.ndjson" % tag), ctx.path("diag_%s.jsonl" % tag)
    worst = max(s["deadline_ms"] for s in scen) / 1000.0
    waves = (len(scen) + parallel - 1) // parallel
    summ, _ = harness(ctx, "kadops", ["--scenarios", sp, "--out", tp, "--diag", dp, "--parallel", parallel],
                      timeout=int(waves * (worst + 60) + 120), env=env)
    lines = read_lines(tp) if os.path.exists(tp) else []
    diags = {}
    for ln in read_lines(dp):
        d = json.loads(ln)
        diags[d["id"]] = d
    return summ, lines, diags


def run_all(ctx, scen, env=None):
    parallel = int(os.environ.get("VERIF_PARALLEL", "32" if ctx.quick() else "40"))
    summ, lines, diags = run_harness(ctx, scen, "a", parallel, env)
    if summ["setup_errors"]:
        raise ToolError("harness could not set up %d scenarios: %s" % (summ["setup_errors"], summ["errors"]))
    redo = [s for s in scen if diags.get(s["id"], {}).get("discarded")]
    if redo:
        log("NOTE %d scenarios missed their timing assumptions (scheduling delay > 2 s); re-running them" % len(redo))
        s2, l2, d2 = run_harness(ctx, redo, "b", 8, env)
        lines += l2
        for k, d in d2.items():
            diags[k] = d
        still = [k for k, d in d2.items() if d.get("discarded")]
        if still:
            ctx.notes.append("%d scenarios discarded twice (timing assumptions not met), not judged: %s" % (len(still), still[:10]))
        summ["rerun"] = s2
    return summ, lines, diags


# --------------------------------------------------------------------------- classification

def seg_ops(seg):
    """ops of a trace segment: q -> dict(kind, quorum, n, T, terms, recv, maybe)"""
    ops = {}
    for ln in seg:
        e = json.loads(ln)
        if e["e"] == "cmd":
            ops[e["q"]] = dict(kind=e["kind"], quorum=e["quorum"], n=e["n"], T=e["T"], terms=[], recv=set(), maybe=set())
        elif e["e"] == "term" and e["q"] in ops:
            ops[e["q"]]["terms"].append(e["ok"])
        elif e["e"] in ("recv", "maybe") and e["q"] in ops:
            ops[e["q"]][e["e"]].add(e["at"])
    return ops


def need(o):
    t = 1 if o["T"] < 0 else max(o["T"], 1)
    return 1 if o["quorum"] == "one" else t if o["quorum"] == "all" else min(max(o["n"], 1), t)


def classify(seg, reason, scen, diag):
    """-> list of (signature, text) for the offending operations of a rejected execution"""
    ops = seg_ops(seg)
    local = (diag or {}).get("markers", {}).get("0", {})
    roles = sorted({n.get("fault", n["role"]) for n in (scen or {}).get("nodes", []) if n.get("fault")})
    out = []
    if reason.startswith("silence"):
        opidx = {}
        for o in (diag or {}).get("ops", []):
            opidx[o["q"]] = len(opidx)
        for q, o in sorted(ops.items()):
            if o["terms"]:
                continue
            keytxt = "c16/%d/%d/" % ((scen or {}).get("id", -1), opidx.get(q, -1))
            put_err = [l for l in local.get("kad_put_target_err_ignored", []) if keytxt in l]
            prov_err = [l for l in local.get("kad_prov_target_err_ignored", []) if keytxt in l]
            if o["kind"] in ("put", "put_to") and put_err:
                err = re.search(r"error=(\S+)", put_err[0])
                out.append(("put-record-target-open-or-dial-error-ignored",
                            "%s (quorum %s) never got a terminal event: on_query_action(PutRecordToFoundNodes) ignored %s for a target "
                            "peer, fault roles %s" % (o["kind"], o["quorum"], err.group(1) if err else "an error", roles)))
            elif o["kind"] == "provide" and prov_err:
                err = re.search(r"error=(\S+)", prov_err[0])
                out.append(("add-provider-target-open-or-dial-error-ignored",
                            "start_providing (quorum %s) never got a terminal event: on_query_action(AddProviderToFoundNodes) ignored %s "
                            "for a found node, fault roles %s" % (o["quorum"], err.group(1) if err else "an error", roles)))
            elif (scen or {}).get("limit") is not None and local.get("mgr_reject_connection"):
                out.append(("outbound-established-rejected-by-limit",
                            "%s never got a terminal event: the local node reached its outgoing connection limit (%s) while two dials "
                            "were in flight; the manager rejected the negotiated connection and reported no dial failure"
                            % (o["kind"], scen.get("limit"))))
            elif (scen or {}).get("limit") is not None and local.get("mgr_dial_command_refused_limit"):
                out.append(("hdial-refused-silently",
                            "%s never got a terminal event: a dial accepted by the handle was refused by the manager at the outgoing "
                            "connection limit (%s) and no DialFailure reached Kademlia" % (o["kind"], scen.get("limit"))))
            elif o["kind"] in PUTK and local.get("kad_est_open_substream_err"):
                out.append(("est-open-substream-err-unreported", "%s never got a terminal event: on_connection_established could not open "
                            "the substream of an action that waited for the dial and the owning query was not told" % o["kind"]))
            else:
                out.append(("silence-%s-%s" % (o["kind"], "+".join(roles) or "healthy"),
                            "%s (quorum %s) never got a terminal event within the deadline; fault roles %s; call-site markers %s"
                            % (o["kind"], o["quorum"], roles, {k: len(v) for k, v in local.items()})))
    elif reason.startswith("success reported below"):
        for q, o in sorted(ops.items()):
            if o["kind"] in PUTK and o["terms"] == [True] and len(o["recv"] | o["maybe"]) < need(o):
                out.append(("success-below-quorum-%s-%s" % (o["kind"], o["quorum"]),
                            "%s reported success with quorum %s (n=%s, %s addressed peers) but only %d peers were sent the data; fault roles %s"
                            % (o["kind"], o["quorum"], o["n"], o["T"], len(o["recv"] | o["maybe"]), roles)))
    elif reason.startswith("second terminal"):
        for q, o in sorted(ops.items()):
            if len(o["terms"]) > 1:
                out.append(("second-terminal-event-%s" % o["kind"], "%s got %d terminal events %s; fault roles %s" % (o["kind"], len(o["terms"]), o["terms"], roles)))
    if not out:
        out.append((re.sub(r"[^a-z0-9]+", "-", reason.lower()).strip("-") or "rejected", reason))
    return out


PUTK = ("put", "put_to", "provide")


def judge(ctx, scen, lines, diags):
    byid = {s["id"]: s for s in scen}
    nseg, nev, rejects = validate_all(ctx, "KadOpsTrace.tla", "KadOpsTrace.cfg", lines)
    violations, seen = [], set()
    for r in rejects:
        seg, idx = r
        hdr = json.loads(seg[0])
        key = (hdr.get("id"), r.reason)
        if key in seen:
            continue
        seen.add(key)
        sc, dg = byid.get(hdr.get("id")), diags.get(hdr.get("id"))
        for sig, text in classify(seg, r.reason, sc, dg):
            violations.append({"sig": sig, "what": "%s [scenario %s, transport %s]" % (text, hdr.get("name"), hdr.get("tr", "tcp")),
                               "replay_obj": {"property": "C16", "signature": sig, "reason": r.reason, "scenario": sc,
                                              "trace": [json.loads(x) for x in seg],
                                              "markers_local_node": {k: v[:2] for k, v in (dg or {}).get("markers", {}).get("0", {}).items()}}})
    return nseg, nev, rejects, violations


def coverage(scen, diags, lines, mc, summ, nseg, nev):
    roles, kinds, outcomes = {}, {}, {}
    bytr = {}
    shapes = set()
    nontrivial = set()
    for s in scen:
        d = diags.get(s["id"])
        if not d or d.get("discarded"):
            continue
        fr = sorted(n.get("fault") for n in s["nodes"] if n.get("fault"))
        bt = bytr.setdefault(s.get("transport", "tcp"), {"networks": 0, "operations": 0, "outcomes": {}, "fault_roles": {}, "late_ms_max": 0})
        bt["networks"] += 1
        bt["late_ms_max"] = max(bt["late_ms_max"], d.get("late_ms", 0))
        for f in fr:
            roles[f] = roles.get(f, 0) + 1
            bt["fault_roles"][f] = bt["fault_roles"].get(f, 0) + 1
        if s.get("limit") is not None:
            roles["limit-" + s.get("lim", "set")] = roles.get("limit-" + s.get("lim", "set"), 0) + 1
            bt["fault_roles"]["limit-" + s.get("lim", "set")] = bt["fault_roles"].get("limit-" + s.get("lim", "set"), 0) + 1
        shape = json.dumps([s.get("transport", "tcp"), fr, s.get("limit"), bool(s.get("warm")), [(o["kind"], o.get("quorum"), o.get("targets")) for o in s["ops"]],
                            [(n["role"], n.get("known"), n.get("drop")) for n in s["nodes"]]], sort_keys=True)
        shapes.add(shape)
        if fr or s.get("limit") is not None:
            nontrivial.add(shape)
        for o in d["ops"]:
            kinds[o["kind"]] = kinds.get(o["kind"], 0) + 1
            res = "none" if not o["terms"] else ("ok" if o["terms"][0]["ok"] else "failed")
            outcomes[res] = outcomes.get(res, 0) + 1
            bt["operations"] += 1
            bt["outcomes"][res] = bt["outcomes"].get(res, 0) + 1
    est_hits = {}
    for s in scen:
        d = diags.get(s["id"])
        if d and not d.get("discarded"):
            n = len(d.get("markers", {}).get("0", {}).get("kad_est_open_substream_err", []))
            if n:
                est_hits[s.get("transport", "tcp")] = est_hits.get(s.get("transport", "tcp"), 0) + n
    alive_fail = []
    for s in scen:
        d = diags.get(s["id"])
        if not d or d.get("discarded") or s.get("limit") is not None:
            continue
        if all(n.get("fault") in (None, "decoy") and n.get("drop", "never") == "never" for n in s["nodes"]):
            for o in d["ops"]:
                if o["kind"] in ("find_node", "put", "put_to", "provide") and not (o["terms"] and o["terms"][0]["ok"]):
                    alive_fail.append({"scenario": s["name"], "op": o["kind"], "quorum": o["quorum"], "terms": o["terms"], "recv_at": o["recv_at"],
                                       "markers": {k: len(v) for k, v in d.get("markers", {}).get("0", {}).items() if k != "transport_debug"}})
    samples = []
    for pre in ("tlc-noaddr-put_to", "noaddr-put_to", "silent-direct", "silentput-direct", "limit-racing", "limit-reached", "tlc-dropconn-put-",
                "tlc-refusing-find_node", "tlc-nokad+", "inbound-only-slow", "healthy-all-kinds"):
        for s in scen:
            d = diags.get(s["id"])
            if d and not d.get("discarded") and s["name"].startswith(pre):
                samples.append({"scenario": s["name"], "nodes": [n.get("fault", n["role"]) for n in s["nodes"]], "limit": s.get("limit"),
                                "ops": [{k: o[k] for k in ("kind", "quorum", "targets", "terms", "recv_at")} for o in d["ops"][:4]]})
                break
    nops = sum(1 for ln in lines if '"e":"cmd"' in ln)
    return {
        "states": sum(m["distinct"] for m in mc),
        "transitions": sum(m["transitions"] for m in mc),
        "traces_validated_against_impl": nseg,
        "events_validated": nev,
        "samples": samples,
        "evaluations": nops,
        "distinct_nontrivial": len(nontrivial),
        "rule": "a case is one network of real litep2p nodes (local node + 2-4 ordinary Kademlia nodes + fault nodes) in which the "
                "local node runs 1-9 operations through KademliaHandle; evaluations = operations monitored (incl. warm-up and "
                "holder operations); distinct_nontrivial = distinct (fault roles, limit, warm-up, operations, node knowledge) shapes "
                "with at least one fault node or a connection limit; every network runs over one of tcp / ws / quic / mix "
                "(all three transports on every node, routing entries carrying different address subsets)",
        "model_runs": mc,
        "harness": summ,
        "scenarios_run": len(shapes),
        "fault_roles_exercised": roles,
        "operation_kinds_exercised": kinds,
        "operation_outcomes": outcomes,
        "by_transport": bytr,
        # pending actions whose substream could not be opened when the dialed connection was established
        "est_open_substream_error_branch_hits": est_hits,
        # not a rule of the property (a failure is a legal terminal event), recorded as an observation only
        "not_ok_although_every_node_alive_and_reachable": {"count": len(alive_fail), "examples": alive_fail[:5]},
        "impl_divergences": 0,
        "exhaustive": False,
    }


def check(ctx):
    mc = mc_runs(ctx)
    build_s = cargo_build(ctx, ["kadops"])
    pl, gstats = placements(ctx, 1 if ctx.quick() else 2)
    log("GEN placements: %s" % gstats)
    scen = scenarios(ctx, pl)
    summ, lines, diags = run_all(ctx, scen)
    log("HARNESS: %s (build %ss, %d scenarios)" % ({k: v for k, v in summ.items() if k != "errors"}, build_s, len(scen)))
    nseg, nev, rejects, violations = judge(ctx, scen, lines, diags)
    cov = coverage(scen, diags, lines, mc, summ, nseg, nev)
    cov["generation"] = gstats
    cov["placements_from_tlc"] = sum(1 for x in scen if x["name"].startswith("tlc-"))
    missing = ["%s@%s" % (f, tr) for tr in TRANSPORTS for f in list(FAULTS) + ["limit-reached", "limit-racing", "inbound-only", "dieonreq", "dropafterconnect", "gated-burst"]
               if not cov["by_transport"].get(tr, {}).get("fault_roles", {}).get(f) and not (f == "silentput" and ctx.quick())]
    missing += [f for f in FAULTS if not cov["fault_roles_exercised"].get(f)]
    missing += ["est-open-substream-error-branch@%s" % tr for tr in TRANSPORTS if not cov["est_open_substream_error_branch_hits"].get(tr)]
    missing += [k for k in ALLK if not cov["operation_kinds_exercised"].get(k)]
    # a coverage gap is a tool error only when nothing was found: a defect that removes a path must be reported as such
    if missing and all(v["sig"] in load_known("C16") for v in violations):
        raise ToolError("coverage: fault roles / operation kinds never exercised: %s" % missing)
    if missing:
        ctx.notes.append("not exercised in this run (see the violations): %s" % missing)
    return conclude(ctx, "model_checking", cov, violations, ASSUME)


def replay(ctx, path):
    obj = json.load(open(path))
    cargo_build(ctx, ["kadops"])
    sc = obj.get("scenario")
    if not sc:
        seg = [json.dumps(x, separators=(",", ":")) for x in obj["trace"]]
        _, _, rej = validate_all(ctx, "KadOpsTrace.tla", "KadOpsTrace.cfg", seg)
        log("replay (recorded trace only): %s" % ("rejected: %s" % rej[0].reason if rej else "accepted"))
        return 1 if rej else 0
    summ, lines, diags = run_harness(ctx, [sc], "r", 1)
    nseg, nev, rejects, violations = judge(ctx, [sc], lines, diags)
    for v in violations:
        log("replay: %s: %s" % (v["sig"], v["what"]))
    if not violations:
        log("replay: accepted")
    return 1 if violations else 0


# --------------------------------------------------------------------------- self-test

def selftest(ctx):
    ok = True
    # (b) negative model configurations: the code before the D10 repair, and one seeded mutation per failure path of
    #     the model of the current code, must each violate a property
    r = tlc_mc(ctx, "KadOpsMC.tla", write_cfg(ctx, "neg_before_fix.cfg", dict(MC_BASE, Fixed="<- NoFixed"), MC_STRICT), workers=6, expect_violation=True)
    hit = "is violated" in r["out"]
    log("selftest model of the code before f6b26d6 (ignored open/dial errors), strict invariants -> %s" % ("violated" if hit else "NOT violated"))
    ok &= hit
    # ... while the same model holds the invariants that excuse exactly the tagged paths (the tags are precise)
    r = tlc_mc(ctx, "KadOpsMC.tla", write_cfg(ctx, "neg_before_fix_tagged.cfg", dict(MC_BASE, Fixed="<- NoFixed"), MC_INV), workers=6)
    log("selftest model of the code before f6b26d6, tagged paths excused -> %s" % ("holds" if r["ok"] else "VIOLATED"))
    ok &= r["ok"]
    for m in MUTS:
        r = tlc_mc(ctx, "KadOpsMC.tla", write_cfg(ctx, "neg_%s.cfg" % m, dict(MC_BASE, Mut=m), MC_STRICT),
                   workers=6, expect_violation=True)
        inv = re.findall(r"Invariant (\w+) is violated", r["out"])
        log("selftest model mutation %s -> %s" % (m, "violated %s" % inv[0] if inv else "NOT violated"))
        ok &= bool(inv)
    # (a) binding: a good recorded execution, corrupted, must be rejected at the corrupted place
    cargo_build(ctx, ["kadops"])
    good = [mk("selftest-healthy", [dict(H), dict(H), dict(H)],
               [{"kind": "put_to", "quorum": "all", "targets": [1, 2, 3]}, {"kind": "find_node"}, {"kind": "provide", "quorum": "one"}], id=1)]
    summ, lines, diags = run_harness(ctx, good, "s", 1)
    _, _, rej = validate_all(ctx, "KadOpsTrace.tla", "KadOpsTrace.cfg", lines)
    log("selftest good trace (%d lines) -> %s" % (len(lines), "accepted" if not rej else "REJECTED %s" % rej[0].reason))
    ok &= not rej
    terms = [i for i, l in enumerate(lines) if '"e":"term"' in l]
    recvs = [i for i, l in enumerate(lines) if '"e":"recv"' in l and '"q":0' in l]
    cases = [("terminal event dropped", lines[:terms[0]] + lines[terms[0] + 1:], "silence", len(lines) - 1),
             ("terminal event duplicated", lines[:terms[0] + 1] + [lines[terms[0]]] + lines[terms[0] + 1:], "second terminal", terms[0] + 2),
             ("receipts of the put removed", [l for i, l in enumerate(lines) if i not in recvs[1:]], "success reported below", len(lines) - len(recvs[1:])),
             ("terminal event for a foreign query id", lines[:terms[0]] + [lines[terms[0]].replace('"q":', '"q":77')] + lines[terms[0] + 1:],
              "terminal event for a query", terms[0] + 1)]
    for what, bad, expect, at in cases:
        _, _, rej = validate_all(ctx, "KadOpsTrace.tla", "KadOpsTrace.cfg", bad, tag="m")
        got = [(x[1], x.reason) for x in rej]
        hit = any(rs.startswith(expect) and ln == at for ln, rs in got)
        log("selftest corrupt trace: %s -> %s" % (what, "rejected at line %d (%s)" % (at, expect) if hit else "NOT rejected as expected: %s" % got))
        ok &= hit
    # harness-level faults: the harness misreports one event class, the pipeline must produce an unlisted signature
    for f, expect in (("drop_term", "silence-"), ("dup_term", "second-terminal-event-"), ("drop_recv", "success-below-quorum-")):
        summ, lines, diags = run_harness(ctx, good, "f_" + f, 1, env={"VERIF_FAULT": f})
        _, _, _, viol = judge(ctx, good, lines, diags)
        sigs = sorted({v["sig"] for v in viol})
        hit = any(s.startswith(expect) for s in sigs) and not (set(sigs) & set(load_known("C16")))
        log("selftest harness fault %s -> %s" % (f, "reported as %s" % sigs if hit else "NOT reported: %s" % sigs))
        ok &= hit
    log("SELFTEST %s" % ("ok" if ok else "FAILED"))
    return 0 if ok else 2
