//! Minimal `tracing` subscriber (no extra crates): captures litep2p's own debug/error log lines that
//! mention how a connection task ended, so that a finding can name the call site.  Enabled only with
//! `--trace-log`; never used for a verdict.
use std::{
    fmt::Write as _,
    sync::{atomic::AtomicU64, Mutex},
};
use tracing::{
    field::{Field, Visit},
    span, Event, Metadata, Subscriber,
};

pub static LINES: Mutex<Vec<String>> = Mutex::new(Vec::new());
static NEXT: AtomicU64 = AtomicU64::new(1);

struct V(String);
impl Visit for V {
    fn record_debug(&mut self, f: &Field, v: &dyn std::fmt::Debug) {
        let _ = write!(self.0, " {}={:?}", f.name(), v);
    }
}

pub struct Capture;
impl Subscriber for Capture {
    fn enabled(&self, m: &Metadata<'_>) -> bool {
        m.target().starts_with("litep2p") && *m.level() <= tracing::Level::DEBUG
    }
    fn new_span(&self, _: &span::Attributes<'_>) -> span::Id {
        span::Id::from_u64(NEXT.fetch_add(1, std::sync::atomic::Ordering::Relaxed))
    }
    fn record(&self, _: &span::Id, _: &span::Record<'_>) {}
    fn record_follows_from(&self, _: &span::Id, _: &span::Id) {}
    fn event(&self, e: &Event<'_>) {
        let mut v = V(String::new());
        e.record(&mut v);
        let s = &v.0;
        if s.contains("exited with error") || s.contains("failed to register") || s.contains("failed to notify protocols")
            || s.contains("protocols have disconnected") || s.contains("force closing") || s.contains("connection closed")
        {
            LINES.lock().unwrap().push(format!("{} {}{}", e.metadata().level(), e.metadata().target(), s));
        }
    }
    fn enter(&self, _: &span::Id) {}
    fn exit(&self, _: &span::Id) {}
}

pub fn install() {
    let _ = tracing::subscriber::set_global_default(Capture);
}
