-------------------------------- MODULE Notif --------------------------------
(***************************************************************************)
(* C11 - property monitor: what the user of one notification protocol       *)
(* instance (one endpoint) may observe, per remote peer.  Only observable   *)
(* things are used: the commands the user issued on its NotificationHandle  *)
(* with their immediate results, the events it pulled from the handle (in   *)
(* the order it pulled them), and what the environment (the harness / the   *)
(* model's environment) knows about the connection.  It is the most liberal *)
(* reading of the property statement; everything the statement leaves open  *)
(* (racing opens, hidden inbound negotiations, user rejections, faults) is   *)
(* resolved in favour of the implementation.                                *)
(*                                                                         *)
(* The same operators drive the monitor inside the bounded model (NotifMC)  *)
(* and the trace validation of logs of real litep2p nodes (NotifTrace).     *)
(*                                                                         *)
(* Per peer p:                                                             *)
(*   open    a stream is open in the user's view (between Opened / Closed)  *)
(*   asked   a ValidateSubstream event is waiting for the user's answer     *)
(*   acc     the user answered Accept and no Opened/OpenFailure came since  *)
(*   ownopen the user issued open_substream (handed to the protocol) and no *)
(*           Opened/OpenFailure came since                                  *)
(*   nop / nacc / nans  open commands handed to the protocol / Accepts sent /*)
(*           answers (Opened, OpenFailure) seen so far                      *)
(*   want    an *obligated* open awaits its answer (see MonOpen)            *)
(*   conn    "up"/"down": what the environment knows about the connection   *)
(*   fault   the connection was disturbed since it was last reported up     *)
(*   mustClose  the connection was lost while the stream was open           *)
(*   cause   number of things that happened that may end a stream (each is   *)
(*           used up by one Closed):                                        *)
(*           a close command of either user, a fault of the connection, a   *)
(*           clogged or oversize send of either side, a panic of the remote *)
(*   ucl     Closed events seen for which no such cause is known (yet)      *)
(***************************************************************************)
EXTENDS Naturals, Sequences, FiniteSets, TLC

PeerInit == [open |-> FALSE, asked |-> FALSE, acc |-> FALSE, ownopen |-> FALSE, nop |-> 0, nacc |-> 0, nans |-> 0, cause |-> 0, ucl |-> 0, lost |-> FALSE, want |-> FALSE,
             conn |-> "down", fault |-> FALSE, mustClose |-> FALSE, nopen |-> 0, nclosed |-> 0]

MonInit(peers, auto) == [ps |-> [p \in peers |-> PeerInit], auto |-> auto, dead |-> FALSE, bad |-> "", badp |-> ""]

Fail(M, p, why) == IF M.bad = "" THEN [M EXCEPT !.bad = why, !.badp = p] ELSE M
Set(M, p, f, v) == [M EXCEPT !.ps[p][f] = v]

\* consent to an inbound stream: an explicit Accept, or (auto-accept configured) an own open
\* (answers cannot be matched to open commands and commands are handled with a lag: as long as more
\*  open commands were issued than answers were seen, one of them may still be in the command queue)
\* (every answer belongs to an open command or to an Accept, so both are counted)
Consent(M, p) == M.ps[p].acc \/ (M.auto /\ M.ps[p].nop + M.ps[p].nacc > M.ps[p].nans)

(* ---- commands -------------------------------------------------------- *)

\* open_substream(p); r = "ok" (handed to the protocol) | "already" (Err(PeerAlreadyExists))
\* An open is *obligated* (must be answered by Opened or OpenFailure before quiescence) when it is
\* issued while the connection is known to be up and undisturbed and nothing is in progress in the
\* user's view: no stream open, no own open unanswered, no validation asked or accepted-unresolved.
MonOpen(M, p, r) ==
  LET s == M.ps[p] IN
  IF r = "already" THEN (IF s.open THEN M ELSE Fail(M, p, "open refused as already open while no stream is open"))
  ELSE IF s.open THEN Fail(M, p, "open accepted by the handle while a stream is open")
  ELSE LET clean == s.conn = "up" /\ ~s.fault /\ ~s.ownopen /\ ~s.asked /\ ~s.acc IN
       [M EXCEPT !.ps[p].ownopen = TRUE, !.ps[p].nop = s.nop + 1, !.ps[p].want = s.want \/ clean]

\* close_substream(p): r = "sent" | "noop"
\* every cause accounts for one Closed (commands are handled with a lag: a close command may end a later stream)
Cause(M, p) == IF M.ps[p].ucl > 0 THEN [M EXCEPT !.ps[p].ucl = @ - 1] ELSE [M EXCEPT !.ps[p].cause = @ + 1]
MonClose(M, p, r) == IF r = "sent" THEN Cause(M, p) ELSE M

\* send_validation_result(p, v): r = "sent" (a validation was pending in the handle) | "noop"
MonVal(M, p, v, r) ==
  LET s == M.ps[p] IN
  IF r = "noop" THEN M
  ELSE IF ~s.asked THEN Fail(M, p, "validation result accepted without a pending validation")
  ELSE IF v = "accept" THEN [M EXCEPT !.ps[p].asked = FALSE, !.ps[p].acc = TRUE, !.ps[p].nacc = s.nacc + 1]
  \* rejecting the peer's half abandons the negotiation, own pending open included
  ELSE [M EXCEPT !.ps[p].asked = FALSE, !.ps[p].want = FALSE]

\* send_{sync,async}_notification(p): r = "ok" | "clogged" | "noconn" | "err" | "nostream"
\* ("nostream" = the handle has no sink for p; nothing was sent whatever the call returned)
\* The result of an asynchronous send is logged when the call completes (possibly after a Closed
\* was pulled), so only the synchronous mode is judged here.  A clogged synchronous channel makes the
\* handle force-close the connection: an open stream must then be reported closed.
\* over = the payload is larger than the configured maximum (accepted into the channel, it ends the stream)
MonSend(M, p, m, r, over) ==
  IF m = "s" /\ r = "ok" /\ ~M.ps[p].open THEN Fail(M, p, "notification sent outside an open stream")
  ELSE IF m = "s" /\ r = "clogged" THEN [M EXCEPT !.ps[p].mustClose = @ \/ M.ps[p].open, !.ps[p].fault = TRUE, !.ps[p].want = FALSE, !.ps[p].ucl = 0,
                                                   !.ps[p].lost = @ \/ M.ps[p].open \/ M.ps[p].acc \/ M.ps[p].ownopen]
  ELSE IF over THEN Cause(M, p)
  ELSE M

(* ---- events ------------------------------------------------------------ *)

MonEvent(M, p, k) ==
  LET s == M.ps[p] IN
  \* a new validation request supersedes consent given earlier: the handle keeps one answer slot per
  \* peer, so an Accept logged before this event was pulled belonged to an earlier substream
  \* (consent through auto-accept is not withdrawn: an open command logged earlier may be handled later)
  CASE k = "validate" -> [M EXCEPT !.ps[p].asked = TRUE, !.ps[p].acc = FALSE]
    [] k \in {"opened", "openfail"} /\ s.nans + 1 > s.nop + s.nacc ->
         \* "exactly one of": every answer belongs to an open command or to an Accept of the user
         Fail([M EXCEPT !.ps[p].nans = s.nans + 1, !.ps[p].open = (k = "opened") \/ s.open], p, "more answers than open requests and acceptances")
    [] k = "opened" ->
         IF s.open THEN Fail(M, p, "stream opened twice without a close in between")
         ELSE IF ~Consent(M, p) THEN Fail([M EXCEPT !.ps[p].open = TRUE], p, "inbound stream opened without the user's acceptance")
         \* (a stream reported while the connection is known to be disturbed is lost with it)
         ELSE [M EXCEPT !.ps[p].open = TRUE, !.ps[p].acc = FALSE, !.ps[p].ownopen = FALSE, !.ps[p].nans = s.nans + 1, !.ps[p].want = FALSE,
                        !.ps[p].lost = s.lost \/ s.fault,
                        !.ps[p].nopen = s.nopen + 1]
    [] k = "closed" ->
         IF ~s.open THEN Fail(M, p, "stream closed while not open")
         \* a stream ends only for a reason: judged at quiescence (the reason may be logged after the event)
         ELSE [M EXCEPT !.ps[p].open = FALSE, !.ps[p].mustClose = FALSE, !.ps[p].nclosed = s.nclosed + 1,
                        \* (a cause may be logged before the Opened of the stream it ends is read, so it is kept until
                        \*  a Closed consumes it; a disturbed connection explains every Closed until it is reported up again)
                        !.ps[p].ucl = IF s.fault \/ s.mustClose \/ s.lost \/ s.cause > 0 THEN s.ucl ELSE s.ucl + 1,
                        !.ps[p].cause = IF ~(s.fault \/ s.mustClose \/ s.lost) /\ s.cause > 0 THEN s.cause - 1 ELSE s.cause,
                        !.ps[p].lost = FALSE]
    [] k = "openfail" ->
         IF s.open THEN Fail(M, p, "open failure while the stream is open")
         \* with an own open outstanding the failure is taken as its answer (an open that arrives while an
         \* inbound substream is under validation is refused at once); the consent given by an Accept stays
         \* (several open commands may be outstanding: as long as fewer answers than open commands were seen the
         \*  failure may belong to one of them)
         \*  (earlier Accepts account for at most one answer each)
         ELSE [M EXCEPT !.ps[p].acc = IF s.ownopen \/ s.nans + 1 < s.nop + s.nacc THEN s.acc ELSE FALSE, !.ps[p].ownopen = FALSE,
                        !.ps[p].nans = s.nans + 1, !.ps[p].want = FALSE]
    [] k = "recv" ->
         IF ~s.open THEN Fail(M, p, "notification received outside an open stream") ELSE M
    [] OTHER -> M

(* ---- environment ------------------------------------------------------- *)

\* k = "up": the node reported the connection established; "down": reported closed;
\* "cut": the environment destroyed the link; "stall": the environment starved tasks of the node
\* for long (timeouts may fire): both disturb the obligations
Doomed(s) == s.open \/ s.acc \/ s.ownopen
MonEnv(M, p, k) ==
  LET s == M.ps[p] IN
  CASE k = "up" -> [M EXCEPT !.ps[p].conn = "up", !.ps[p].fault = FALSE]
    \* "down" is reported by the node's own event loop, unordered with respect to the handle's
    \* events (a later stream may already be open), so only a cut made by the environment itself
    \* obliges the stream that is open at that moment to be reported closed
    \* a disturbed connection explains the Closed events logged before it (the report may come late), the Closed of the
    \* stream open now, and every Closed until the connection is reported up again; it is not counted as a cause
    \* (the stream that is open, or that an open / Accept in progress may still bring, is lost with the connection
    \*  even if the protocol reports it opened - and then closed - only after the next connection is up)
    \* A connection that is merely reported closed does not cancel an open that is owed an answer: whatever state the
    \* request reached, on_connection_closed answers it with an OpenFailure (only faults injected by the environment
    \* - cut, stall - and a clogged channel void the obligation: they can hit the request before it is handled).
    [] k = "down" -> [M EXCEPT !.ps[p].conn = "down", !.ps[p].fault = TRUE, !.ps[p].ucl = 0, !.ps[p].lost = s.lost \/ Doomed(s)]
    [] k = "cut" -> [M EXCEPT !.ps[p].fault = TRUE, !.ps[p].want = FALSE, !.ps[p].mustClose = s.mustClose \/ s.open, !.ps[p].ucl = 0,
                              !.ps[p].lost = s.lost \/ Doomed(s)]
    [] k = "stall" -> [M EXCEPT !.ps[p].fault = TRUE, !.ps[p].want = FALSE, !.ps[p].ucl = 0, !.ps[p].lost = s.lost \/ Doomed(s)]
    \* the remote user closed the stream / the remote side did something that ends it (told by the environment)
    [] k \in {"rclose", "rfault"} -> Cause(M, p)
    [] OTHER -> M

\* a task of the node panicked: reported once; the protocol instance is gone, nothing more is judged
MonPanic(M) == IF M.dead THEN M ELSE [Fail(M, "", "panic") EXCEPT !.dead = TRUE]

\* Quiescence: the environment has nothing in flight and every timer of the implementation had
\* (three times) the time to fire.  stable = FALSE: timing assumptions were not met, nothing is judged.
MonQuiesce(M, stable) ==
  IF ~stable THEN M
  ELSE LET P == DOMAIN M.ps
           \* an open that raced with a validation the user never answered is not owed an answer
           unanswered == {p \in P : M.ps[p].want /\ ~M.ps[p].asked}
           stuck == {p \in P : M.ps[p].mustClose /\ M.ps[p].open}
           spurious == {p \in P : M.ps[p].ucl > 0}
       IN IF unanswered # {} THEN Fail(M, CHOOSE p \in unanswered : TRUE, "open request never answered")
          ELSE IF stuck # {} THEN Fail(M, CHOOSE p \in stuck : TRUE, "stream still open after the connection was lost")
          ELSE IF spurious # {} THEN Fail(M, CHOOSE p \in spurious : TRUE, "stream closed without a cause")
          ELSE M

\* validation keeps going after a reported rule: the peer's ledger is reset to the observed facts
Forgive(M) ==
  IF M.bad = "" THEN M
  ELSE IF M.badp = "" THEN [M EXCEPT !.bad = "", !.badp = ""]
  ELSE [M EXCEPT !.bad = "", !.badp = "", !.ps[M.badp].want = FALSE, !.ps[M.badp].mustClose = FALSE, !.ps[M.badp].ucl = 0,
                 !.ps[M.badp].acc = FALSE, !.ps[M.badp].ownopen = FALSE]
=============================================================================
