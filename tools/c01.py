"""C01 - Noise handshake authenticates the remote peer identity (NoiseHS.tla)."""
import json
import os
import random
import shutil
from vlib import *

ASSUME = [
    "cryptography is ideal in the model (DH, AEAD bound to chaining key + handshake hash, unforgeable signatures); the "
    "strength of snow / x25519 / ed25519 is assumed, not checked",
    "histories: up to three handshakes against the same process state (same identities; the honest peer H keeps its static "
    "DH key, as rust-libp2p / go-libp2p do, so its payload can be observed and replayed); the verdict of each handshake is "
    "judged on its own scenario only (history independence)",
    "one man-in-the-middle move per handshake (corrupt one byte of a field, truncate, extend, substitute from another "
    "session, replay, drop) or one rogue endpoint; multi-byte corruptions are covered only through truncate/extend/substitute",
    "the dialer finishes before the third message travels: an alteration of message 3 must fail the listener only",
    "deadlocks caused by the MITM move are resolved by closing the in-memory pipe, never by a timer; the 300 s handshake "
    "timer never fires (a run in which it did is repeated, not judged)",
    "dialed-peer expectations (right / other key, inline / SHA-256 multihash form, dialed address given as ip4 / ip6 / dns / dns4 / "
    "dns6 with `localhost` resolved through the hosts file; only TCP negotiation distinguishes address forms) are exercised through two real Litep2p "
    "nodes over loopback TCP and by calling the real negotiate_connection on both ends of a loopback socket (hook), the comparison being done by negotiate_connection (30 s to get an event, inconclusive runs "
    "are repeated, not judged); the websocket transport has the same comparison but is not compiled into the harness",
    "a dialed peer id in SHA-256 form never equals the id an Ed25519 key proves (inline form), also for the same key: must fail",
    "a small-order Ed25519 identity key has no private key and anybody can forge (R, S) pairs for it: a peer advertising "
    "one may be accepted under that key's id (never under another id); litep2p and the reference libp2p-noise are run "
    "on the same forged payloads and both outcomes are recorded (coverage.weak_keys)",
    "QUIC authenticates with TLS certificates, not Noise: outside C01",
]

CHUNKS = {"whole", "byte1", "fields", "random"}
PVS = {"asR", "noKey", "noSig", "sigByOther", "sigOverOtherStatic", "sigNoPrefix", "stolen", "unknownType", "garbageSig",
       "extraField", "noncanonKey", "weakKey"}   # replayH / replayHBadSig occur in the histories only
ADDR_FORMS = {"ip4", "ip6", "dns", "dns4", "dns6"}
CONSTS = {"Chunks": CHUNKS, "RoguePayloads": PVS, "AddrForms": ADDR_FORMS}
MC_LINES = ["SPECIFICATION Spec", "INVARIANTS Refines Auth NoHang Agreement", "CHECK_DEADLOCK FALSE"]
GEN_LINES = ["SPECIFICATION Spec", "ACTION_CONSTRAINT Emit", "CHECK_DEADLOCK FALSE"]
ONE = lambda ln: True


def classify(seg, idx):
    ev = json.loads(seg[idx - 1])
    sc = ev["sc"]
    if sc["peer"] == "rogue" and sc["pv"] == "noncanonKey" and ev["outcome"] == "ok" and ev["peer"] == "X":
        return "noncanonical-identity-key-foreign-peer-id"
    if sc["peer"] == "rogue" and sc["pv"] == "replayH" and ev["outcome"] == "ok":
        c = ev.get("conc", {})
        return "replayed-payload-accepted%s%s" % ("-after-honest-handshake" if c.get("step", 1) > 1 else "",
                                                  "-via-negotiate" if c.get("route") == "negotiate" else "")
    what = sc["pv"] if sc["peer"] == "rogue" else "%s-m%s-%s" % (sc["mitm"]["move"], sc["mitm"]["msg"], sc["mitm"]["field"])
    if sc["dialed"] != "none":
        what = "dialed-%s-%s-%s-via-%s" % ("same-key" if sc["dialed"] == "B" else "other-key", sc["dialedForm"], sc.get("addrForm", "ip4"), ev.get("conc", {}).get("via", "?"))
    return "%s-%s-%s-%s" % (ev["role"], ev["outcome"], ev["peer"] or "none", what)


def check(ctx):
    r = tlc_mc(ctx, "NoiseHSMC.tla", write_cfg(ctx, "mc.cfg", CONSTS, MC_LINES), workers=4)
    if not r["ok"]:
        raise ToolError("the symbolic Impl layer of NoiseHS violates the Prop layer (model error, not a code verdict):\n%s"
                        % r.get("error", r["out"][-2500:]))
    mc = {k: r[k] for k in ("transitions", "distinct", "depth", "wall_s") if k in r}
    log("MC: %s" % mc)
    behs, gstats = tlc_generate(ctx, "NoiseHSMC.tla", write_cfg(ctx, "gen.cfg", CONSTS, GEN_LINES))
    log("GEN: %s" % gstats)
    write_jsonl(ctx.path("behs.jsonl"), behs)
    build_s = cargo_build(ctx, ["noisehs"])
    args = ["--behaviours", ctx.path("behs.jsonl"), "--seed", ctx.seed, "--threads", 8, "--out", ctx.path("trace.ndjson"),
            "--tcp-reps", 4 if ctx.quick() else 40]
    if not ctx.quick():
        args.append("--thorough")
    summ, _ = harness(ctx, "noisehs", args)
    log("HARNESS: %s (build %ss)" % (summ, build_s))
    if summ.get("move_not_applied"):
        raise ToolError("%d runs in which the MITM move was never applied" % summ["move_not_applied"])
    lines = read_lines(ctx.path("trace.ndjson"))
    nseg, nev, rejects = validate_segments(ctx, "NoiseHSTrace.tla", "NoiseHSTrace.cfg", lines, mode="prop", max_rejects=8, is_reset=ONE)
    violations = []
    for seg, idx in rejects:
        ev = json.loads(seg[idx - 1])
        violations.append({"sig": classify(seg, idx),
                           "what": "real handshake outcome %s(%s) as %s not allowed by NoiseHS!Allowed for scenario %s (%s)"
                                   % (ev["outcome"], ev["peer"], ev["role"], json.dumps(ev["sc"]), json.dumps(ev["conc"])),
                           "replay_obj": {"property": "C01", "rejected_event_index": idx, "segment": [json.loads(x) for x in seg[:idx]]}})
    _, _, drift = validate_segments(ctx, "NoiseHSTrace.tla", "NoiseHSTrace.cfg", lines, mode="impl", max_rejects=5, tag="d", is_reset=ONE)
    for seg, idx in drift:
        log("NOTE drift: real handshake outcome differs from the symbolic Impl layer: %s" % seg[idx - 1][:400])
    outc = summ["outcomes"]
    known = load_known(ctx.pid)
    need = [] if any(v["sig"] not in known for v in violations) else ["ok_pass", "ok_asR", "err_stolen", "err_sigByOther", "err_sigOverOtherStatic", "err_sigNoPrefix", "err_noSig", "err_noKey",
            "err_garbageSig", "err_unknownType", "err_corrupt", "err_substitute", "err_drop", "err_replay", "err_extend",
            "err_truncadj", "err_truncraw"] + ["%s_%s_%s" % (o, via, c) for via in ("tcp", "negotiate", "ws", "wsnegotiate")
            for o, c in (("ok", "B_inline"), ("err", "C_inline"), ("err", "B_sha256"), ("err", "C_sha256"), ("ok", "listener"))] + [
            "%s_%s_%s_%s" % (o, via, c, af) for via in ("tcp", "negotiate") for af in sorted(ADDR_FORMS - {"ip4"})
            for o, c in (("ok", "B_inline"), ("err", "C_inline"), ("err", "B_sha256"), ("err", "C_sha256"))] + [
            "ok_hist_snowfixed_mem", "ok_hist_libp2pfixed_mem", "err_hist_replayH_mem", "err_hist_replayHBadSig_mem", "err_hist_Hbad_mem",
            "ok_hist_asR_mem", "ok_hist_snowfixed_negotiate", "err_hist_replayH_negotiate", "err_hist_replayHBadSig_negotiate"]
    for k in need:
        if not outc.get(k):
            raise ToolError("coverage hole: no real run with outcome class %s" % k)
    # small-order identity keys: what litep2p and the reference (libp2p-noise) do with the same forged payloads
    wk = summ.get("weak_keys", {})
    lit, ref = {}, {}
    for k in wk:
        for tag, d in (("_litep2p_", lit), ("_ref_", ref)):
            if tag in k:
                d.setdefault(k.split(tag)[0], set()).add(k.split(tag)[1])
    weak_like_ref = bool(lit) and all(lit.get(k) == ref.get(k) for k in set(lit) | set(ref))
    if not weak_like_ref:
        log("NOTE weak keys: litep2p and the reference differ: %s" % {k: (sorted(lit.get(k, [])), sorted(ref.get(k, []))) for k in set(lit) | set(ref) if lit.get(k) != ref.get(k)})
    distinct = len({json.dumps([json.loads(x)["sc"], json.loads(x)["conc"], json.loads(x)["role"]], sort_keys=True) for x in lines})
    cov = {
        "states": mc["distinct"], "transitions": mc["transitions"],
        "traces_validated_against_impl": len(lines),
        "events_validated": len(lines),
        "samples": [json.loads(x) for x in lines[:3] + lines[len(lines) // 2: len(lines) // 2 + 2]],
        "evaluations": len(lines),
        "distinct_nontrivial": distinct,
        "rule": "a case is one concrete handshake execution observed at one role of the real litep2p `handshake` (or a real "
                "Litep2p dial over TCP): scenario of the symbolic model + concretisation (byte offset / bit of the corruption, "
                "truncation length, forged-payload encoding, fragmentation); distinct = distinct (scenario, concretisation, role)",
        "scenarios_enumerated": len(behs),
        "model_run": mc, "generation": gstats, "harness": summ,
        "impl_divergences": len(drift),
        "weak_keys": wk,
        "weak_key_accepted_like_reference": weak_like_ref,
        "exhaustive": not ctx.quick(),
        "exhaustive_note": "symbolic scenario space complete; thorough tier enumerates every byte offset of every field for single-byte "
                           "corruptions (bit chosen at random); quick samples 8 offsets per field",
    }
    return conclude(ctx, "model_checking", cov, violations, ASSUME)


# each mutant weakens one check of the symbolic Impl layer; TLC must report Refines/Auth violated
MUTANTS = [
    ("signature not checked", "ELSE IF ~(p.sig.by = p.key.n /\\ p.sig.over = <<\"prefix\", ep.rs>>) THEN Fail(ep)", "ELSE IF FALSE THEN Fail(ep)"),
    ("signature not bound to the session static key", "p.sig.by = p.key.n /\\ p.sig.over = <<\"prefix\", ep.rs>>", "p.sig.by = p.key.n /\\ p.sig.over \\in {<<\"prefix\", ep.rs>>, <<\"prefix\", Key(\"sOther\")>>}"),
    ("signer not compared with the advertised key", "p.sig.by = p.key.n /\\ p.sig.over", "p.sig.over"),
    ("domain prefix not required", "p.sig.over = <<\"prefix\", ep.rs>>", "p.sig.over \\in {<<\"prefix\", ep.rs>>, <<ep.rs>>}"),
    ("dialed peer not compared", "IF side = \"d\" /\\ sc.dialed # \"none\" /\\ (sc.dialed # peer \\/ sc.dialedForm # \"inline\") THEN Fail(ep)", "IF FALSE THEN Fail(ep)"),
    ("dialed peer compared only when the multihash forms agree", "(sc.dialed # peer \\/ sc.dialedForm # \"inline\") THEN Fail(ep)", "(sc.dialedForm = \"inline\" /\\ sc.dialed # peer) THEN Fail(ep)"),
    ("peer id derived from the received key bytes", "ELSE LET peer == p.key.n IN", "ELSE LET peer == IF p.key.canon THEN p.key.n ELSE \"X\" IN"),
    ("process-wide memo of verified (peer id, signature) pairs",
     ["MemoAfter(memo, ep) == memo", "ELSE IF ~(p.sig.by = p.key.n /\\ p.sig.over = <<\"prefix\", ep.rs>>) THEN Fail(ep)"],
     ["MemoAfter(memo, ep) == IF ep.st = \"ok\" THEN memo \\cup {<<ep.peer, ep.pl.sig>>} ELSE memo",
      "ELSE IF ~(<<p.key.n, p.sig>> \\in memo) /\\ ~(p.sig.by = p.key.n /\\ p.sig.over = <<\"prefix\", ep.rs>>) THEN Fail(ep)"]),
    ("handshake hash not bound into the AEAD", "ct.t = \"enc\" /\\ ct.ck = ss.ck /\\ ct.h = ss.h", "ct.t = \"enc\" /\\ ct.ck = ss.ck"),
]


def selftest(ctx):
    ok = True
    src = open(os.path.join(SPEC, "NoiseHS.tla")).read()
    cfg = write_cfg(ctx, "mut.cfg", CONSTS, MC_LINES)
    for i, (name, old, new) in enumerate(MUTANTS):
        d = ctx.path("mut%d" % i)
        os.makedirs(d)
        text = src
        for o, n in ([(old, new)] if isinstance(old, str) else zip(old, new)):
            if o not in text:
                raise ToolError("mutant pattern not found: %s" % name)
            text = text.replace(o, n, 1)
        open(os.path.join(d, "NoiseHS.tla"), "w").write(text)
        shutil.copy(os.path.join(SPEC, "NoiseHSMC.tla"), d)
        rc, out = run(["tlc", "-workers", "2", "-metadir", ctx.metadir(), "-cleanup", "-noGenerateSpecTE", "-config", cfg,
                       os.path.join(d, "NoiseHSMC.tla")], timeout=300, cwd=d, env={"JAVA_TOOL_OPTIONS": "-Xss512m"})
        bad = "is violated" in out
        log("selftest model mutant '%s' -> %s" % (name, "invariant violated (good)" if bad else "NOT DETECTED"))
        ok &= bad
    # binding: corrupt good recorded outcomes
    behs, _ = tlc_generate(ctx, "NoiseHSMC.tla", write_cfg(ctx, "gen.cfg", CONSTS, GEN_LINES))
    write_jsonl(ctx.path("behs.jsonl"), behs)
    cargo_build(ctx, ["noisehs"])
    harness(ctx, "noisehs", ["--behaviours", ctx.path("behs.jsonl"), "--seed", ctx.seed, "--out", ctx.path("t.ndjson"), "--tcp-reps", 1])
    lines = read_lines(ctx.path("t.ndjson"))
    rnd = random.Random(ctx.seed)

    def corrupt(pred, mut, what):
        idxs = [i for i, ln in enumerate(lines) if pred(json.loads(ln))]
        if not idxs:
            raise ToolError("selftest: nothing to corrupt for %s" % what)
        i = rnd.choice(idxs)
        ev = json.loads(lines[i])
        mut(ev)
        p = ctx.path("mut.ndjson")
        open(p, "w").write("\n".join(lines[:i] + [json.dumps(ev, separators=(",", ":"))] + lines[i + 1:]) + "\n")
        r = tlc_trace(ctx, "NoiseHSTrace.tla", "NoiseHSTrace.cfg", p)
        log("selftest corrupt %s at line %d -> %s" % (what, i + 1, "rejected at %s" % r if r else "ACCEPTED"))
        return r == i + 1

    ok &= corrupt(lambda e: e["outcome"] == "err" and e["sc"]["peer"] == "rogue", lambda e: e.update(outcome="ok", peer="R"), "forged payload accepted")
    ok &= corrupt(lambda e: e["sc"]["pv"] == "replayH" and e["conc"].get("step", 1) > 1, lambda e: e.update(outcome="ok", peer="B" if e["role"] == "dialer" else "A"), "replayed payload accepted after an honest handshake")
    ok &= corrupt(lambda e: e["outcome"] == "err" and e["sc"]["mitm"]["msg"] in (1, 2), lambda e: e.update(outcome="ok", peer="B" if e["role"] == "dialer" else "A"), "tampered handshake accepted")
    ok &= corrupt(lambda e: e["outcome"] == "ok" and e["peer"] == "B", lambda e: e.update(peer="R"), "wrong peer id reported")
    ok &= corrupt(lambda e: e["outcome"] == "ok" and e["sc"]["mitm"]["msg"] == 0 and e["sc"]["peer"] == "honest", lambda e: e.update(outcome="err", peer=""), "honest handshake failed")
    ok &= corrupt(lambda e: e["sc"]["dialed"] == "C" and e["sc"]["dialedForm"] == "inline", lambda e: e.update(outcome="ok", peer="B"), "dialed-peer mismatch accepted")
    ok &= corrupt(lambda e: e["sc"]["dialedForm"] == "sha256" and e["role"] == "dialer", lambda e: e.update(outcome="ok", peer="B"), "SHA-256-form dialed id accepted")
    for fault in ("accept_all", "wrong_peer", "reject_all"):
        harness(ctx, "noisehs", ["--behaviours", ctx.path("behs.jsonl"), "--seed", ctx.seed, "--out", ctx.path("f.ndjson"), "--tcp-reps", 0],
                env={"VERIF_FAULT": fault})
        fl = read_lines(ctx.path("f.ndjson"))
        _, _, rej = validate_segments(ctx, "NoiseHSTrace.tla", "NoiseHSTrace.cfg", fl, max_rejects=1, tag="f", is_reset=ONE)
        log("selftest harness fault %s -> %s" % (fault, "rejected (%s)" % classify(*rej[0]) if rej else "ACCEPTED"))
        ok &= bool(rej)
    log("SELFTEST %s" % ("ok" if ok else "FAILED"))
    return 0 if ok else 2


def replay(ctx, path):
    obj = json.load(open(path))
    seg = [json.dumps(x, separators=(",", ":")) for x in obj["segment"]]
    nseg, nev, rej = validate_segments(ctx, "NoiseHSTrace.tla", "NoiseHSTrace.cfg", seg, is_reset=ONE)
    log("replay: %s" % ("rejected at %d" % rej[0][1] if rej else "accepted"))
    return 1 if rej else 0
