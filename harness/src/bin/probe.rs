use litep2p::verif::kad::*;
fn main() {
    let p = litep2p::PeerId::random();
    let k = peer_key(p);
    println!("{:?}", key_bytes(&k));
}
