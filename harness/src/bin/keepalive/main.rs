//! C09 - idle connections close after the keep-alive timeout, busy ones are kept.
//!
//! Many small real two-node networks run concurrently.  Node A has the keep-alive timeout T under
//! test (150 ms .. 1 s), node B a long one, so only A's idle mechanism can end a connection (no
//! fault is injected; the proxy only observes which side ended each TCP stream).  An activity
//! schedule (from TLC behaviours of KeepAliveMC, scaled to T, or hand-written) is executed in real
//! time: open a substream of a keep-alive user protocol from A or from B, hold it, drop it, open one
//! that fails to negotiate; ping / identify run in the background in some networks.  Stamps:
//! activity is stamped BEFORE the call (floor), ends of activity and the close AFTER they were
//! observed (ceil), so `NotBefore` can only err on the lenient side; `Eventually` has slack
//! max(1 s, T).  TLC validates the timed log against the monitor of KeepAlive.tla.
#[path = "../netcommon/mod.rs"]
mod netcommon;

use netcommon::{
    exec::Perturb,
    is,
    node::{Node, NodeCfg, OpenMode},
    proxy::Proxy,
    LoadProbe, Log,
};
use serde_json::{json, Value};
use std::{collections::HashMap, sync::Arc, time::Duration};
use vharness::*;

fn before(log: &Log) -> u64 {
    log.now_ms().floor() as u64
}
fn after(log: &Log) -> u64 {
    log.now_ms().ceil() as u64
}

struct Net {
    log: Log,
    a: Node,
    b: Node,
    ab: Option<Proxy>,
    ba: Option<Proxy>,
}

impl Net {
    /// stream name of the connection A's protocols treat as primary ("ab0" / "ba0")
    fn primary(&self) -> Option<String> {
        if self.ab.is_none() {
            return Some("q0".to_string());
        }
        self.log.with(|l| l.iter().find(|v| is(v, "p_est") && v["n"] == "A" && v["q"] == "q1").map(|v| if v["dir"] == "out" { "ab0".to_string() } else { "ba0".to_string() }))
    }

    async fn open(&self, s: &str, from_a: bool, q: &str, hold: bool, ids: &mut HashMap<u64, (bool, usize)>, id: u64) {
        let (node, peer) = if from_a { (&self.a, self.b.peer) } else { (&self.b, self.a.peer) };
        let tb = before(&self.log);
        let Some((called, resp)) = node.open2(q, peer, if hold { OpenMode::Hold } else { OpenMode::Echo }).await else { return };
        match called.await {
            Ok(Ok(_)) => {
                self.log.push(json!({"e": "open_begin", "s": s, "t": tb, "rem": !from_a, "id": id}));
            }
            other => {
                // the call itself was refused (e.g. the connection is already gone): not an activity
                self.log.push(json!({"e": "open_refused", "s": s, "id": id, "why": format!("{other:?}")}));
                return;
            }
        }
        match tokio::time::timeout(Duration::from_secs(12), resp).await {
            Ok(Ok(Ok(sid))) => {
                self.log.push(json!({"e": "open_ok", "s": s, "t": after(&self.log), "tb": tb, "rem": !from_a, "id": id}));
                ids.insert(id, (from_a, sid as usize));
            }
            other => {
                self.log.push(json!({"e": "open_fail", "s": s, "t": after(&self.log), "rem": !from_a, "id": id, "why": format!("{other:?}").chars().take(120).collect::<String>()}));
            }
        }
    }

    /// B sends a request over the request-response protocol (inbound substream at A, negotiated under
    /// A's main or fallback name depending on which name B speaks); A receives it and holds it
    async fn rr_open(&self, s: &str, rids: &mut HashMap<u64, litep2p::types::RequestId>, id: u64) {
        use futures::StreamExt;
        use litep2p::protocol::request_response::{DialOptions, RequestResponseEvent};
        let (Some(ha), Some(hb)) = (&self.a.rr, &self.b.rr) else { return };
        let tb = before(&self.log);
        if let Err(e) = hb.lock().await.send_request(self.a.peer, vec![id as u8], DialOptions::Reject).await {
            self.log.push(json!({"e": "open_refused", "s": s, "id": id, "why": format!("{e:?}")}));
            return;
        }
        self.log.push(json!({"e": "open_begin", "s": s, "t": tb, "rem": true, "id": id, "rr": true}));
        let got = tokio::time::timeout(Duration::from_secs(5), async {
            let mut h = ha.lock().await;
            loop {
                match h.next().await {
                    Some(RequestResponseEvent::RequestReceived { request_id, fallback, .. }) => return Some((request_id, fallback.is_some())),
                    Some(_) => continue,
                    None => return None,
                }
            }
        })
        .await;
        match got {
            Ok(Some((rid, fb))) => {
                self.log.push(json!({"e": "open_ok", "s": s, "t": after(&self.log), "tb": tb, "rem": true, "id": id, "rr": true, "negotiated_fallback": fb}));
                rids.insert(id, rid);
            }
            _ => {
                self.log.push(json!({"e": "open_fail", "s": s, "t": after(&self.log), "rem": true, "id": id, "why": "request not received"}));
            }
        }
    }

    /// A answers the request it holds (the inbound substream ends with the response); B's outcome is recorded
    async fn rr_drop(&self, s: &str, rids: &mut HashMap<u64, litep2p::types::RequestId>, id: u64) {
        use futures::StreamExt;
        use litep2p::protocol::request_response::RequestResponseEvent;
        let (Some(ha), Some(hb)) = (&self.a.rr, &self.b.rr) else { return };
        let Some(rid) = rids.remove(&id) else { return };
        self.log.push(json!({"e": "drop_begin", "s": s, "t": before(&self.log), "id": id}));
        ha.lock().await.send_response(rid, vec![1, 2, 3]);
        let outcome = tokio::time::timeout(Duration::from_secs(3), async {
            let mut h = hb.lock().await;
            loop {
                match h.next().await {
                    Some(RequestResponseEvent::ResponseReceived { .. }) => return "response".to_string(),
                    Some(RequestResponseEvent::RequestFailed { error, .. }) => return format!("failed: {error:?}"),
                    Some(_) => continue,
                    None => return "handle closed".to_string(),
                }
            }
        })
        .await
        .unwrap_or_else(|_| "no outcome".to_string());
        self.log.push(json!({"e": "drop_done", "s": s, "t": after(&self.log), "id": id}));
        self.log.push(json!({"e": "rr_outcome", "id": id, "outcome": outcome}));
    }

    /// the side that opened substream `id` shuts its write half down by reference; the substream objects on
    /// both sides stay (at A: write-half-closed if A opened it, read-only after the remote's FIN if B did)
    async fn half_close(&self, s: &str, ids: &HashMap<u64, (bool, usize)>, id: u64, sink: bool) {
        let Some((from_a, sid)) = ids.get(&id).copied() else { return };
        let node = if from_a { &self.a } else { &self.b };
        let r = node.half_close("q1", sid, sink).await;
        self.log.push(json!({"e": "half_close", "s": s, "id": id, "by": if from_a { "A" } else { "B" }, "how": if sink { "sink_close" } else { "shutdown" },
            "ret": r.err().unwrap_or("ok".into()), "t": after(&self.log)}));
    }

    async fn drop_sub(&self, s: &str, ids: &mut HashMap<u64, (bool, usize)>, id: u64) {
        let Some((from_a, sid)) = ids.remove(&id) else { return };
        let ends_before = self.log.count_from(0, |v| is(v, "sub_in_end") && v["n"] == "A");
        self.log.push(json!({"e": "drop_begin", "s": s, "t": before(&self.log), "id": id}));
        if from_a {
            self.a.drop_one("q1", sid).await;
        } else {
            // B drops its end; A's inbound substream object goes away when A's echo job sees the end
            self.b.drop_one("q1", sid).await;
            self.a.cmd("q1", netcommon::node::ProtoCmd::ReleaseInbound { sid: Some(sid) }).await;
            self.log.wait(Duration::from_secs(3), |l| l.iter().filter(|v| is(v, "sub_in_end") && v["n"] == "A").count() > ends_before).await;
        }
        self.log.push(json!({"e": "drop_done", "s": s, "t": after(&self.log), "id": id}));
    }
}

async fn run_net(sc: &Value) -> (Vec<Value>, f64, Option<String>) {
    let seed = sc["seed"].as_u64().unwrap_or(1);
    let t_ms = sc["T"].as_u64().unwrap_or(400);
    let slack = t_ms.max(1000);
    let tick = sc["tick_ms"].as_f64().unwrap_or(t_ms as f64 / 2.0);
    let double = sc["role"] == "double";
    let log = Log::new();
    let probe = LoadProbe::start();
    let mut ca = NodeCfg::new("A", seed ^ 0xA);
    ca.keep_alive = Duration::from_millis(t_ms);
    ca.protos = vec!["q1".into(), "qa".into()];
    ca.perturb = Perturb::level(sc["perturb"].as_u64().unwrap_or(0));
    let mut cb = NodeCfg::new("B", seed ^ 0xB);
    cb.keep_alive = Duration::from_secs(120);
    cb.protos = vec!["q1".into(), "qb".into()];
    if let Some(p) = sc["ping_ms"].as_u64() {
        ca.ping = Some(Duration::from_millis(p));
        cb.ping = Some(Duration::from_millis(p));
    }
    // request-response networks: A speaks /verif/x/2 with fallback /verif/x/1; B speaks only the old name
    // (the inbound substream at A is negotiated under the fallback name) or the new one
    let rr_kind = sc["kind"] == "rr";
    // half-closed holds: A keeps inbound substreams after the remote's end of stream
    ca.keep_eof = sc["kind"] == "half";
    if rr_kind {
        ca.rr = Some(("/verif/x/2".into(), vec!["/verif/x/1".into()]));
        cb.rr = Some((if sc["fallback"].as_bool().unwrap_or(true) { "/verif/x/1" } else { "/verif/x/2" }.to_string(), vec![]));
    }
    let mut rids: HashMap<u64, litep2p::types::RequestId> = HashMap::new();
    if sc["identify"].as_bool().unwrap_or(false) {
        ca.identify = true;
        cb.identify = true;
    }
    // tcp / ws run through the byte proxy that observes which side ended the stream; quic runs without
    // proxy: the close is observed at the remote node B (its ConnectionClosed event) - only A's idle
    // mechanism can end the connection (B's keep-alive is 120 s, quinn's idle timeout 60 s, no faults)
    let transport = sc["transport"].as_str().unwrap_or("tcp").to_string();
    let quic = transport == "quic";
    ca.quic_idle = Duration::from_secs(60);
    cb.quic_idle = Duration::from_secs(60);
    ca.transport = transport.clone();
    cb.transport = transport.clone();
    let a = Node::start(&ca, log.clone());
    let b = Node::start(&cb, log.clone());
    let (ab, ba) = if quic {
        (None, None)
    } else {
        (Some(Proxy::start("ab", b.listen, log.clone()).await), Some(Proxy::start("ba", a.listen, log.clone()).await))
    };
    let net = Net { log: log.clone(), a, b, ab, ba };
    let mut ids: HashMap<u64, (bool, usize)> = HashMap::new();
    let mut why = None;
    let mut lines: Option<Vec<Value>> = None;
    'run: {
        // ---- establish
        let t0 = before(&log);
        let (addr_ab, addr_ba) = (Node::addr_via(&transport, net.ab.as_ref().map(|p| p.listen).unwrap_or(net.b.listen), net.b.peer), Node::addr_via(&transport, net.ba.as_ref().map(|p| p.listen).unwrap_or(net.a.listen), net.a.peer));
        if double {
            let (r1, r2) = tokio::join!(net.a.dial_address(addr_ab), net.b.dial_address(addr_ba));
            if r1.is_err() || r2.is_err() {
                why = Some(format!("dial refused {r1:?} {r2:?}"));
                break 'run;
            }
        } else if sc["from"] == "B" {
            if let Err(e) = net.b.dial_address(addr_ba).await {
                why = Some(format!("dial refused {e}"));
                break 'run;
            }
        } else if let Err(e) = net.a.dial_address(addr_ab).await {
            why = Some(format!("dial refused {e}"));
            break 'run;
        }
        let want = if double { 2 } else { 1 };
        let got = log
            .wait(Duration::from_millis(if double { 1500.min(t_ms * 2 / 3).max(80) } else { 10_000 }), |l| {
                l.iter().filter(|v| is(v, "app_est") && v["n"] == "A").count() >= want && l.iter().any(|v| is(v, "p_est") && v["n"] == "A" && v["q"] == "q1")
            })
            .await;
        let ests: Vec<Value> = log.with(|l| l.iter().filter(|v| is(v, "app_est") && v["n"] == "A").cloned().collect());
        if ests.is_empty() || (!double && !got) {
            why = Some("no connection established".into());
            break 'run;
        }
        if double && ests.len() < 2 {
            why = Some("simultaneous dial produced one connection".into());
            break 'run;
        }
        for e in &ests {
            let s = if quic { "q0" } else if e["dir"] == "out" { "ab0" } else { "ba0" };
            log.push(json!({"e": "est", "s": s, "t0": t0, "t1": e["t"], "role": "?"}));
        }
        let Some(prim) = net.primary() else {
            why = Some("no primary".into());
            break 'run;
        };
        log.push(json!({"e": "primary", "s": prim}));
        let origin = ests.iter().map(|e| e["t"].as_u64().unwrap()).max().unwrap() as f64;
        // ---- schedule (ticks relative to establishment)
        let mut sched: Vec<Value> = sc["sched"].as_array().cloned().unwrap_or_default();
        sched.sort_by(|x, y| x["at"].as_f64().unwrap().partial_cmp(&y["at"].as_f64().unwrap()).unwrap());
        let net = Arc::new(net);
        for act in &sched {
            let due = origin + act["at"].as_f64().unwrap() * tick + act["off_ms"].as_f64().unwrap_or(0.0);
            let nowm = log.now_ms();
            if due > nowm {
                tokio::time::sleep(Duration::from_micros(((due - nowm) * 1000.0) as u64)).await;
            }
            let id = act["id"].as_u64().unwrap_or(0);
            match act["a"].as_str().unwrap_or("") {
                "ropen" if rr_kind => net.rr_open(&prim, &mut rids, id).await,
                "drop" if rr_kind => net.rr_drop(&prim, &mut rids, id).await,
                "open" => net.open(&prim, true, "q1", true, &mut ids, id).await,
                "ropen" if !double => net.open(&prim, false, "q1", true, &mut ids, id).await,
                // a substream that fails to negotiate: the remote does not speak the protocol
                "open_unsupported" => net.open(&prim, true, "qa", true, &mut ids, id).await,
                "ropen_unsupported" if !double => net.open(&prim, false, "qb", true, &mut ids, id).await,
                "half" if sc["kind"] == "half" => net.half_close(&prim, &ids, id, act["how"] != "shutdown").await,
                "drop" => net.drop_sub(&prim, &mut ids, id).await,
                _ => {}
            }
        }
        // ---- wait for the end: every stream gone, or the Eventually deadline has clearly passed
        let hold_forever = !ids.is_empty() || !rids.is_empty();
        let wait_ms = if hold_forever { sc["hold_watch_ms"].as_u64().unwrap_or(3 * t_ms) } else { t_ms + slack + 400 };
        let t_end = log.now_ms() + wait_ms as f64;
        let gone = |net: &Net| match (&net.ab, &net.ba) {
            (Some(x), Some(y)) => x.all_dead() && y.all_dead(),
            _ => net.log.with(|l| l.iter().any(|v| is(v, "app_closed") && v["n"] == "B")),
        };
        while log.now_ms() < t_end && !gone(&net) {
            tokio::time::sleep(Duration::from_millis(5)).await;
        }
        tokio::time::sleep(Duration::from_millis(30)).await;
        for s in ["ab0", "ba0", "q0"] {
            log.push(json!({"e": "check", "s": s, "t": before(&log)}));
        }
        // what happens during tear-down is not part of the execution
        lines = Some(log.snapshot());
        drop(net);
    }
    let over = probe.max_ms();
    (lines.unwrap_or_else(|| log.snapshot()), over, why)
}

fn main() {
    let args = Args::parse();
    netcommon::install_panic_recorder();
    let scs = read_jsonl(&args.str("scenarios", "scenarios.jsonl"));
    let out = args.str("out", "trace.ndjson");
    let par = args.u64("par", 48) as usize;
    let max_over = args.u64("max-overshoot-ms", 300) as f64;
    let strict = args.u64("strict", 0) == 1;
    let fault = std::env::var("VERIF_FAULT").unwrap_or_default();
    let rt = tokio::runtime::Builder::new_multi_thread().worker_threads(args.u64("threads", 8) as usize).enable_all().build().unwrap();
    let results = rt.block_on(async move {
        let sem = Arc::new(tokio::sync::Semaphore::new(par));
        let mut hs = Vec::new();
        for sc in scs {
            let sem = sem.clone();
            hs.push(tokio::spawn(async move {
                let _p = sem.acquire_owned().await.unwrap();
                let mut discarded = 0;
                loop {
                    let (lines, over, why) = run_net(&sc).await;
                    if over > max_over && discarded < 2 {
                        discarded += 1;
                        continue;
                    }
                    return (sc, lines, over, why, discarded, over > max_over);
                }
            }));
        }
        let mut res = Vec::new();
        for h in hs {
            res.push(h.await.expect("network task"));
        }
        res
    });
    rt.shutdown_background();
    let mut lines: Vec<String> = Vec::new();
    let (mut judged, mut inconclusive, mut overloaded, mut reruns, mut events) = (0, 0, 0, 0, 0);
    let mut reasons: std::collections::BTreeMap<String, usize> = Default::default();
    let mut closes: std::collections::BTreeMap<String, usize> = Default::default();
    for (sc, ls, over, why, discarded, over_bad) in results {
        reruns += discarded;
        if over_bad {
            overloaded += 1;
            continue;
        }
        if let Some(w) = why {
            inconclusive += 1;
            *reasons.entry(w).or_default() += 1;
            continue;
        }
        judged += 1;
        let t_ms = sc["T"].as_u64().unwrap_or(400);
        lines.push(json!({"e": "reset", "sc": sc["name"], "transport": sc["transport"].as_str().unwrap_or("tcp"), "seed": sc["seed"], "T": t_ms, "slack": t_ms.max(1000), "strict": strict, "overshoot_ms": over.ceil() as u64}).to_string());
        for v in ls {
            events += 1;
            let mut v = v;
            if sc["transport"] == "quic" && is(&v, "app_closed") && v["n"] == "B" {
                // the remote learnt that the QUIC connection ended (stamped after, like the proxy's notice)
                let mut t = v["t"].as_u64().unwrap();
                if fault == "early_close" {
                    t = t.saturating_sub(2 * t_ms);
                }
                *closes.entry("self".to_string()).or_default() += 1;
                lines.push(json!({"e": "closed", "s": "q0", "t": t, "by": "self"}).to_string());
            }
            if is(&v, "px_dead") {
                // who ended the TCP stream: A is the dialer on `ab` (side a) and the listener on `ba` (side b)
                let s = format!("{}{}", v["px"].as_str().unwrap(), v["s"]);
                let self_side = if v["px"] == "ab" { "a" } else { "b" };
                let by = if v["why"] == self_side { "self" } else { "other" };
                *closes.entry(by.to_string()).or_default() += 1;
                let mut t = v["t"].as_u64().unwrap();
                // harness self-test fault (never set in a real check): report the close too early
                if fault == "early_close" {
                    t = t.saturating_sub(2 * t_ms);
                }
                lines.push(json!({"e": "closed", "s": s, "t": t, "by": by}).to_string());
                v["e"] = json!("px_dead_raw");
            }
            lines.push(v.to_string());
        }
    }
    write_lines(&out, &lines);
    let panics = netcommon::PANICS.lock().unwrap().clone();
    println!(
        "SUMMARY {}",
        json!({"networks_judged": judged, "inconclusive": inconclusive, "inconclusive_reasons": reasons, "discarded_overloaded": overloaded,
               "reruns_for_load": reruns, "events": events, "closes_by": closes, "panics": panics.len(), "panic_samples": panics.iter().take(3).collect::<Vec<_>>()})
    );
}
