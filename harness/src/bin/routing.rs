//! C14: drive the real `RoutingTable` with operation histories (TLC-generated behaviours of the
//! bounded model, concretised on the top bits of the real key space, or seeded random histories
//! with crafted local keys) and record every call with its result and the buckets it changed.
//!
//! Everything that depends on the XOR metric in the log (expected bucket index `xb`, set bits of
//! local^target `dbits`, distance order `ord`) is computed here with `vharness::{sha256,xor32,
//! ilog2_be}`, never with the code under test.
use litep2p::{transport::Endpoint, types::ConnectionId, verif::kad::*, PeerId};
use rand::{rngs::StdRng, Rng, SeedableRng};
use serde_json::{json, Value};
use std::collections::{BTreeMap, HashMap};
use std::sync::{Arc, Mutex};
use vharness::*;

const NOBUCKET: i64 = 999;
const PH_BASE: i64 = 1000;

type H = [u8; 32];

#[derive(Clone)]
struct Peer {
    id: PeerId,
    h: H,
}

fn mk_peer(rng: &mut StdRng) -> Peer {
    let mut b = [0u8; 34];
    b[1] = 32;
    rng.fill(&mut b[2..]);
    let id = PeerId::from_bytes(&b).expect("identity peer id");
    let h = sha256(&id.to_bytes());
    Peer { id, h }
}

/// Pool of peers sorted by hash: neighbours share long hash prefixes.
struct Pool {
    v: Vec<Peer>,
}

impl Pool {
    fn new(n: usize, seed: u64) -> Self {
        let mut rng = StdRng::seed_from_u64(seed ^ 0x706f6f6c);
        let mut v: Vec<Peer> = (0..n).map(|_| mk_peer(&mut rng)).collect();
        v.sort_by(|a, b| a.h.cmp(&b.h));
        Pool { v }
    }
    /// index range of peers whose top `bits` bits equal `x`
    fn slice(&self, bits: u32, x: u64) -> (usize, usize) {
        let top = |h: &H| (u64::from_be_bytes(h[..8].try_into().unwrap())) >> (64 - bits);
        let lo = self.v.partition_point(|p| top(&p.h) < x);
        let hi = self.v.partition_point(|p| top(&p.h) <= x);
        (lo, hi)
    }
    fn pos(&self, h: &H) -> usize {
        self.v.partition_point(|p| &p.h < h)
    }
}

struct Uni {
    local: H,
    local_idx: Option<usize>, // index into peers of the peer whose hash is the local key
    peers: Vec<Peer>,         // id = index + 1
    by_id: HashMap<PeerId, usize>,
}

impl Uni {
    fn new(local: H, local_peer: Option<Peer>, mut others: Vec<Peer>) -> Self {
        let mut peers = vec![];
        let mut local_idx = None;
        if let Some(p) = local_peer {
            local_idx = Some(0);
            peers.push(p);
        }
        peers.append(&mut others);
        let mut by_id = HashMap::new();
        let mut uniq = vec![];
        for p in peers {
            if !by_id.contains_key(&p.id) {
                by_id.insert(p.id, uniq.len());
                uniq.push(p);
            }
        }
        Uni { local, local_idx, peers: uniq, by_id }
    }
    fn xb(&self, h: &H) -> i64 {
        ilog2_be(&xor32(h, &self.local)).map(|x| x as i64).unwrap_or(NOBUCKET)
    }
}

#[derive(Clone, PartialEq, Debug)]
struct Entry {
    id: i64,
    conn: &'static str,
    ha: i64,
    xb: i64,
    u: i64,
    h: H,
}

impl Entry {
    fn json(&self) -> Value {
        json!([self.id, self.conn, self.ha, self.xb, self.u])
    }
}

fn conn_name(c: ConnectionType) -> &'static str {
    match c {
        ConnectionType::NotConnected => "N",
        ConnectionType::Connected => "C",
        ConnectionType::CanConnect => "Y",
        ConnectionType::CannotConnect => "X",
    }
}

fn conn_of(s: &str) -> ConnectionType {
    match s {
        "N" => ConnectionType::NotConnected,
        "C" => ConnectionType::Connected,
        "Y" => ConnectionType::CanConnect,
        _ => ConnectionType::CannotConnect,
    }
}

type Dump = BTreeMap<usize, Vec<Entry>>;

struct Run<'a> {
    u: &'a Uni,
    table: RoutingTable,
    ph: HashMap<PeerId, i64>,
    prev: Dump,
    lines: Vec<String>,
    stats: Stats,
    fault: Option<String>,
}

#[derive(Default, Clone)]
struct Stats {
    events: u64,
    closest: u64,
    noslot: u64,
    evicted: u64,
    placeholders: u64,
    dup_results: u64,
    max_bucket: u64,
    buckets: std::collections::BTreeSet<usize>,
    tbits: std::collections::BTreeSet<usize>,
    panics: u64,
}

fn addrs(peer_ix: usize, n: usize, off: usize) -> Vec<multiaddr::Multiaddr> {
    (0..n)
        .map(|i| format!("/ip4/10.{}.{}.{}/tcp/{}", (peer_ix / 250) % 250, peer_ix % 250 + 1, (i + off) % 200 + 1, 3000 + i + off).parse().unwrap())
        .collect()
}

impl<'a> Run<'a> {
    fn new(u: &'a Uni, fault: Option<String>) -> Self {
        let key = match u.local_idx {
            Some(i) => Key::from(u.peers[i].id),
            None => Key::verif_from_raw(u.local, PeerId::random()),
        };
        assert_eq!(key.verif_raw(), u.local);
        Run { u, table: RoutingTable::new(key), ph: HashMap::new(), prev: Dump::new(), lines: vec![], stats: Stats::default(), fault }
    }

    fn dump(&mut self) -> Dump {
        let mut d = Dump::new();
        for (i, nodes) in self.table.verif_buckets() {
            let mut v = vec![];
            for n in &nodes {
                let (pid, _key, conn, na) = peer_info(n);
                let h = sha256(&pid.to_bytes());
                let (id, u) = match self.u.by_id.get(&pid) {
                    Some(ix) => (*ix as i64 + 1, 1),
                    None => {
                        let next = PH_BASE + self.ph.len() as i64;
                        (*self.ph.entry(pid).or_insert(next), 0)
                    }
                };
                v.push(Entry { id, conn: conn_name(conn), ha: (na > 0) as i64, xb: self.u.xb(&h), u, h });
            }
            self.stats.max_bucket = self.stats.max_bucket.max(v.len() as u64);
            self.stats.buckets.insert(i);
            d.insert(i, v);
        }
        d
    }

    fn changes(&self, now: &Dump) -> Value {
        let mut ch = vec![];
        let keys: std::collections::BTreeSet<usize> = self.prev.keys().chain(now.keys()).cloned().collect();
        for i in keys {
            let a = self.prev.get(&i);
            let b = now.get(&i);
            if a != b {
                let list: Vec<Value> = b.map(|v| v.iter().map(|e| e.json()).collect()).unwrap_or_default();
                ch.push(json!({"i": i, "b": list}));
            }
        }
        Value::Array(ch)
    }

    fn reset_line(&mut self, k: usize, src: &str, run: usize, info: Value) {
        let now = self.dump();
        let init = self.changes(&now);
        self.prev = now;
        self.lines.push(json!({"e": "reset", "K": k, "NB": 256, "src": src, "run": run, "info": info, "init": init}).to_string());
    }

    fn finish_op(&mut self, o: Value, ret: Result<Value, String>) {
        self.stats.events += 1;
        match ret {
            Err(msg) => {
                self.stats.panics += 1;
                self.lines.push(json!({"e": "panic", "o": o, "msg": msg}).to_string());
            }
            Ok(ret) => {
                let mut now = self.dump();
                if self.fault.as_deref() == Some("evict_connected") && self.stats.events % 7 == 0 {
                    // harness-internal mutation: pretend a connected peer vanished
                    if let Some(v) = now.values_mut().find(|v| v.iter().any(|e| e.conn == "C" && e.u == 1)) {
                        let j = v.iter().position(|e| e.conn == "C" && e.u == 1).unwrap();
                        v.remove(j);
                    }
                }
                if self.fault.as_deref() == Some("bucket_shift") && self.stats.events % 7 == 0 {
                    // harness-internal mutation: pretend a bucket's content sits one index lower
                    if let Some((&i, _)) = now.iter().find(|(i, _)| **i > 0 && !now.contains_key(&(**i - 1))) {
                        let v = now.remove(&i).unwrap();
                        now.insert(i - 1, v);
                    }
                }
                let ch = self.changes(&now);
                let before: usize = self.prev.values().map(|v| v.iter().filter(|e| e.u == 1).count()).sum();
                let after: usize = now.values().map(|v| v.iter().filter(|e| e.u == 1).count()).sum();
                if o["op"] == "add" || o["op"] == "insert" {
                    // an insertion that did not grow the table but changed a known id = eviction
                    let ids_b: std::collections::BTreeSet<i64> = self.prev.values().flatten().filter(|e| e.u == 1).map(|e| e.id).collect();
                    let ids_a: std::collections::BTreeSet<i64> = now.values().flatten().filter(|e| e.u == 1).map(|e| e.id).collect();
                    if ids_b.difference(&ids_a).count() > 0 {
                        self.stats.evicted += 1;
                    }
                }
                let _ = (before, after);
                self.stats.placeholders = self.ph.len() as u64;
                self.prev = now;
                self.lines.push(json!({"e": "op", "o": o, "ret": ret, "ch": ch}).to_string());
            }
        }
    }

    /// peer op on universe peer `ix` (index into `u.peers`)
    fn peer_op(&mut self, op: &str, ix: usize, ha: usize, conn: &str, dial: bool, na: usize) {
        let p = self.u.peers[ix].clone();
        let xb = self.u.xb(&p.h);
        let id = ix as i64 + 1;
        let table = &mut self.table;
        let (o, ret): (Value, Result<Value, String>) = match op {
            "add" => (
                json!({"op": "add", "p": id, "xb": xb, "ha": (ha > 0) as i64, "conn": conn}),
                catch(|| table.add_known_peer(p.id, addrs(ix, ha, 0), conn_of(conn))).map(|_| json!("ok")),
            ),
            "insert" => (
                json!({"op": "insert", "p": id, "xb": xb, "ha": (ha > 0) as i64, "conn": conn}),
                catch(|| {
                    let mut e = table.entry(Key::from(p.id));
                    let kind = kind_of(&e);
                    if kind == "vacant" {
                        e.insert(KademliaPeer::new(p.id, addrs(ix, ha, 0), conn_of(conn)));
                    }
                    json!(kind)
                }),
            ),
            "est" => (
                json!({"op": "est", "p": id, "xb": xb, "dial": dial as i64}),
                catch(|| {
                    let address = addrs(ix, 1, 7).pop().unwrap();
                    let ep = if dial {
                        Endpoint::Dialer { address, connection_id: ConnectionId::from(ix) }
                    } else {
                        Endpoint::Listener { address, connection_id: ConnectionId::from(ix) }
                    };
                    table.on_connection_established(Key::from(p.id), ep)
                })
                .map(|_| json!("ok")),
            ),
            "disc" => (
                json!({"op": "disc", "p": id, "xb": xb}),
                catch(|| {
                    let mut e = table.entry(Key::from(p.id));
                    let kind = kind_of(&e);
                    if let KBucketEntry::Occupied(entry) = &mut e {
                        set_connection(entry, ConnectionType::NotConnected);
                    }
                    json!(kind)
                }),
            ),
            "fail" => (
                json!({"op": "fail", "p": id, "xb": xb, "na": (na > 0) as i64}),
                catch(|| table.on_dial_failure(Key::from(p.id), &addrs(ix, na, 3))).map(|_| json!("ok")),
            ),
            "lookup" => (
                json!({"op": "lookup", "p": id, "xb": xb}),
                catch(|| {
                    let e = table.entry(Key::from(p.id));
                    json!(kind_of(&e))
                }),
            ),
            other => panic!("unknown op {other}"),
        };
        if let Ok(v) = &ret {
            if v == "noslot" {
                self.stats.noslot += 1;
            }
        }
        self.finish_op(o, ret);
    }

    fn closest(&mut self, target: H, k: usize) {
        let d = xor32(&self.u.local, &target);
        let mut dbits = vec![];
        for b in 0..256usize {
            if d[31 - b / 8] >> (b % 8) & 1 == 1 {
                dbits.push(b);
            }
        }
        if let Some(t) = ilog2_be(&d) {
            self.stats.tbits.insert(t as usize);
        }
        // distance order of all stored entries with addresses (harness arithmetic)
        let mut with: Vec<&Entry> = self.prev.values().flatten().filter(|e| e.ha == 1).collect();
        with.sort_by_key(|e| xor32(&e.h, &target));
        let ord: Vec<i64> = with.iter().map(|e| e.id).collect();
        let key = Key::verif_from_raw(target, ());
        let table = &mut self.table;
        let ret = catch(|| table.closest(&key, k));
        let ret = ret.map(|peers| {
            let mut ids = vec![];
            let mut ghost = 5000;
            for p in &peers {
                let (pid, ..) = peer_info(p);
                let id = match self.u.by_id.get(&pid) {
                    Some(ix) => *ix as i64 + 1,
                    None => *self.ph.get(&pid).unwrap_or_else(|| {
                        ghost += 1;
                        &ghost
                    }),
                };
                ids.push(id);
            }
            let mut s = ids.clone();
            s.sort();
            s.dedup();
            if s.len() != ids.len() {
                self.stats.dup_results += 1;
            }
            match self.fault.as_deref() {
                Some("closest_swap") if ids.len() >= 2 && self.stats.closest % 5 == 0 => ids.swap(0, 1),
                Some("closest_drop") if !ids.is_empty() && self.stats.closest % 5 == 0 => {
                    ids.pop();
                }
                _ => {}
            }
            json!(ids)
        });
        self.stats.closest += 1;
        self.finish_op(json!({"op": "closest", "k": k, "dbits": dbits, "ord": ord}), ret);
    }
}

fn kind_of(e: &KBucketEntry<'_>) -> &'static str {
    match e {
        KBucketEntry::LocalNode => "local",
        KBucketEntry::Occupied(_) => "occupied",
        KBucketEntry::Vacant(_) => "vacant",
        KBucketEntry::NoSlot => "noslot",
    }
}

// ------------------------------------------------------------------ TLC behaviours

/// Concretise the W-bit model on the top W bits of the real hashes: model key x <-> a real
/// peer whose hash starts with x; every top bucket gets (20 - K) connected ballast peers so
/// that its remaining capacity equals the model's K.
fn model_universe(pool: &Pool, w: u32, k: usize, l: u64, rng: &mut StdRng) -> (Uni, Vec<usize>, Vec<usize>) {
    let pick = |x: u64, rng: &mut StdRng| -> Peer {
        let (lo, hi) = pool.slice(w, x);
        assert!(hi > lo, "pool too small");
        pool.v[rng.gen_range(lo..hi)].clone()
    };
    let local = pick(l, rng);
    let mut others = vec![];
    for x in 0..(1u64 << w) {
        if x != l {
            others.push(pick(x, rng));
        }
    }
    let ndesignated = others.len();
    // ballast
    for i in 0..w {
        let prefixes: Vec<u64> = (0..(1u64 << w)).filter(|y| *y != l && 63 - (y ^ l).leading_zeros() == i).collect();
        let mut n = 0;
        let mut guard = 0;
        while n < 20 - k {
            guard += 1;
            assert!(guard < 100000);
            let y = prefixes[rng.gen_range(0..prefixes.len())];
            let p = pick(y, rng);
            if others.iter().any(|q| q.id == p.id) || p.id == local.id {
                continue;
            }
            others.push(p);
            n += 1;
        }
    }
    let u = Uni::new(local.h, Some(local), others);
    // model key x -> universe index
    let mut map = vec![0usize; 1 << w];
    let mut ix = 1;
    for x in 0..(1usize << w) {
        if x as u64 == l {
            map[x] = 0;
        } else {
            map[x] = ix;
            ix += 1;
        }
    }
    let ballast: Vec<usize> = (1 + ndesignated..u.peers.len()).collect();
    (u, map, ballast)
}

fn run_behaviour(b: usize, beh: &Value, pool: &Pool, cache: &mut HashMap<(u32, usize, u64), Arc<(Uni, Vec<usize>, Vec<usize>)>>, seed: u64, fault: &Option<String>) -> (Vec<String>, Stats) {
    let w = beh["W"].as_u64().unwrap() as u32;
    let k = beh["K"].as_u64().unwrap() as usize;
    let l = beh["L"].as_u64().unwrap();
    let mut rng = StdRng::seed_from_u64(seed ^ (w as u64) << 32 ^ l << 8 ^ k as u64);
    let ent = cache.entry((w, k, l)).or_insert_with(|| Arc::new(model_universe(pool, w, k, l, &mut rng))).clone();
    let (u, map, ballast) = (&ent.0, &ent.1, &ent.2);
    let mut run = Run::new(u, fault.clone());
    for ix in ballast {
        run.table.add_known_peer(u.peers[*ix].id, addrs(*ix, 1, 0), ConnectionType::Connected);
    }
    run.reset_line(20, "tlc", b, json!({"W": w, "Kmodel": k, "L": l}));
    let mut trng = StdRng::seed_from_u64(seed ^ b as u64);
    for o in beh["ops"].as_array().unwrap() {
        let op = o["op"].as_str().unwrap();
        if op == "closest" {
            let t = o["t"].as_u64().unwrap();
            let mut target = [0u8; 32];
            trng.fill(&mut target[..]);
            let top = u64::from_be_bytes(target[..8].try_into().unwrap());
            let top = (top & (u64::MAX >> w)) | (t << (64 - w));
            target[..8].copy_from_slice(&top.to_be_bytes());
            let km = o["k"].as_u64().unwrap() as usize;
            let kr = if km >= (1 << w) { 1000 } else { km };
            run.closest(target, kr);
        } else {
            let ix = map[o["p"].as_u64().unwrap() as usize];
            let ha = o.get("ha").and_then(|v| v.as_u64()).unwrap_or(0) as usize;
            let ha = if ha > 0 { 1 + ix % 2 } else { 0 };
            let conn = o.get("conn").and_then(|v| v.as_str()).unwrap_or("N");
            let dial = o.get("dial").and_then(|v| v.as_u64()).unwrap_or(0) == 1;
            let na = o.get("na").and_then(|v| v.as_u64()).unwrap_or(0) as usize;
            run.peer_op(op, ix, ha, conn, dial, na);
        }
    }
    (run.lines, run.stats)
}

// ------------------------------------------------------------------ random histories

fn low_noise(rng: &mut StdRng, h: &mut H, below: usize) {
    // randomise the bits strictly below bit index `below`
    for b in 0..below {
        if rng.gen::<bool>() {
            h[31 - b / 8] ^= 1 << (b % 8);
        }
    }
}

fn flip(h: &mut H, b: usize) {
    h[31 - b / 8] ^= 1 << (b % 8);
}

fn run_random(r: usize, pool: &Pool, seed: u64, len: usize, fault: &Option<String>) -> (Vec<String>, Stats) {
    let mut rng = StdRng::seed_from_u64(seed.wrapping_mul(0x9e3779b97f4a7c15) ^ r as u64);
    let n = pool.v.len();
    let anchor = pool.v[rng.gen_range(0..n)].clone();
    // run type: 0 plain (local = a real peer), 1.. crafted local key placing `anchor` into bucket b
    let crafted = r % 2 == 1;
    let b = if !crafted {
        256
    } else {
        match (r / 2) % 6 {
            0 => 0, // the D11 set-up: a peer in bucket 0
            1 => (r / 12) % 4,
            _ => (r / 2 * 37 + seed as usize) % 256,
        }
    };
    let (local, local_peer) = if crafted {
        let mut l = anchor.h;
        flip(&mut l, b);
        low_noise(&mut rng, &mut l, b);
        (l, None)
    } else {
        (anchor.h, Some(anchor.clone()))
    };
    // candidates: neighbours of the anchor in hash order (long shared prefixes => high-but-not-top
    // buckets overflow) + random pool peers (top buckets overflow)
    let pos = pool.pos(&anchor.h);
    let near = rng.gen_range(30..110usize);
    let far = rng.gen_range(40..130usize);
    let mut others = vec![];
    if crafted {
        others.push(anchor.clone());
    }
    let lo = pos.saturating_sub(near / 2);
    for p in pool.v[lo..(lo + near).min(n)].iter() {
        if p.id != anchor.id {
            others.push(p.clone());
        }
    }
    for _ in 0..far {
        let p = pool.v[rng.gen_range(0..n)].clone();
        if p.id != anchor.id {
            others.push(p);
        }
    }
    let u = Uni::new(local, local_peer, others);
    let np = u.peers.len();
    let mut run = Run::new(&u, fault.clone());
    run.reset_line(20, if crafted { "rand-crafted" } else { "rand-plain" }, r, json!({"b": b, "npeers": np}));
    let conns = ["N", "C", "C", "N", "Y", "X"];
    let mut tb_counter = r * 29;
    let mut do_closest = |run: &mut Run, rng: &mut StdRng, nq: usize| {
        for _ in 0..nq {
            let stored: Vec<H> = run.prev.values().flatten().map(|e| e.h).collect();
            let nwith = run.prev.values().flatten().filter(|e| e.ha == 1).count();
            let mut t = [0u8; 32];
            match rng.gen_range(0..10) {
                0 | 1 => rng.fill(&mut t[..]),
                2..=5 => {
                    // all 256 indices for ilog2(local ^ target), cycling
                    tb_counter += 1;
                    let tb = tb_counter % 256;
                    t = u.local;
                    flip(&mut t, tb);
                    let nb = tb.min(rng.gen_range(0..12));
                    low_noise(rng, &mut t, nb);
                    if rng.gen::<bool>() {
                        low_noise(rng, &mut t, tb);
                    }
                }
                6 if !stored.is_empty() => t = stored[rng.gen_range(0..stored.len())],
                7 if !stored.is_empty() => {
                    t = stored[rng.gen_range(0..stored.len())];
                    let nb = rng.gen_range(1..10);
                    low_noise(rng, &mut t, nb);
                }
                8 => t = u.local,
                _ => {
                    t = u.local;
                    let nb = rng.gen_range(1..6);
                    low_noise(rng, &mut t, nb);
                }
            }
            let ks = [0, 1, 2, 3, 5, 19, 20, 21, nwith.saturating_sub(1), nwith, nwith + 1, 64, 1000];
            let k = ks[rng.gen_range(0..ks.len())];
            run.closest(t, k);
        }
    };
    // phase 1: fill. profile 0 mixed, 1 mostly connected (buckets become unreplaceable -> NoSlot),
    // 2 mostly not connected (every insertion into a full bucket evicts)
    let profile = (r / 2) % 3;
    let pfill = rng.gen_range(40..100);
    if crafted {
        // the anchor (index 0) is the peer the local key was crafted for
        run.peer_op("add", 0, 1, conns[rng.gen_range(0..conns.len())], false, 0);
    }
    let mut order: Vec<usize> = (0..np).collect();
    for i in (1..order.len()).rev() {
        order.swap(i, rng.gen_range(0..=i));
    }
    let mut nfill = 0;
    for ix in order {
        if rng.gen_range(0..100) >= pfill {
            continue;
        }
        let c = match (profile, rng.gen_range(0..10)) {
            (1, 0..=7) => "C",
            (1, 8) => "Y",
            (2, 0..=7) => "N",
            (2, 8) => "X",
            _ => conns[rng.gen_range(0..conns.len())],
        };
        let ha = [0usize, 1, 1, 1, 1, 2, 3, 1, 1, 2][rng.gen_range(0..10)];
        if rng.gen_range(0..8) == 0 {
            run.peer_op("insert", ix, ha, c, false, 0);
        } else {
            run.peer_op("add", ix, ha, c, false, 0);
        }
        nfill += 1;
        if nfill % 16 == 0 {
            do_closest(&mut run, &mut rng, 1);
        }
    }
    // phase 1b: peers of full buckets that are stored as not connected connect (inbound and
    // outbound alternately), then new peers arrive for the same buckets: nobody who connected
    // may be displaced
    {
        let full: Vec<(usize, Vec<Entry>)> = run.prev.iter().filter(|(_, v)| v.len() >= 20).map(|(i, v)| (*i, v.clone())).collect();
        let mut dial = r % 2 == 0;
        for (b, entries) in full.iter().take(3) {
            let mut n = 0;
            for e in entries.iter().filter(|e| e.u == 1 && e.conn != "C") {
                run.peer_op("est", e.id as usize - 1, 0, "N", dial, 0);
                dial = !dial;
                n += 1;
                if n >= 3 {
                    break;
                }
            }
            let stored: std::collections::BTreeSet<i64> = run.prev.values().flatten().filter(|e| e.u == 1).map(|e| e.id).collect();
            let newcomers: Vec<usize> = (0..np).filter(|ix| u.xb(&u.peers[*ix].h) == *b as i64 && !stored.contains(&(*ix as i64 + 1))).take(5).collect();
            // keys that are absent from the full bucket are first only looked up / reported on
            // (dial failure, connection established, disconnect, lookup): nobody may be lost
            for (n, ix) in newcomers.iter().enumerate() {
                match (n + r) % 5 {
                    0 => run.peer_op("fail", *ix, 0, "N", false, 1 + n % 2),
                    1 => run.peer_op("est", *ix, 0, "N", n % 2 == 0, 0),
                    2 => run.peer_op("disc", *ix, 0, "N", false, 0),
                    3 => run.peer_op("lookup", *ix, 0, "N", false, 0),
                    _ => run.peer_op("add", *ix, 0, "N", false, 0), // no addresses: ignored
                }
            }
            for ix in newcomers {
                let c = ["N", "C", "N", "X"][rng.gen_range(0..4)];
                run.peer_op("add", ix, 1, c, false, 0);
            }
        }
        do_closest(&mut run, &mut rng, 1);
    }
    // phase 2: mixed history
    for step in 0..len {
        let c = conns[rng.gen_range(0..conns.len())];
        let ix = rng.gen_range(0..np);
        match rng.gen_range(0..100) {
            0..=39 => run.peer_op("add", ix, [0usize, 1, 1, 1, 2, 3][rng.gen_range(0..6)], c, false, 0),
            40..=54 => run.peer_op("insert", ix, rng.gen_range(0..3), c, false, 0),
            55..=69 => run.peer_op("est", ix, 0, c, rng.gen(), 0),
            70..=79 => run.peer_op("disc", ix, 0, c, false, 0),
            80..=89 => run.peer_op("fail", ix, 0, c, false, rng.gen_range(0..3)),
            _ => run.peer_op("lookup", ix, 0, c, false, 0),
        }
        if step % 6 == 5 {
            do_closest(&mut run, &mut rng, 2);
        }
    }
    do_closest(&mut run, &mut rng, 10);
    (run.lines, run.stats)
}

fn main() {
    let args = Args::parse();
    quiet_panics();
    let seed = args.u64("seed", 1);
    let out = args.str("out", "trace.ndjson");
    let threads = args.u64("threads", 8) as usize;
    let fault = std::env::var("VERIF_FAULT").ok().filter(|s| !s.is_empty());
    if args.get("repro-d11").is_some() {
        // minimal reproduction of finding D11: one peer at distance 1 from the local key
        let p = PeerId::random();
        let mut raw = Key::from(p).verif_raw();
        raw[31] ^= 1;
        let mut table = RoutingTable::new(Key::verif_from_raw(raw, PeerId::random()));
        table.add_known_peer(p, vec!["/ip4/10.0.0.1/tcp/1".parse().unwrap()], ConnectionType::Connected);
        let buckets: Vec<usize> = table.verif_buckets().iter().map(|(i, _)| *i).collect();
        let res = table.closest(&Key::from(p), 20);
        println!("stored peers: 1 (bucket {:?}); closest(target = that peer, k = 20) returned {} entries, all the same peer: {}",
            buckets, res.len(), res.iter().all(|x| peer_info(x).0 == p));
        return;
    }
    let pool = Arc::new(Pool::new(args.u64("pool", 1 << 17) as usize, seed));
    enum Job {
        Beh(usize, Value),
        Rand(usize),
    }
    let mut jobs = vec![];
    if let Some(path) = args.get("behaviours") {
        for (i, b) in read_jsonl(path).into_iter().enumerate() {
            jobs.push(Job::Beh(i, b));
        }
    }
    let nbeh = jobs.len();
    let nrandom = args.u64("random", 0) as usize;
    let first = args.u64("first", 0) as usize;
    let rlen = args.u64("len", 80) as usize;
    for r in 0..nrandom {
        jobs.push(Job::Rand(first + r));
    }
    let njobs = jobs.len();
    let jobs = Arc::new(Mutex::new(jobs.into_iter().enumerate().rev().collect::<Vec<_>>()));
    let results = Arc::new(Mutex::new(Vec::<(usize, Vec<String>, Stats)>::new()));
    let mut hs = vec![];
    for _ in 0..threads {
        let (jobs, results, pool, fault) = (jobs.clone(), results.clone(), pool.clone(), fault.clone());
        hs.push(std::thread::spawn(move || {
            let mut cache = HashMap::new();
            loop {
                let job = jobs.lock().unwrap().pop();
                let Some((n, job)) = job else { break };
                let (lines, st) = match job {
                    Job::Beh(i, b) => run_behaviour(i, &b, &pool, &mut cache, seed, &fault),
                    Job::Rand(r) => run_random(r, &pool, seed, rlen, &fault),
                };
                results.lock().unwrap().push((n, lines, st));
            }
        }));
    }
    for h in hs {
        h.join().expect("worker thread");
    }
    let mut res = std::mem::take(&mut *results.lock().unwrap());
    res.sort_by_key(|(n, ..)| *n);
    let mut lines = vec![];
    let mut tot = Stats::default();
    for (_, l, st) in &res {
        lines.extend(l.iter().cloned());
        tot.events += st.events;
        tot.closest += st.closest;
        tot.noslot += st.noslot;
        tot.evicted += st.evicted;
        tot.placeholders += st.placeholders;
        tot.dup_results += st.dup_results;
        tot.panics += st.panics;
        tot.max_bucket = tot.max_bucket.max(st.max_bucket);
        tot.buckets.extend(st.buckets.iter());
        tot.tbits.extend(st.tbits.iter());
    }
    write_lines(&out, &lines);
    let summary = json!({"behaviours": nbeh, "random": nrandom, "executed": res.len(), "jobs": njobs, "events": tot.events,
        "closest": tot.closest, "noslot": tot.noslot, "evictions": tot.evicted, "placeholders": tot.placeholders,
        "dup_results": tot.dup_results, "panics": tot.panics, "max_bucket_len": tot.max_bucket,
        "bucket_indices_populated": tot.buckets.len(), "lowest_bucket_populated": tot.buckets.iter().next(),
        "target_ilog2_indices_covered": tot.tbits.len()});
    println!("SUMMARY {summary}");
}
