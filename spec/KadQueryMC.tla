----------------------------- MODULE KadQueryMC -----------------------------
(* Bounded model of one lookup for TLC: every reply / failure / ordering     *)
(* pattern of a small network, honest topologies and lying peers.  Checks    *)
(* that the Impl layer of KadQuery satisfies its Prop layer (C15), and       *)
(* generates behaviours for replay against the real QueryEngine.             *)
EXTENDS KadQuery, TLC, Json

CONSTANTS N,        \* peers 1..N (rank = id), 0 is the local node
          Kind, Alpha, Repl, Need, LocalRec, Known, InitC,
          Topo,     \* name of the honest topology (who knows whom)
          Liars,    \* peers that may answer with any set of Lies
          Lies,     \* peer sets liars choose from (may contain 0 and already contacted peers)
          RecAt,    \* peers that hold the record (get)
          ProvAt,   \* peers that return providers (prov); they return ProvSet
          ProvSet,
          Stale,    \* TRUE: at any time all outstanding requests may become older than the peer timeout
          Late,     \* TRUE: peers that already answered or failed may answer again (unsolicited)
          MaxOps    \* bound on the history length (0 = none)

Peers == 1..N
AllLies == SUBSET (0..N)        \* a liar may return any set of peers, the local node included
C == [kind |-> Kind, alpha |-> Alpha, repl |-> Repl, need |-> Need, localrec |-> LocalRec,
      known |-> Known, init |-> InitC]

Knows(p) ==
  CASE Topo = "chain"  -> {q \in Peers : q = p - 1 \/ q = p + 1}
    [] Topo = "star"   -> IF p = N THEN Peers \ {N} ELSE {N}
    [] Topo = "clique" -> Peers \ {p}
    [] Topo = "two"    -> {q \in Peers : q # p /\ (q % 2 = p % 2 \/ q = p + 1)}
    [] Topo = "closer" -> {q \in Peers : q < p}
    [] Topo = "none"   -> {}

VARIABLES s, m, last, hist
vars == <<s, m, last, hist>>

Init == /\ s = ImplInit(C)
        /\ m = PropInit(C)
        /\ last = [o |-> [op |-> "init"], ret |-> "ok", m |-> PropInit(C)]
        /\ hist = <<>>

Answers(p) == {Knows(p)} \cup (IF p \in Liars THEN Lies ELSE {})
RespOp(p, peers) == [op |-> "resp", p |-> p, peers |-> peers,
                     rec |-> IF p \in RecAt THEN 1 ELSE 0,
                     provs |-> IF p \in ProvAt THEN ProvSet ELSE {}]

EnvOps ==
       {[op |-> "next"]}
  \cup (IF Kind = "track"
          THEN {[op |-> x, p |-> p] : x \in {"sendok", "sendfail"}, p \in m.inflight}
          ELSE {RespOp(p, ps) : p \in m.inflight, ps \in UNION {Answers(q) : q \in m.inflight}}
               \cup {[op |-> "fail", p |-> p] : p \in m.inflight})
  \cup (IF Late /\ Kind # "track"
          THEN {RespOp(p, Knows(p)) : p \in m.contacted \ m.inflight}
               \cup {[op |-> "fail", p |-> p] : p \in m.contacted \ m.inflight}
          ELSE {})
  \cup (IF Stale /\ Kind # "track" /\ ~(m.inflight \subseteq m.stale)
          THEN {[op |-> "stale", ps |-> m.inflight]} ELSE {})
  \cup (IF m.inflight = {} /\ ImplNext(C, s).ret.a = "none" THEN {[op |-> "quiesce"]} ELSE {})

\* a responder answers with one of *its* answers
OpOK(o) == o.op = "resp" /\ o.p \in m.inflight => o.peers \in Answers(o.p)

Do(o) == LET r == ImplStep(C, s, o) IN
           /\ s' = r.st
           /\ m' = PropUpd(C, m, o, r.ret)
           /\ last' = [o |-> o, ret |-> r.ret, m |-> m]
           /\ hist' = Append(hist, o)

Next == /\ (MaxOps = 0 \/ Len(hist) < MaxOps)
        /\ \E o \in EnvOps : OpOK(o) /\ Do(o)

Spec == Init /\ [][Next]_vars

\* C15 on the model: every step of the implementation-shaped spec is allowed by the monitor
StepOK == [][PropOK(C, last'.m, last'.o, last'.ret)]_vars

\* sanity of the monitor w.r.t. the implementation state (drift inside the model)
Consistent == /\ (~s.done => m.inflight = s.pend)
              /\ m.term = s.done

View == <<s, m>>
Emit == PrintT(<<"B", ToJson([cfg |-> [kind |-> Kind, alpha |-> Alpha, repl |-> Repl, need |-> Need,
                                         localrec |-> LocalRec, known |-> Known, init |-> InitC, n |-> N],
                               ops |-> hist'])>>)
=============================================================================
