---------------------------- MODULE KadStoreTrace ----------------------------
(* Trace validation: every call recorded from the real MemoryStore must be a *)
(* step allowed by the Prop layer (MODE=prop, decides C17) or exactly the    *)
(* step of the Impl layer (MODE=impl, drift detector).                       *)
EXTENDS KadStore, TLC, Json, IOUtils

Rec == ndJsonDeserialize(IOEnv.TRACE)
Mode == IOEnv.MODE

VARIABLES l, st, cfg
tvars == <<l, st, cfg>>

ToState(d) == [recs |-> SeqToSet(d.recs), provs |-> d.provs, pkeys |-> SeqToSet(d.pkeys),
               local |-> SeqToSet(d.local), now |-> d.now]

TInit == /\ l = 1
         /\ st = InitState({})
         /\ cfg = [maxRecords |-> 0]

TReset == /\ Rec[l].e = "reset"
          /\ cfg' = Rec[l].cfg
          /\ st' = InitState(SeqToSet(Rec[l].keys))

TOp == /\ Rec[l].e = "op"
       /\ cfg' = cfg
       /\ LET T == ToState(Rec[l].st) IN
            /\ st' = T
            /\ IF Mode = "impl"
                 THEN LET r == ImplStep(cfg, st, Rec[l].o) IN r.ret = Rec[l].ret /\ r.st = T
                 ELSE PropStep(cfg, st, Rec[l].o, Rec[l].ret, T)

TNext == /\ l <= Len(Rec)
         /\ l' = l + 1
         /\ (TReset \/ TOp)

TSpec == TInit /\ [][TNext]_tvars

\* all lines consumed <=> one state per line plus the initial one
Accepted ==
  LET d == TLCGet("stats").diameter IN
  IF d - 1 = Len(Rec) THEN PrintT(<<"TRACE_OK", Len(Rec)>>)
  ELSE PrintT(<<"TRACE_REJECTED_AT", d>>) /\ FALSE
=============================================================================
