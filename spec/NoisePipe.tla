------------------------------ MODULE NoisePipe ------------------------------
(***************************************************************************)
(* Noise transport socket of litep2p (src/crypto/noise/mod.rs NoiseSocket) *)
(* as an instance of a framed pipe: writer -> wire (attacker) -> carrier   *)
(* (chunking) -> reader.                                                   *)
(*                                                                         *)
(* Two layers in one module:                                               *)
(*  - Impl*: deterministic transcription of poll_write / poll_flush /      *)
(*    poll_read incl. the read-ahead buffer arithmetic (nread, offset,     *)
(*    current_frame_size, max_read, 0/1 byte carry-over, auxiliary tail).  *)
(*    All sizes are parameters of the configuration record C, so the same  *)
(*    operators run unit-scaled (MSG=5,TAG=1) in the model checker and at  *)
(*    real scale (MSG=65536,TAG=16) in trace validation (drift detector).  *)
(*  - Prop*: a monitor = the most liberal behaviour property C02 allows,   *)
(*    over the observable events only.                                     *)
(* AEAD is ideal: a frame decrypts iff it is byte-identical to the frame   *)
(* the writer produced with the nonce the reader expects.                  *)
(***************************************************************************)
EXTENDS Naturals, Integers, Sequences, FiniteSets

HDR == 2
None == -1
Min(a, b) == IF a < b THEN a ELSE b
Max(a, b) == IF a > b THEN a ELSE b

\* C: [MSG, TAG, R, W, CHUNK]
Canon(C) == C.R * C.MSG                      \* canonical_max_read
RBufLen(C) == C.R * C.MSG + HDR + C.MSG      \* read_buffer.len()
EBufLen(C) == C.W * (C.MSG + HDR)            \* encrypt_buffer.len()
SnowMax(C) == C.MSG - 1                      \* largest message snow accepts (65535); the code chunks by CHUNK = MSG - 1 - TAG

-----------------------------------------------------------------------------
(* frames, attack plan, reader-side stream                                  *)
\* frame  : [k (nonce), pl (plaintext len), p0 (plaintext position)]
\* segment: frame + [hb header bytes present, al body bytes present, hl claimed len, good]
\* plan   : [kind, i, x, ea, ef]  (ea, ef: see Effective below)

FrameBytes(C, f) == HDR + f.pl + C.TAG

CumBytes(C, F) ==
  LET cum[i \in 0..Len(F)] == IF i = 0 THEN 0 ELSE cum[i - 1] + FrameBytes(C, F[i]) IN cum

\* number of frames completely contained in the first `wout` bytes the writer put on the wire
NReleased(C, F, wout) == LET cum == CumBytes(C, F) IN Cardinality({i \in 1..Len(F) : cum[i] <= wout})

Seg(C, f) == [k |-> f.k, pl |-> f.pl, p0 |-> f.p0, hb |-> HDR,
              al |-> f.pl + C.TAG, hl |-> f.pl + C.TAG, good |-> TRUE]

Transform(C, F, plan) ==
  LET S == [j \in 1..Len(F) |-> Seg(C, F[j])]
      n == Len(F)  i == plan.i  x == plan.x IN
  CASE plan.kind = "none" -> S
    [] plan.kind \in {"body", "hdr", "trunc", "drop", "cut"} /\ n < i -> S
    [] plan.kind = "body"  -> [S EXCEPT ![i].good = FALSE]
    [] plan.kind = "hdr"   -> [S EXCEPT ![i].hl = (@ + x) % C.MSG, ![i].good = FALSE]
    [] plan.kind = "trunc" -> [S EXCEPT ![i].al = @ - Min(Max(x, 1), @), ![i].good = FALSE]
    [] plan.kind = "drop"  -> SubSeq(S, 1, i - 1) \o SubSeq(S, i + 1, n)
    [] plan.kind = "cut"   ->
         LET keep == Min(x, HDR + S[i].al - 1) IN
         SubSeq(S, 1, i - 1) \o <<[S[i] EXCEPT !.hb = Min(keep, HDR), !.al = Max(keep - HDR, 0), !.good = FALSE]>>
    [] plan.kind = "swap"  -> IF n < i THEN S
                              ELSE IF n = i THEN SubSeq(S, 1, i - 1)
                              ELSE SubSeq(S, 1, i - 1) \o <<S[i + 1], S[i]>> \o SubSeq(S, i + 2, n)
    [] plan.kind = "replay" -> IF n < i + x THEN S
                               ELSE SubSeq(S, 1, i + x) \o <<S[i]>> \o SubSeq(S, i + x + 1, n)

SegStart(St) ==
  LET st[i \in 1..Len(St) + 1] == IF i = 1 THEN 0 ELSE st[i - 1] + St[i - 1].hb + St[i - 1].al IN st
StreamLen(St) == SegStart(St)[Len(St) + 1]

-----------------------------------------------------------------------------
(* read buffer content: which stream byte sits at which buffer index.       *)
(* runs: Seq([a (absolute stream position), n (length)]), merged if adjacent *)

RECURSIVE PosOf(_, _)
PosOf(runs, i) == IF runs = <<>> THEN None
                  ELSE IF i < Head(runs).n THEN Head(runs).a + i
                  ELSE PosOf(Tail(runs), i - Head(runs).n)
RECURSIVE InOneRun(_, _, _)
InOneRun(runs, i, len) == IF runs = <<>> THEN FALSE
                          ELSE IF i < Head(runs).n THEN i + len <= Head(runs).n
                          ELSE InOneRun(Tail(runs), i - Head(runs).n, len)
AppendRun(runs, a, n) ==
  IF runs # <<>> /\ runs[Len(runs)].a + runs[Len(runs)].n = a
    THEN [runs EXCEPT ![Len(runs)].n = @ + n]
    ELSE Append(runs, [a |-> a, n |-> n])
RECURSIVE TruncRuns(_, _)
\* keep the first m buffer bytes
TruncRuns(runs, m) == IF m <= 0 \/ runs = <<>> THEN <<>>
                      ELSE IF Head(runs).n >= m THEN <<[a |-> Head(runs).a, n |-> m]>>
                      ELSE <<Head(runs)>> \o TruncRuns(Tail(runs), m - Head(runs).n)

\* two header bytes at buffer index off: the claimed length if they are the intact
\* header position of a segment, else garbage (modelled as length 0 = invalid)
ParseHdr(St, runs, off) ==
  LET a0 == PosOf(runs, off)  a1 == PosOf(runs, off + 1)  ss == SegStart(St)
      hit == {s \in 1..Len(St) : ss[s] = a0 /\ St[s].hb = HDR} IN
  IF a0 # None /\ a1 = a0 + 1 /\ hit # {} THEN St[CHOOSE s \in hit : TRUE].hl ELSE 0

\* ideal AEAD: buffer[off..off+fs) decrypts with nonce rn iff it is exactly the body of
\* an untouched segment carrying that nonce
Decrypt(St, runs, off, fs, rn) ==
  LET q == PosOf(runs, off)  ss == SegStart(St)
      hit == {s \in 1..Len(St) : /\ St[s].hb = HDR /\ ss[s] + HDR = q /\ St[s].al = fs
                                  /\ St[s].hl = fs /\ St[s].good /\ St[s].k = rn} IN
  IF q # None /\ InOneRun(runs, off, fs) /\ hit # {}
    THEN LET s == CHOOSE s \in hit : TRUE IN [ok |-> TRUE, p0 |-> St[s].p0, n |-> St[s].pl]
    ELSE [ok |-> FALSE, p0 |-> 0, n |-> 0]

-----------------------------------------------------------------------------
(* Impl layer: reader (poll_read)                                           *)
\* D: [rs ("data","len","proc"), maxRead, nread, offset, cfs, pend, runs, rn, taken, dbuf]
\* pend: <<>> or <<[off, size, fsz, p0]>>; dbuf: decrypt_buffer present
\* ch: carrier script, Seq([c, n]): n times a chunk of <= c bytes; c = 0: Pending once

InitReader(C) == [rs |-> "data", maxRead |-> Canon(C), nread |-> 0, offset |-> 0, cfs |-> None,
                  pend |-> <<>>, runs |-> <<>>, rn |-> 0, taken |-> 0, dbuf |-> TRUE]

PopChunk(ch, k) ==  \* k bytes (or one Pending if k = 0) consumed from the head entry
  LET h == Head(ch) IN
  IF h.c = 0 \/ k = h.c
    THEN IF h.n > 1 THEN <<[h EXCEPT !.n = @ - 1]>> \o Tail(ch) ELSE Tail(ch)
    ELSE \* partial chunk: remainder stays in front as its own chunk
         <<[c |-> h.c - k, n |-> 1]>> \o (IF h.n > 1 THEN <<[h EXCEPT !.n = @ - 1]>> \o Tail(ch) ELSE Tail(ch))

ResetRead(C, D, rem) ==
  [D EXCEPT !.nread = rem, !.offset = 0, !.rs = "data", !.maxRead = Canon(C),
            !.runs = IF rem = 0 THEN <<>> ELSE <<[a |-> PosOf(D.runs, D.nread - 1), n |-> 1]>>]

Ret(D, ch, res, kind, start, len, inner) ==
  [D |-> D, ch |-> ch, res |-> res, kind |-> kind, start |-> start, len |-> len, inner |-> inner]

RECURSIVE RLoop(_, _, _, _, _, _, _, _)
RLoop(C, St, closed, b, D, ch, inner, fuel) ==
  IF fuel = 0 THEN Ret(D, ch, "loop", "fuel", 0, 0, inner)
  ELSE IF D.rs = "data" THEN
    IF D.nread > D.maxRead \/ D.maxRead > RBufLen(C) THEN Ret(D, ch, "panic", "slice", 0, 0, inner)
    ELSE IF ch = <<>> THEN
      IF closed THEN Ret(D, ch, "err", "eof", 0, 0, inner) ELSE Ret(D, ch, "pending", "", 0, 0, TRUE)
    ELSE IF Head(ch).c = 0 THEN Ret(D, PopChunk(ch, 0), "pending", "", 0, 0, TRUE)
    ELSE LET k == Min(Head(ch).c, D.maxRead - D.nread) IN
         IF k = 0 THEN Ret(D, ch, "err", "eof", 0, 0, inner)   \* empty slice: inner read returns 0
         ELSE RLoop(C, St, closed, b,
                    [D EXCEPT !.nread = @ + k, !.runs = AppendRun(TruncRuns(D.runs, D.nread), D.taken, k),
                              !.taken = @ + k, !.rs = "len"],
                    PopChunk(ch, k), inner, fuel - 1)
  ELSE IF D.rs = "len" THEN
    IF D.nread < D.offset THEN Ret(D, ch, "err", "perm", 0, 0, inner)
    ELSE LET rem0 == D.nread - D.offset IN
      IF rem0 < 2 THEN RLoop(C, St, closed, b, ResetRead(C, D, rem0), ch, inner, fuel - 1)
      ELSE
        LET fresh == D.cfs = None
            fs == IF fresh THEN ParseHdr(St, D.runs, D.offset) ELSE D.cfs
            off == IF fresh THEN D.offset + 2 ELSE D.offset
            rem == IF fresh THEN rem0 - 2 ELSE rem0
            D1 == [D EXCEPT !.offset = off, !.cfs = None] IN
        IF rem < fs THEN
          IF D.nread + fs < Canon(C)
            THEN RLoop(C, St, closed, b, [D1 EXCEPT !.cfs = fs, !.rs = "data", !.maxRead = Canon(C)], ch, inner, fuel - 1)
            ELSE RLoop(C, St, closed, b, [D1 EXCEPT !.cfs = fs, !.rs = "data", !.maxRead = D.nread + fs - rem], ch, inner, fuel - 1)
        ELSE IF fs <= C.TAG THEN Ret(D1, ch, "err", "framesize", 0, 0, inner)
        ELSE RLoop(C, St, closed, b, [D1 EXCEPT !.cfs = fs, !.rs = "proc", !.pend = <<>>], ch, inner, fuel - 1)
  ELSE \* "proc"
    IF D.pend # <<>> THEN
      LET p == D.pend[1]  avail == p.size - p.off IN
      IF b >= avail
        THEN Ret([D EXCEPT !.rs = "len", !.pend = <<>>, !.dbuf = TRUE, !.offset = @ + p.fsz], ch, "ok", "", p.p0 + p.off, avail, inner)
        ELSE Ret([D EXCEPT !.pend = <<[p EXCEPT !.off = @ + b]>>], ch, "ok", "", p.p0 + p.off, b, inner)
    ELSE IF D.cfs = None THEN Ret(D, ch, "panic", "expect-frame-size", 0, 0, inner)
    ELSE
      LET fs == D.cfs
          D1 == [D EXCEPT !.cfs = None]
          dec == Decrypt(St, D.runs, D.offset, fs, D.rn) IN
      IF b >= fs - C.TAG THEN
        IF ~dec.ok THEN Ret(D1, ch, "err", "decrypt", 0, 0, inner)
        ELSE Ret([D1 EXCEPT !.offset = @ + fs, !.rs = "len", !.rn = @ + 1], ch, "ok", "", dec.p0, dec.n, inner)
      ELSE IF ~D.dbuf THEN Ret(D1, ch, "panic", "expect-buffer", 0, 0, inner)
      ELSE IF ~dec.ok THEN Ret([D1 EXCEPT !.dbuf = FALSE], ch, "err", "decrypt", 0, 0, inner)
      ELSE Ret([D1 EXCEPT !.dbuf = FALSE, !.rn = @ + 1,
                          !.pend = <<[off |-> b, size |-> dec.n, fsz |-> fs, p0 |-> dec.p0]>>], ch, "ok", "", dec.p0, b, inner)

ImplPollRead(C, St, closed, D, ch, b) == RLoop(C, St, closed, b, D, ch, FALSE, 1000)

ReaderProj(D) == [rs |-> D.rs, maxRead |-> IF D.rs = "data" THEN D.maxRead ELSE 0, nread |-> D.nread,
                  offset |-> D.offset, cfs |-> D.cfs,
                  pend |-> IF D.pend = <<>> THEN <<>> ELSE <<D.pend[1].off, D.pend[1].size, D.pend[1].fsz>>]

-----------------------------------------------------------------------------
(* Impl layer: writer (poll_write / poll_flush)                             *)
\* Wr: [writing, woff, wlen, wn, frames, wout, wcap, sent]

InitWriter == [writing |-> FALSE, woff |-> 0, wlen |-> 0, wn |-> 0, frames |-> <<>>,
               wout |-> 0, wcap |-> 0, sent |-> 0]

\* drain loop shared by step 1 of poll_write and by poll_flush
Drain(Wr) ==
  IF ~Wr.writing THEN [Wr |-> Wr, blocked |-> FALSE]
  ELSE LET d == Min(Wr.wlen - Wr.woff, Wr.wcap)
           done == d = Wr.wlen - Wr.woff IN
       [Wr |-> [Wr EXCEPT !.woff = @ + d, !.wout = @ + d, !.wcap = @ - d, !.writing = ~done],
        blocked |-> ~done]

RECURSIVE Pack(_, _, _, _, _, _)
\* encrypt chunks of `n` plaintext bytes into the buffer starting at bo
Pack(C, Wr, n, bo, done, acc) ==   \* acc: [wn, fr (new frames)]
  IF done = n THEN [err |-> FALSE, bo |-> bo, done |-> done, wn |-> acc.wn, fr |-> acc.fr]
  ELSE LET c == Min(C.CHUNK, n - done) IN
    IF bo + c + HDR + C.TAG > EBufLen(C) THEN [err |-> FALSE, bo |-> bo, done |-> done, wn |-> acc.wn, fr |-> acc.fr]
    ELSE IF c + C.TAG > SnowMax(C) THEN [err |-> TRUE, bo |-> bo, done |-> done, wn |-> acc.wn, fr |-> acc.fr]
    ELSE Pack(C, Wr, n, bo + c + C.TAG + HDR, done + c,
              [wn |-> acc.wn + 1, fr |-> Append(acc.fr, [k |-> acc.wn, pl |-> c, p0 |-> Wr.sent + done])])

ImplPollWrite(C, Wr0, n) ==
  LET dr == Drain(Wr0)  Wr == dr.Wr
      bo0 == IF Wr.writing THEN Wr.wlen ELSE 0 IN
  IF n = 0 THEN [Wr |-> Wr, res |-> "ok", acc |-> 0, inner |-> dr.blocked]
  ELSE LET p == Pack(C, Wr, n, bo0, 0, [wn |-> Wr.wn, fr |-> <<>>]) IN
    IF p.err THEN [Wr |-> [Wr EXCEPT !.wn = p.wn], res |-> "err", acc |-> 0, inner |-> dr.blocked]
    ELSE IF p.done = 0 THEN [Wr |-> Wr, res |-> "pending", acc |-> 0, inner |-> dr.blocked]
    ELSE [Wr |-> [Wr EXCEPT !.writing = TRUE, !.woff = IF Wr.writing THEN @ ELSE 0, !.wlen = p.bo,
                            !.wn = p.wn, !.frames = @ \o p.fr, !.sent = @ + p.done],
          res |-> "ok", acc |-> p.done, inner |-> dr.blocked]

ImplPollFlush(C, Wr0) ==
  LET dr == Drain(Wr0) IN
  [Wr |-> dr.Wr, res |-> IF dr.blocked THEN "pending" ELSE "ok", acc |-> 0, inner |-> dr.blocked]

WriterProj(Wr) == IF Wr.writing THEN <<Wr.woff, Wr.wlen>> ELSE <<>>

-----------------------------------------------------------------------------
(* Impl layer: whole pipe.  I: [Wr, D, ch, closed, plan]                    *)

InitImpl(C, plan) == [Wr |-> InitWriter, D |-> InitReader(C), ch |-> <<>>, closed |-> FALSE, plan |-> plan]

Stream(C, I) == Transform(C, SubSeq(I.Wr.frames, 1, NReleased(C, I.Wr.frames, I.Wr.wout)), I.plan)

RECURSIVE ScriptBytes(_)
ScriptBytes(ch) == IF ch = <<>> THEN 0 ELSE Head(ch).c * Head(ch).n + ScriptBytes(Tail(ch))
\* stream bytes neither taken by the reader nor scheduled for delivery
Unscripted(C, I) == StreamLen(Stream(C, I)) - I.D.taken - ScriptBytes(I.ch)

NewFrameLens(C, Wa, Wb) ==   \* wire body lengths of frames completed between two writer states
  LET a == NReleased(C, Wa.frames, Wa.wout)  b == NReleased(C, Wb.frames, Wb.wout) IN
  [j \in 1..(b - a) |-> Wb.frames[a + j].pl + C.TAG]

\* apply input event `in` ([e, ...args]); returns [I, ev] with ev = in + results
ImplApply(C, I, in) ==
  CASE in.e = "room"  -> [I |-> [I EXCEPT !.Wr.wcap = @ + in.c], ev |-> in]
    [] in.e = "chunk" -> [I |-> [I EXCEPT !.ch = Append(@, [c |-> in.c, n |-> in.n])], ev |-> in]
    [] in.e = "close" -> [I |-> [I EXCEPT !.closed = TRUE], ev |-> in]
    [] in.e = "write" ->
         LET r == ImplPollWrite(C, I.Wr, in.req) IN
         [I |-> [I EXCEPT !.Wr = r.Wr],
          ev |-> [e |-> "write", req |-> in.req, res |-> r.res, acc |-> r.acc, inner |-> r.inner,
                  nf |-> NewFrameLens(C, I.Wr, r.Wr), st |-> WriterProj(r.Wr)]]
    [] in.e = "flush" ->
         LET r == ImplPollFlush(C, I.Wr) IN
         [I |-> [I EXCEPT !.Wr = r.Wr],
          ev |-> [e |-> "flush", res |-> r.res, inner |-> r.inner,
                  nf |-> NewFrameLens(C, I.Wr, r.Wr), st |-> WriterProj(r.Wr)]]
    [] in.e = "read" ->
         LET r == ImplPollRead(C, Stream(C, I), I.closed, I.D, I.ch, in.buf) IN
         [I |-> [I EXCEPT !.D = r.D, !.ch = r.ch],
          ev |-> [e |-> "read", buf |-> in.buf, res |-> r.res, kind |-> r.kind, start |-> r.start,
                  len |-> r.len, match |-> TRUE, inner |-> r.inner, st |-> ReaderProj(r.D)]]
    [] OTHER -> [I |-> I, ev |-> in]     \* quiesce, wdone: no effect on the implementation

-----------------------------------------------------------------------------
(* Prop layer: monitor over observable events                               *)
\* P: [plan, sent, flen (wire body lengths seen), fl (flushed), delivered, rerr, rdone, closed, q]

InitProp(plan) == [plan |-> plan, sent |-> 0, flen |-> <<>>, fl |-> TRUE, delivered |-> 0,
                   rerr |-> FALSE, rdone |-> FALSE, closed |-> FALSE, q |-> FALSE]

RECURSIVE SumPlain(_, _, _)
SumPlain(C, fl, n) == IF n = 0 THEN 0 ELSE SumPlain(C, fl, n - 1) + fl[n] - C.TAG
WirePlain(C, P) == SumPlain(C, P.flen, Len(P.flen))

\* plan.ea: number of frames that must have left the writer for the attack to have happened;
\* plan.ef: first frame (in the writer's numbering) whose bytes the reader no longer sees unchanged
\* (0: the stream is unchanged).  Both are ghost data of the attacker: the model derives them from
\* the plan, the harness from comparing the real byte streams before and after its attack.
Effective(P) == P.plan.ef > 0 /\ Len(P.flen) >= P.plan.ea
\* plaintext position from which on nothing may be delivered any more
BadFrom(C, P) == SumPlain(C, P.flen, Min(P.plan.ef - 1, Len(P.flen)))
Limit(C, P) == IF Effective(P) THEN BadFrom(C, P) ELSE WirePlain(C, P)

FrameBound(C, nf) == \A j \in 1..Len(nf) : nf[j] > C.TAG /\ nf[j] <= SnowMax(C)

PropUpdate(C, P, e) ==
  CASE e.e = "write" -> [P EXCEPT !.sent = @ + (IF e.res = "ok" THEN e.acc ELSE 0), !.flen = @ \o e.nf,
                                  !.fl = IF e.res = "ok" /\ e.acc > 0 THEN FALSE ELSE @]
    [] e.e = "flush" -> [P EXCEPT !.flen = @ \o e.nf, !.fl = IF e.res = "ok" THEN TRUE ELSE @]
    [] e.e = "close" -> [P EXCEPT !.closed = TRUE]
    [] e.e = "read"  -> [P EXCEPT !.delivered = @ + (IF e.res = "ok" THEN e.len ELSE 0),
                                  !.rerr = @ \/ e.res \in {"err", "panic"},
                                  !.rdone = @ \/ e.res \in {"err", "eof", "panic"}]
    [] e.e = "quiesce" -> [P EXCEPT !.q = TRUE]
    [] OTHER -> P

PropAccepts(C, P, e) ==
  LET P2 == PropUpdate(C, P, e) IN
  CASE e.e = "write" ->
         /\ e.res \in {"ok", "pending"}            \* the carrier never fails a write: no error, no panic
         /\ e.res = "ok" => (e.acc <= e.req /\ (e.req > 0 => e.acc > 0))
         /\ e.res = "pending" => e.inner           \* Pending only if the carrier said Pending (waker)
         /\ FrameBound(C, e.nf)
         /\ WirePlain(C, P2) <= P2.sent            \* nothing on the wire that was not accepted
    [] e.e = "flush" ->
         /\ e.res \in {"ok", "pending"}
         /\ e.res = "pending" => e.inner
         /\ FrameBound(C, e.nf)
         /\ WirePlain(C, P2) <= P2.sent
         /\ e.res = "ok" => WirePlain(C, P2) = P2.sent   \* flushed: all accepted bytes are on the wire
    [] e.e = "read" ->
         (CASE e.res = "ok" ->
                /\ ~P.rerr                            \* nothing after an error
                /\ e.len >= 1 /\ e.len <= e.buf
                /\ e.match /\ e.start = P.delivered   \* exact bytes, in order, no gap, no duplicate
                /\ e.start + e.len <= Limit(C, P)     \* nothing of the first bad frame or later ones
            [] e.res = "err" -> P.closed \/ Effective(P) \/ P.rerr
            [] e.res = "eof" -> P.closed /\ ~Effective(P)
            [] e.res = "pending" -> e.inner            \* Pending only if the carrier said Pending
            [] e.res = "panic" -> P.rerr               \* only re-polling after an error may panic
            [] OTHER -> FALSE)
    [] e.e = "quiesce" ->
         \* writer flushed, carrier delivered everything and closed, reader polled to the end
         /\ P.fl /\ P.closed /\ P.rdone
         /\ IF Effective(P) THEN P.rerr /\ P.delivered <= BadFrom(C, P)
                            ELSE P.delivered = P.sent
    [] OTHER -> TRUE

PropInv(C, P) == /\ P.delivered <= P.sent
                 /\ Effective(P) => P.delivered <= BadFrom(C, P)
=============================================================================
