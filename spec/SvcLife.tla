------------------------------- MODULE SvcLife -------------------------------
(***************************************************************************)
(* C08 - protocols see a well-formed per-peer connection and substream     *)
(* event stream (src/protocol/transport_service.rs, protocol_set.rs,       *)
(* connection.rs).                                                         *)
(*                                                                         *)
(* This module is the PROPERTY layer: a monitor over what is observable at *)
(* the boundary of a TransportService and of the connections that serve    *)
(* it.  One step = one stimulus `s` (what the environment / the protocol   *)
(* did) and its result `r` (what the call returned, or the event one       *)
(* poll of the service yielded).  It is the most liberal reading of the    *)
(* property statement:                                                     *)
(*  R1  per protocol and peer, established / closed events strictly        *)
(*      alternate, starting with established; an established event names  *)
(*      a connection that really was established with that peer            *)
(*  R2  substream events (opened in/out, open failure) are only yielded    *)
(*      for a peer the protocol currently sees as connected                *)
(*  R3  an accepted open_substream (Ok(id)) is answered at most once, by   *)
(*      an opened/failed event carrying that id and matching what the      *)
(*      connection reported; at quiescence it has been answered exactly    *)
(*      once unless the connection that got the request terminated         *)
(*  R4  identifiers returned by open_substream are never reused (across    *)
(*      all protocols sharing the allocator)                               *)
(*      (a connection whose report of the answer is refused or dropped    *)
(*      because the protocol is slow to drain its inbox has NOT answered:  *)
(*      the request stays open and is judged at quiescence)                *)
(*  Inbound substreams: the statement does not demand that they are        *)
(*      delivered; a lost one is recorded by the check, never judged.      *)
(*  X   cross-check for C07: report_connection_closed tells the manager    *)
(*      only after every protocol has been told (this ordering is what     *)
(*      keeps a third overlapping connection away from the protocols)      *)
(* Scope: the property quantifies over at most two overlapping connections *)
(* per peer.  A peer that ever had three live connections at once is       *)
(* `tainted`: R1, R3(at most once), R4 are still checked, R2 and panics    *)
(* are then only recorded (the code documents a third connection as        *)
(* unsupported: "ignoring third connection").                              *)
(* The same operators run inside the bounded model (SvcLifeMC) and over    *)
(* recorded executions of the real code (SvcLifeTrace).                    *)
(***************************************************************************)
EXTENDS Naturals, Integers, Sequences, FiniteSets, TLC

(* Monitor state
     conn   set of <<q, p>>: protocol q currently sees peer p as connected
     live   set of [c, p]: connections established and not yet reported closed
     ests   c -> [p, dir]: every connection ever established
     taint  peers that had more than two live connections at once
     ids    identifiers returned by open_substream so far
     req    id -> [q, p, st, rep, at]
              st  "open" | "opened" | "failed" | "lost"
              rep "none" | "ok" | "fail"   what the connection reported for it
              at  connection that read the request (0 = not read yet)
     inb    <<q, p>> -> inbound substreams reported by connections, not yet yielded
     off    a broken rule was reported for this execution: stop judging it
     bad    "" or the rule that was broken                                   *)

MonInit == [conn |-> {}, live |-> {}, ests |-> <<>>, taint |-> {}, ids |-> {}, req |-> <<>>,
            inb |-> <<>>, off |-> FALSE, bad |-> ""]

Fail(M, why) == IF M.bad = "" THEN [M EXCEPT !.bad = why] ELSE M

LiveOf(M, p) == {x \in M.live : x.p = p}
Inb(M, q, p) == IF <<q, p>> \in DOMAIN M.inb THEN M.inb[<<q, p>>] ELSE 0
Connected(M, q, p) == <<q, p>> \in M.conn
InScope(M, p) == p \notin M.taint

\* an event yielded by one poll of service q
MonYield(M, q, e) ==
  CASE e.k = "est" ->
         IF Connected(M, q, e.p) THEN Fail(M, "established reported twice without closed")
         ELSE IF ~(e.c \in DOMAIN M.ests /\ M.ests[e.c].p = e.p /\ M.ests[e.c].dir = e.dir)
           THEN Fail(M, "established event names a connection that was not established with that peer")
         ELSE [M EXCEPT !.conn = @ \cup {<<q, e.p>>}]
    [] e.k = "closed" ->
         IF ~Connected(M, q, e.p) THEN Fail(M, "closed reported without established")
         ELSE [M EXCEPT !.conn = @ \ {<<q, e.p>>}]
    [] e.k = "opened" /\ e.dirn = "in" ->
         IF e.q # q THEN Fail(M, "substream delivered to another protocol")
         ELSE IF Inb(M, q, e.p) = 0 THEN Fail(M, "inbound substream event nobody reported")
         ELSE LET M1 == [M EXCEPT !.inb = (<<q, e.p>> :> (Inb(M, q, e.p) - 1)) @@ @] IN
              IF InScope(M, e.p) /\ ~Connected(M, q, e.p)
                THEN Fail(M1, "substream event for a peer that is not connected")
                ELSE M1
    [] e.k \in {"opened", "failed"} ->
         \* answer to an outbound request
         IF e.id \notin DOMAIN M.req THEN Fail(M, "answer for an identifier that was never returned")
         ELSE LET x == M.req[e.id] want == IF e.k = "opened" THEN "ok" ELSE "fail" IN
              IF x.q # q THEN Fail(M, "answer delivered to another protocol")
              ELSE IF x.st \in {"opened", "failed"} THEN Fail(M, "open request answered twice")
              ELSE IF x.rep # want THEN Fail(M, "answer does not match what the connection reported")
              ELSE IF e.k = "opened" /\ e.p # x.p THEN Fail(M, "opened substream names another peer")
              ELSE LET M1 == [M EXCEPT !.req[e.id].st = e.k] IN
                   IF InScope(M, x.p) /\ ~Connected(M, q, x.p)
                     THEN Fail(M1, "substream event for a peer that is not connected")
                     ELSE M1
    [] e.k = "terminated" -> Fail(M, "service event stream ended")
    [] OTHER -> M    \* pending, dial failures

MonStep(M, s, r, panic) ==
  IF M.off THEN M
  ELSE IF panic THEN
       \* a panic is judged only while every peer is in scope
       IF M.taint = {} THEN Fail(M, "panic") ELSE [M EXCEPT !.off = TRUE]
  ELSE
  CASE s.a = "est" ->
         LET M1 == [M EXCEPT !.live = @ \cup {[c |-> s.c, p |-> s.p]},
                             !.ests = (s.c :> [p |-> s.p, dir |-> s.dir]) @@ @] IN
         IF Cardinality(LiveOf(M1, s.p)) > 2 THEN [M1 EXCEPT !.taint = @ \cup {s.p}] ELSE M1
    [] s.a = "mgrtold" ->
         \* (negative model only) the manager learns of the closure before the protocols
         [M EXCEPT !.live = {x \in @ : x.c # s.c}]
    [] s.a = "close" ->
         LET M1 == [M EXCEPT !.live = {x \in @ : x.c # s.c}] IN
         IF r.early THEN Fail(M1, "manager told of the closure before the protocols")
         ELSE M1
    [] s.a = "drop" ->
         \* the connection task is gone: requests it had read (or that were still queued)
         \* and not answered are excused
         LET unread == {r.unread[i].id : i \in 1..Len(r.unread)} IN
         [M EXCEPT !.req = [i \in DOMAIN @ |->
              IF (@[i].at = s.c \/ i \in unread) /\ @[i].st = "open" /\ @[i].rep = "none"
                THEN [@[i] EXCEPT !.st = "lost", !.at = s.c] ELSE @[i]]]
    [] s.a = "poll" -> MonYield(M, s.q, r)
    [] s.a = "expire" -> IF r.k = "ok" THEN MonYield(M, s.q, r.pev) ELSE M
    [] s.a = "open" ->
         IF r.k # "ok" THEN
              \* usability probe (only issued by the harness when ONE fresh connection to the peer is up, the
              \* protocol has consumed everything and nothing was downgraded since): "while a peer is
              \* connected a request to open a substream is accepted"
              IF "probe" \in DOMAIN s /\ s.probe /\ InScope(M, s.p)
                THEN Fail(M, "open_substream refused although a fresh connection to the peer is up")
                ELSE M
         ELSE IF r.id \in M.ids THEN Fail(M, "substream identifier reused")
         ELSE [M EXCEPT !.ids = @ \cup {r.id},
                        !.req = (r.id :> [q |-> s.q, p |-> s.p, st |-> "open", rep |-> "none", at |-> 0]) @@ @]
    [] s.a = "cmd" ->
         IF r.k # "open" THEN M
         ELSE IF r.id \notin DOMAIN M.req THEN Fail(M, "connection got an open request nobody made")
         ELSE LET x == M.req[r.id] IN
              IF x.at # 0 THEN Fail(M, "open request delivered twice")
              ELSE IF x.q # r.q THEN Fail(M, "open request names another protocol")
              ELSE IF ~(s.c \in DOMAIN M.ests /\ M.ests[s.c].p = x.p)
                THEN Fail(M, "open request sent to a connection of another peer")
              ELSE [M EXCEPT !.req[r.id].at = s.c]
    [] s.a = "reply" ->
         IF r.k = "ok" /\ s.id \in DOMAIN M.req
           THEN [M EXCEPT !.req[s.id].rep = IF s.ok THEN "ok" ELSE "fail"]
           ELSE M
    [] s.a = "inbound" ->
         IF r.k = "ok" THEN [M EXCEPT !.inb = (<<s.q, s.p>> :> (Inb(M, s.q, s.p) + 1)) @@ @] ELSE M
    [] s.a = "deliver" ->
         \* a report call that was suspended on a full protocol inbox has completed
         IF r.k # "ok" THEN M
         ELSE IF s.what = "reply" THEN
              IF s.id \in DOMAIN M.req THEN [M EXCEPT !.req[s.id].rep = IF s.ok THEN "ok" ELSE "fail"] ELSE M
         ELSE IF s.what = "inbound" THEN [M EXCEPT !.inb = (<<s.q, s.p>> :> (Inb(M, s.q, s.p) + 1)) @@ @]
         ELSE M     \* a suspended report_connection_established completed
    [] s.a = "dropproto" ->
         \* the user dropped protocol q: nobody observes for it any more, its requests are void
         [M EXCEPT !.conn = {x \in @ : x[1] # s.q},
                   !.req = [i \in DOMAIN @ |-> IF @[i].q = s.q /\ @[i].st = "open" THEN [@[i] EXCEPT !.st = "void"] ELSE @[i]]]
    [] OTHER -> M    \* fclose

\* nothing is in flight: every inbox is empty, every live connection has read all its commands
\* and answered every request it read, every closed connection task is gone
MonQuiesce(M) ==
  IF M.off THEN M
  ELSE IF \E i \in DOMAIN M.req : M.req[i].st = "open" /\ M.req[i].rep = "none"
    THEN Fail(M, "accepted open request never answered although its connection is alive")
  ELSE IF \E i \in DOMAIN M.req : M.req[i].st \in {"open", "lost"} /\ M.req[i].rep # "none"
    THEN Fail(M, "the connection's answer never reached the protocol")
  ELSE M

-----------------------------------------------------------------------------
(* Real-network executions (two litep2p nodes over loopback TCP, public API only): the      *)
(* observer is one node; connection-side steps are invisible, so an answer can only be       *)
(* matched against the request (not against what the connection reported) and a request is   *)
(* excused when the protocol saw the peer closed after it, or when the driver was about to    *)
(* terminate a connection of that peer (`nterm`).                                            *)
Excuse(M, Which(_, _)) ==
  [M EXCEPT !.req = [i \in DOMAIN @ |-> IF @[i].st = "open" /\ Which(i, @[i]) THEN [@[i] EXCEPT !.st = "lost"] ELSE @[i]]]

NetYield(M, q, e) ==
  CASE e.k = "est" ->
         IF Connected(M, q, e.p) THEN Fail(M, "established reported twice without closed")
         ELSE [M EXCEPT !.conn = @ \cup {<<q, e.p>>}]
    [] e.k = "closed" ->
         IF ~Connected(M, q, e.p) THEN Fail(M, "closed reported without established")
         ELSE Excuse([M EXCEPT !.conn = @ \ {<<q, e.p>>}], LAMBDA i, x : x.q = q /\ x.p = e.p)
    [] e.k = "opened" /\ e.dirn = "in" ->
         IF ~Connected(M, q, e.p) THEN Fail(M, "substream event for a peer that is not connected") ELSE M
    [] e.k \in {"opened", "failed"} ->
         IF e.id \notin DOMAIN M.req THEN Fail(M, "answer for an identifier that was never returned")
         ELSE LET x == M.req[e.id] IN
              IF x.q # q THEN Fail(M, "answer delivered to another protocol")
              ELSE IF x.st \in {"opened", "failed"} THEN Fail(M, "open request answered twice")
              ELSE IF e.k = "opened" /\ e.p # x.p THEN Fail(M, "opened substream names another peer")
              ELSE LET M1 == [M EXCEPT !.req[e.id].st = e.k] IN
                   IF ~Connected(M, q, x.p) THEN Fail(M1, "substream event for a peer that is not connected") ELSE M1
    [] e.k = "terminated" -> Fail(M, "service event stream ended")
    [] OTHER -> M

NetStep(M, s, r, panic) ==
  IF M.off THEN M
  ELSE IF panic THEN Fail(M, "panic")
  ELSE
  CASE s.a = "nev" -> NetYield(M, s.q, r)
    [] s.a = "nopen" ->
         IF r.k # "ok" THEN M
         ELSE IF r.id \in M.ids THEN Fail(M, "substream identifier reused")
         ELSE [M EXCEPT !.ids = @ \cup {r.id},
                        !.req = (r.id :> [q |-> s.q, p |-> s.p, st |-> "open", rep |-> "none", at |-> 0]) @@ @]
    [] s.a = "nterm" -> Excuse(M, LAMBDA i, x : x.p = s.p)
    [] OTHER -> M

\* the driver waited (several times the substream open timeout) and terminated nothing meanwhile
NetQuiesce(M) ==
  IF M.off THEN M
  ELSE IF \E i \in DOMAIN M.req : M.req[i].st = "open"
    THEN Fail(M, "accepted open request never answered although its connection is alive")
  ELSE M

\* trace validation keeps going after a broken rule: it is reported once per execution
Forgive(M) == IF M.bad = "" THEN M ELSE [M EXCEPT !.bad = "", !.off = TRUE]
=============================================================================
