SPECIFICATION Spec
CONSTANTS
  Sizes = {0, 1, 2, 3, 4, 5}
  MaxQ = 5
  CB = 4
  CM = 8
  CO = 0
  CW = 0
  Presences = {"none", "under", "over"}
  SendOverLimitPresence = FALSE
INVARIANTS PropInv
PROPERTIES ExtractOK Progress
CHECK_DEADLOCK FALSE
