--------------------------- MODULE ReqRespBoundMC ---------------------------
(***************************************************************************)
(* Responder side of the request-response protocol with several requester  *)
(* peers (src/protocol/request_response/mod.rs: on_inbound_substream,      *)
(* pending_inbound_requests, on_inbound_request,                           *)
(* pending_outbound_responses), composed with the property monitor of      *)
(* ReqResp.tla.  ReqRespMC has one requesting node and shows a request to  *)
(* the responder's user in the step in which it is written; here the       *)
(* stages of an inbound request are explicit                               *)
(*    arriving -> reading (substream accepted, payload not read yet)       *)
(*             -> shown   (RequestReceived given to the user)              *)
(*             -> sending (user answered / rejected, future still running) *)
(* and the guard of on_inbound_substream counts                            *)
(*    pending_inbound_requests.len() + pending_outbound_responses.len()    *)
(* over ALL peers.  With PerPeer the requests still being read are counted *)
(* for the opening peer only (negative configuration of the self-test:     *)
(* the monitor's bound rule must be violated).                             *)
(***************************************************************************)
EXTENDS ReqResp

CONSTANTS Requesters,   \* requesting nodes, e.g. {1, 2}
          K,            \* requests per requester
          Bound,        \* max_concurrent_inbound_requests of the responder
          PerPeer       \* FALSE: the code; TRUE: the bound applied per remote peer

S == 9                                   \* the responding node
From(n) == n \div 10
Hq(n) == "q" \o ToString(n)
Ha(n) == "a" \o ToString(n)

VARIABLES nxt, arriving, reading, shown, sending, mon
bvars == <<nxt, arriving, reading, shown, sending, mon>>

BInit ==
  /\ nxt = [a \in Requesters |-> 0]
  /\ arriving = {} /\ reading = {} /\ shown = {} /\ sending = {}
  /\ mon = MonInit([x \in Requesters \cup {S} |-> IF x = S THEN Bound ELSE NoLimit])

\* a requester's user sends a request; its substream reaches the responder some time later
Issue(a) ==
  /\ nxt[a] < K
  /\ LET n == 10 * a + nxt[a] IN
     /\ mon' = MonIssued(MonIssue(mon, a, n, S, Hq(n)), a, n, nxt[a], TRUE)
     /\ arriving' = arriving \cup {n}
  /\ nxt' = [nxt EXCEPT ![a] = @ + 1]
  /\ UNCHANGED <<reading, shown, sending>>

\* on_inbound_substream
Inbound(n) ==
  /\ n \in arriving
  /\ arriving' = arriving \ {n}
  /\ LET beingRead == IF PerPeer THEN {m \in reading : From(m) = From(n)} ELSE reading
         count == Cardinality(beingRead) + Cardinality(shown \cup sending) IN
     reading' = IF Bound <= count THEN reading ELSE reading \cup {n}
  /\ UNCHANGED <<nxt, shown, sending, mon>>

\* pending_inbound_requests yields the payload: on_inbound_request shows it to the user
Read(n) ==
  /\ n \in reading
  /\ reading' = reading \ {n}
  /\ shown' = shown \cup {n}
  /\ mon' = MonRecv(mon, S, From(n), n, n, Hq(n))
  /\ UNCHANGED <<nxt, arriving, sending>>

\* ... or the substream breaks before the payload is complete
ReadFail(n) ==
  /\ n \in reading
  /\ reading' = reading \ {n}
  /\ UNCHANGED <<nxt, arriving, shown, sending, mon>>

\* the responder's user answers or rejects; the response future keeps its slot until it is done
Answer(n) ==
  /\ n \in shown
  /\ shown' = shown \ {n} /\ sending' = sending \cup {n}
  /\ mon' = MonAnswer(mon, S, n, Ha(n))
  /\ UNCHANGED <<nxt, arriving, reading>>
Reject(n) ==
  /\ n \in shown
  /\ shown' = shown \ {n} /\ sending' = sending \cup {n}
  /\ mon' = MonReject(mon, S, n)
  /\ UNCHANGED <<nxt, arriving, reading>>
Sent(n) ==
  /\ n \in sending
  /\ sending' = sending \ {n}
  /\ UNCHANGED <<nxt, arriving, reading, shown, mon>>

Nonces == {10 * a + i : a \in Requesters, i \in 0..(K - 1)}
BNext == \/ \E a \in Requesters : Issue(a)
         \/ \E n \in Nonces : Inbound(n) \/ Read(n) \/ ReadFail(n) \/ Answer(n) \/ Reject(n) \/ Sent(n)
BSpec == BInit /\ [][BNext]_bvars

\* the monitor's rule "more inbound requests outstanding than the configured bound" (counted over
\* all requesters), request-seen-once, payload provenance
BMonOK == mon.bad = ""
\* the same on the model state
BBoundOK == Cardinality(shown) <= Bound
=============================================================================
