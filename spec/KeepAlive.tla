------------------------------- MODULE KeepAlive -------------------------------
(***************************************************************************)
(* C09 - idle connections close after the keep-alive timeout, busy ones    *)
(* are kept.  Property-level monitor over timed observations of ONE node   *)
(* (the node whose keep-alive timeout T is under test):                    *)
(*   est(s, t0, t1)        connection s: t0 stamped before the dial began, *)
(*                         t1 after the node reported it established       *)
(*   open_begin(s, t, rem) a keep-alive protocol opens a substream (stamped *)
(*                         BEFORE the call; rem: the remote opens it)      *)
(*   open_ok(s, t, tb, rem) ... it exists now (stamped after; tb = begin)  *)
(*   open_fail(s, t)       ... the open ended without a substream          *)
(*   drop_begin(s, t)      the holder is about to drop it (stamped before) *)
(*   drop_done(s, t)       it is gone (stamped after)                      *)
(*   closed(s, t, by)      the connection ended; t stamped AFTER the end   *)
(*                         was noticed; by = "self" when the node under    *)
(*                         test ended it (nothing else can but idleness:   *)
(*                         no fault is injected, the remote's timeout is   *)
(*                         long), anything else is not judged              *)
(*   check(s, t)           the driver looked at time t                     *)
(* All times are integers (milliseconds for real runs, ticks*1000 in the   *)
(* model).  Stamping activity before and the close after means NotBefore   *)
(* can only err on the lenient side; Eventually has `slack`.               *)
(*                                                                         *)
(* Reading of the statement (most liberal): `activity` for NotBefore is    *)
(* the opening of a keep-alive substream (establishment counts as one);    *)
(* while a keep-alive substream exists or is being opened the connection   *)
(* is never closed by idleness; once nothing exists or is being opened and *)
(* T has elapsed since the end of the last activity (incl. the end of a    *)
(* hold) the connection must be closed within `slack`.  With Strict the    *)
(* end of a hold also counts as activity for NotBefore (the literal        *)
(* reading "T after the last such activity"); the code closes as soon as   *)
(* the last substream is dropped if T has elapsed since the last open, so  *)
(* Strict is reported as a note only.                                      *)
(***************************************************************************)
EXTENDS Naturals, Integers, Sequences, FiniteSets, TLC

Max2(a, b) == IF a >= b THEN a ELSE b

MonInit(T, slack, strict) == [T |-> T, slack |-> slack, strict |-> strict, c |-> <<>>, bad |-> "", bads |-> ""]

NewConn(t0, t1) == [lastAct |-> t0, idleSince |-> t1, held |-> 0, opening |-> 0, dropping |-> 0, ropening |-> 0, closed |-> FALSE, judged |-> TRUE]

Fail(M, s, why) == IF M.bad = "" THEN [M EXCEPT !.bad = why, !.bads = s] ELSE M

Known(M, r) == r.s \in DOMAIN M.c /\ M.c[r.s].judged

MonEv(M, r) ==
  IF r.e = "est" THEN [M EXCEPT !.c = (r.s :> NewConn(r.t0, r.t1)) @@ @]
  ELSE IF r.e \notin {"open_begin", "open_ok", "open_fail", "open_clogged", "drop_begin", "drop_done", "closed", "check"} THEN M
  ELSE IF ~Known(M, r) THEN M
  ELSE LET s == r.s c == M.c[s] IN
  \* a local open call that was accepted is activity at once and the substream "is being opened" from then
  \* on; an open by the remote is only known to have reached the node when it succeeded (tb = the stamp
  \* taken before the remote's call), so it counts neither as activity nor as "being opened" before
  \* (while it is unresolved the node may or may not hold a permit for it: Eventually is not judged)
  CASE r.e = "open_begin" -> IF r.rem THEN [M EXCEPT !.c[s].ropening = @ + 1]
                             ELSE [M EXCEPT !.c[s].opening = @ + 1, !.c[s].lastAct = Max2(@, r.t)]
    [] r.e = "open_ok"    -> IF r.rem THEN [M EXCEPT !.c[s].ropening = @ - 1, !.c[s].held = @ + 1, !.c[s].lastAct = Max2(@, r.tb)]
                             ELSE [M EXCEPT !.c[s].opening = @ - 1, !.c[s].held = @ + 1]
    [] r.e = "open_fail"  -> IF r.rem THEN [M EXCEPT !.c[s].ropening = @ - 1, !.c[s].idleSince = Max2(@, r.t)]
                             ELSE [M EXCEPT !.c[s].opening = @ - 1, !.c[s].idleSince = Max2(@, r.t)]
    \* an open call refused because the command channel is full: not an accepted open (no NotBefore
    \* obligation), but the code may restart its timer, so the Eventually clock restarts
    [] r.e = "open_clogged" -> [M EXCEPT !.c[s].idleSince = Max2(@, r.t)]
    \* between drop_begin and drop_done the substream may or may not exist any more
    [] r.e = "drop_begin" -> [M EXCEPT !.c[s].held = @ - 1, !.c[s].dropping = @ + 1,
                                       !.c[s].lastAct = IF M.strict THEN Max2(@, r.t) ELSE @]
    [] r.e = "drop_done"  -> [M EXCEPT !.c[s].dropping = @ - 1, !.c[s].idleSince = Max2(@, r.t)]
    [] r.e = "closed" ->
         IF c.closed THEN M
         ELSE IF r.by # "self" THEN [M EXCEPT !.c[s].closed = TRUE, !.c[s].judged = FALSE]
         ELSE LET M1 == [M EXCEPT !.c[s].closed = TRUE] IN
              IF c.held + c.opening > 0
                THEN Fail(M1, s, "closed by idleness while a keep-alive substream exists or is being opened")
              ELSE IF r.t - c.lastAct < M.T
                THEN Fail(M1, s, "closed earlier than the keep-alive timeout after the last keep-alive activity")
              ELSE IF c.dropping = 0 /\ c.ropening = 0 /\ r.t - c.idleSince > M.T + M.slack
                THEN Fail(M1, s, "closed later than the keep-alive timeout plus slack after the connection became idle")
              ELSE M1
    [] r.e = "check" ->
         IF ~c.closed /\ c.held = 0 /\ c.opening = 0 /\ c.dropping = 0 /\ c.ropening = 0 /\ r.t - c.idleSince > M.T + M.slack
           THEN Fail(M, s, "idle connection still open after the keep-alive timeout plus slack")
           ELSE M
    [] OTHER -> M

\* report once per connection, keep judging the others
Forgive(M) == IF M.bad = "" THEN M ELSE [M EXCEPT !.bad = "", !.bads = "", !.c[M.bads].judged = FALSE]
-----------------------------------------------------------------------------
(***************************************************************************)
(* Part 2 - unit level: handle discipline of the real TransportService     *)
(* (driven through litep2p::verif::svc::ServiceHarness, harness bin        *)
(* `kasvc`; time is scripted: an `expire` step lets the keep-alive timeout *)
(* of one (protocol, connection) pair elapse and polls the service).       *)
(* Every recorded step carries the projection after the step:              *)
(*   proj = sequence of [k |-> "<protocol>:<connection>", act |-> the      *)
(*          protocol's handle is Active, trk |-> the tracker has an entry] *)
(* Rules (the idle mechanism can only close a connection once every        *)
(* protocol released its handle, so "idle => eventually closed" needs):    *)
(*  - once the keep-alive of a connection expired in protocol q while q    *)
(*    was not opening a keep-alive substream on it, and q made no accepted *)
(*    open and saw no opened substream since, q's handle is Inactive at    *)
(*    the latest after the next expiry;                                    *)
(*  - busy ones are kept: an accepted open / an opened substream of a      *)
(*    keep-alive protocol leaves the handle Active, and a handle is only   *)
(*    released by an expiry (or the end of the connection);                *)
(*  - at the end (everything answered, two expiry rounds) nothing holds    *)
(*    the connection: its command channel reports "all senders gone".      *)
(***************************************************************************)
Get(f, k, d) == IF k \in DOMAIN f THEN f[k] ELSE d
Put(f, k, v) == (k :> v) @@ f

SvcInit == [act |-> <<>>, opening |-> <<>>, strike |-> <<>>, taint |-> {}, bad |-> "", badk |-> ""]

SvcFail(M, k, why) == IF M.bad = "" /\ k \notin M.taint THEN [M EXCEPT !.bad = why, !.badk = k] ELSE M

ProjAct(P) == [k \in {P[i].k : i \in 1..Len(P)} |-> \E i \in 1..Len(P) : P[i].k = k /\ P[i].act]

SvcEv(M, r) ==
  IF r.e # "u" THEN M
  ELSE
  LET now == ProjAct(r.proj)
      \* a handle that was Active before the step and is Inactive after it
      released == {k \in DOMAIN M.act \cap DOMAIN now : M.act[k] /\ ~now[k]}
      M0 == IF r.a \notin {"expire", "close", "final"} /\ released # {}
              THEN SvcFail(M, CHOOSE k \in released : TRUE, "handle released without a keep-alive expiry")
              ELSE M
      k == r.key
      isAct == k \in DOMAIN now /\ now[k]
      M1 ==
        CASE r.a = "open" /\ r.ok ->
               LET X == [M0 EXCEPT !.opening = Put(@, k, Get(@, k, 0) + 1), !.strike = Put(@, k, FALSE)] IN
               IF r.ka /\ ~isAct THEN SvcFail(X, k, "accepted open of a keep-alive protocol left its handle Inactive") ELSE X
          [] r.a \in {"opened", "inbound"} /\ r.ok ->
               LET X == [M0 EXCEPT !.opening = IF r.a = "opened" THEN Put(@, k, Get(@, k, 1) - 1) ELSE @,
                                   !.strike = IF r.ka THEN Put(@, k, FALSE) ELSE @] IN
               IF r.ka /\ ~isAct THEN SvcFail(X, k, "opened substream of a keep-alive protocol left its handle Inactive") ELSE X
          [] r.a = "failed" /\ r.ok -> [M0 EXCEPT !.opening = Put(@, k, Get(@, k, 1) - 1)]
          [] r.a = "expire" ->
               IF Get(M0.opening, k, 0) > 0 THEN M0
               ELSE IF ~isAct THEN [M0 EXCEPT !.strike = Put(@, k, FALSE)]
               ELSE IF Get(M0.strike, k, FALSE)
                 THEN SvcFail(M0, k, "handle still Active after two keep-alive expiries without keep-alive activity")
               ELSE [M0 EXCEPT !.strike = Put(@, k, TRUE)]
          [] r.a = "final" ->
               IF ~r.closed THEN SvcFail(M0, k, "idle connection still held open after everything was released") ELSE M0
          [] OTHER -> M0
  IN [M1 EXCEPT !.act = now]

SvcForgive(M) == IF M.bad = "" THEN M ELSE [M EXCEPT !.bad = "", !.badk = "", !.taint = @ \cup {M.badk}]
=============================================================================
