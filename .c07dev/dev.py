import sys, os, json
sys.path.insert(0, "/verif/tools")
import vlib, c07
tier = sys.argv[1] if len(sys.argv) > 1 else "quick"
ctx = vlib.Ctx("C07dev", tier, int(os.environ.get("VERIF_SEED", "1")))
gen = []
if "gen" in sys.argv:
    gen, st = c07.generate(ctx, 40)
    print("GEN", {k: st[k] for k in st if k != "out"})
scs = c07.scenarios(ctx, gen)
if len(sys.argv) > 2 and sys.argv[2] not in ("gen",):
    scs = [s for s in scs if sys.argv[2] in s["name"]]
print(len(scs), "scenarios")
import time
t = time.time()
summ, lines = c07.run_net(ctx, scs)
print("harness %.0fs" % (time.time() - t), {k: summ[k] for k in summ if k != "event_kinds"})
t = time.time()
nseg, nev, rej = vlib.validate_all(ctx, "ConnLifeNetTrace.tla", "ConnLifeNetTrace.cfg", lines)
print("validate %.0fs" % (time.time() - t), nseg, nev, len(rej))
cnt = {}
for r in rej:
    sig = c07.classify(r[0], r[1], r.reason)
    nm = json.loads(r[0][0])["sc"]; k = ("tlc" if nm.startswith("tlc-") else nm.split("-at-")[0], r.reason, sig)
    cnt[k] = cnt.get(k, 0) + 1
for k, v in sorted(cnt.items()):
    print(v, k)
fam = {}
for ln in lines:
    if '"e":"reset"' in ln:
        n = json.loads(ln)["sc"]; fam[n] = fam.get(n, 0) + 1
open("/verif/.c07dev/last.ndjson", "w").write("\n".join(lines) + "\n")
