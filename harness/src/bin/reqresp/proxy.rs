//! In-harness TCP proxy: the requester knows the responder under the proxy's address, the proxy
//! forwards bytes both ways and can cut the connection after an exact number of forwarded bytes
//! in one direction ("up" = dialer -> listener, "down" = listener -> dialer), cut it at once, or
//! swallow everything (black hole: the dialer's connection-open timeout has to fire).
use std::sync::{
    atomic::{AtomicBool, AtomicI64, AtomicU64, Ordering},
    Arc, Mutex,
};
use tokio::{
    io::{AsyncReadExt, AsyncWriteExt},
    net::{TcpListener, TcpStream},
    sync::Notify,
    task::AbortHandle,
};

pub struct Ctl {
    /// remaining bytes until the cut in each direction; negative = not armed
    pub cut_up: AtomicI64,
    pub cut_down: AtomicI64,
    pub blackhole: AtomicBool,
    /// nothing is forwarded while set, the connection stays open
    pub frozen: AtomicBool,
    /// remaining bytes until the link freezes by itself (per direction); negative = not armed
    pub freeze_up: AtomicI64,
    pub freeze_down: AtomicI64,
    pub cuts_done: AtomicU64,
    pub bytes_up: AtomicU64,
    pub bytes_down: AtomicU64,
    gen: AtomicU64,
    kick: Notify,
    tasks: Mutex<Vec<AbortHandle>>,
}

pub struct Proxy {
    pub port: u16,
    pub ctl: Arc<Ctl>,
    accept: AbortHandle,
}

impl Proxy {
    pub async fn start(target_port: u16, blackhole: bool) -> std::io::Result<Proxy> {
        let l = TcpListener::bind("127.0.0.1:0").await?;
        let port = l.local_addr()?.port();
        let ctl = Arc::new(Ctl {
            cut_up: AtomicI64::new(-1),
            cut_down: AtomicI64::new(-1),
            blackhole: AtomicBool::new(blackhole),
            frozen: AtomicBool::new(false),
            freeze_up: AtomicI64::new(-1),
            freeze_down: AtomicI64::new(-1),
            cuts_done: AtomicU64::new(0),
            bytes_up: AtomicU64::new(0),
            bytes_down: AtomicU64::new(0),
            gen: AtomicU64::new(0),
            kick: Notify::new(),
            tasks: Mutex::new(Vec::new()),
        });
        let c = ctl.clone();
        let accept = tokio::spawn(async move {
            loop {
                let Ok((s, _)) = l.accept().await else { break };
                let _ = s.set_nodelay(true);
                let c2 = c.clone();
                let h = tokio::spawn(async move { serve(s, target_port, c2).await });
                c.tasks.lock().unwrap().push(h.abort_handle());
            }
        })
        .abort_handle();
        Ok(Proxy { port, ctl, accept })
    }

    /// cut every open connection now
    pub fn cut_now(&self) {
        self.ctl.cut_now()
    }

    pub fn stop(&self) {
        self.accept.abort();
        for h in self.ctl.tasks.lock().unwrap().drain(..) {
            h.abort();
        }
    }
}

impl Ctl {
    pub fn arm(&self, up: bool, after: i64) {
        if up { &self.cut_up } else { &self.cut_down }.store(after, Ordering::SeqCst);
    }
    /// freeze the link after `after` more bytes were forwarded in the given direction
    pub fn arm_freeze(&self, up: bool, after: i64) {
        if up { &self.freeze_up } else { &self.freeze_down }.store(after, Ordering::SeqCst);
    }
    pub fn freeze(&self, on: bool) {
        self.frozen.store(on, Ordering::SeqCst);
        self.kick.notify_waiters();
    }
    pub fn cut_now(&self) {
        self.gen.fetch_add(1, Ordering::SeqCst);
        self.cuts_done.fetch_add(1, Ordering::SeqCst);
        self.kick.notify_waiters();
    }
}

async fn serve(client: TcpStream, target_port: u16, ctl: Arc<Ctl>) {
    let my_gen = ctl.gen.load(Ordering::SeqCst);
    if ctl.blackhole.load(Ordering::SeqCst) {
        // swallow whatever the dialer sends, never answer
        let mut c = client;
        let mut buf = [0u8; 4096];
        loop {
            let kicked = ctl.kick.notified();
            tokio::pin!(kicked);
            kicked.as_mut().enable();
            if ctl.gen.load(Ordering::SeqCst) != my_gen {
                return;
            }
            tokio::select! {
                r = c.read(&mut buf) => match r { Ok(0) | Err(_) => return, Ok(_) => {} },
                _ = &mut kicked => {},
            }
        }
    }
    let Ok(server) = TcpStream::connect(("127.0.0.1", target_port)).await else { return };
    let _ = server.set_nodelay(true);
    let (mut cr, mut cw) = client.into_split();
    let (mut sr, mut sw) = server.into_split();
    let up = pump(&mut cr, &mut sw, &ctl, true, my_gen);
    let down = pump(&mut sr, &mut cw, &ctl, false, my_gen);
    // either direction ending (EOF, error or cut) tears the whole connection down
    tokio::select! { _ = up => {}, _ = down => {} }
}

async fn pump(
    r: &mut tokio::net::tcp::OwnedReadHalf,
    w: &mut tokio::net::tcp::OwnedWriteHalf,
    ctl: &Ctl,
    up: bool,
    my_gen: u64,
) {
    let mut buf = vec![0u8; 8192];
    let (cut, bytes) = if up { (&ctl.cut_up, &ctl.bytes_up) } else { (&ctl.cut_down, &ctl.bytes_down) };
    loop {
        let kicked = ctl.kick.notified();
        tokio::pin!(kicked);
        kicked.as_mut().enable();
        if ctl.gen.load(Ordering::SeqCst) != my_gen {
            return;
        }
        let n = tokio::select! {
            r = r.read(&mut buf) => match r { Ok(0) | Err(_) => return, Ok(n) => n },
            _ = &mut kicked => { continue }
        };
        // armed freeze: forward exactly the remaining bytes, then hold the rest of this chunk
        let fz = if up { &ctl.freeze_up } else { &ctl.freeze_down };
        let frem = fz.load(Ordering::SeqCst);
        let mut start = 0usize;
        if frem >= 0 {
            if (n as i64) >= frem {
                if w.write_all(&buf[..frem as usize]).await.is_err() {
                    return;
                }
                let _ = w.flush().await;
                bytes.fetch_add(frem as u64, Ordering::SeqCst);
                start = frem as usize;
                fz.store(-1, Ordering::SeqCst);
                ctl.frozen.store(true, Ordering::SeqCst);
            } else {
                fz.store(frem - n as i64, Ordering::SeqCst);
            }
        }
        // frozen: hold the bytes until the link is thawed or cut
        loop {
            let kicked = ctl.kick.notified();
            tokio::pin!(kicked);
            kicked.as_mut().enable();
            if ctl.gen.load(Ordering::SeqCst) != my_gen {
                return;
            }
            if !ctl.frozen.load(Ordering::SeqCst) {
                break;
            }
            kicked.await;
        }
        let n = n - start;
        let chunk = &buf[start..start + n];
        let rem = cut.load(Ordering::SeqCst);
        if rem >= 0 && (n as i64) >= rem {
            // forward exactly `rem` more bytes, then cut
            let _ = w.write_all(&chunk[..rem as usize]).await;
            let _ = w.flush().await;
            bytes.fetch_add(rem as u64, Ordering::SeqCst);
            cut.store(-1, Ordering::SeqCst);
            ctl.cuts_done.fetch_add(1, Ordering::SeqCst);
            return;
        }
        if rem >= 0 {
            cut.store(rem - n as i64, Ordering::SeqCst);
        }
        if w.write_all(chunk).await.is_err() {
            return;
        }
        bytes.fetch_add(n as u64, Ordering::SeqCst);
    }
}
