----------------------------- MODULE ConnLifeNet -----------------------------
(***************************************************************************)
(* C07 - a terminated connection is reported closed to everyone exactly    *)
(* once.  Property-level monitor over what is observable through the       *)
(* public API of a litep2p node: the application event stream              *)
(* (Litep2pEvent::ConnectionEstablished / ConnectionClosed), the event     *)
(* stream of every user protocol (TransportEvent::ConnectionEstablished /  *)
(* ConnectionClosed), and the results of driver probes (substream echo =   *)
(* "a connection is alive", quiescence = "every TCP stream between the two *)
(* nodes is gone and the waiting time is over", redial).                   *)
(*                                                                         *)
(* The same operators drive the monitor variable of the implementation-    *)
(* shaped model (ConnLifeNetMC) and the validation of traces recorded from *)
(* real two-node networks (ConnLifeNetTrace).  It is the most liberal      *)
(* reading of the statement:                                               *)
(*  - per protocol and peer, established / closed alternate, starting with *)
(*    established (closed exactly once per established, never before it);  *)
(*  - the application sees every accepted connection announced once and    *)
(*    `closed` only while it holds an announced connection (then all are   *)
(*    gone);                                                               *)
(*  - an observer that was told `closed` (or was not told `established`)   *)
(*    is wrong if afterwards, without any new `established`, a substream   *)
(*    is carried between the two nodes (proof_begin .. proof_ok);          *)
(*  - at quiescence every running protocol and the application have been   *)
(*    told closed; afterwards a dial is accepted and attempted;            *)
(*  - a connection that the remote side reports established and that the   *)
(*    harness did not disturb must be reported to the application and to   *)
(*    every running protocol (new connections after a protocol shut down). *)
(* Events of different observers are ordered by the position at which they *)
(* were recorded in the shared scenario log; rules only rely on "recorded  *)
(* before the driver began ..." (see harness/src/bin/netcommon/mod.rs).    *)
(***************************************************************************)
EXTENDS Naturals, Sequences, FiniteSets, TLC

\* A, B: the two nodes of a real network; P1..P4: per-peer ledgers of one application (manager-level close bursts)
Nodes == {"A", "B", "P1", "P2", "P3", "P4"}
AllQ == {"q1", "q2", "q3"}

\* protos: [A |-> sequence of protocol names, B |-> ...]
SeqSet(s) == {s[i] : i \in 1..Len(s)}

MonInit(protos) ==
  [conns |-> [n \in Nodes |-> {}],          \* announced to the application, not yet closed
   ever  |-> [n \in Nodes |-> {}],          \* every connection id ever announced
   up    |-> [n \in Nodes |-> [q \in AllQ |-> FALSE]],
   run   |-> [n \in Nodes |-> IF n \in DOMAIN protos THEN SeqSet(protos[n]) ELSE {}],
   paused |-> [n \in Nodes |-> {}],
   alive |-> [n \in Nodes |-> TRUE],
   snapApp  |-> [n \in Nodes |-> FALSE],    \* at proof_begin the application held no connection
   snapDown |-> [n \in Nodes |-> {}],       \* protocols that held no connection at proof_begin
   snapIdle |-> [n \in Nodes |-> FALSE],    \* at redial_begin the application held no connection
   owed |-> [n \in Nodes |-> {}],          \* unit level: ids of accepted open_substream requests not yet answered
   ans  |-> [n \in Nodes |-> {}],          \* ... and of those answered (SubstreamOpened / SubstreamOpenFailure)
   taint |-> {},
   bad |-> "", badn |-> ""]

Fail(M, n, why) == IF M.bad = "" THEN [M EXCEPT !.bad = why, !.badn = n] ELSE M

Judged(M, n) == M.alive[n] /\ n \notin M.taint

MonEv(M, r) ==
  IF r.e = "kill" THEN [M EXCEPT !.alive[r.n] = FALSE]
  ELSE IF r.e \notin {"app_est", "app_closed", "p_est", "p_closed", "p_exit", "p_none", "pause", "resume",
                      "proof_begin", "proof_ok", "quiesce", "redial_begin", "redial", "newconn", "snap",
                      "open_call", "sub_out", "sub_fail", "answers_due"} THEN M
  ELSE IF ~Judged(M, r.n) THEN M
  ELSE LET n == r.n IN
  CASE r.e = "app_est" ->
         IF r.cid \in M.ever[n] THEN Fail(M, n, "connection announced to the application twice")
         ELSE [M EXCEPT !.conns[n] = @ \cup {r.cid}, !.ever[n] = @ \cup {r.cid}, !.snapApp[n] = FALSE]
    [] r.e = "app_closed" ->
         IF M.conns[n] = {} THEN Fail(M, n, "application told closed without a matching established")
         ELSE IF r.cid \notin M.conns[n] THEN Fail(M, n, "closed names a connection that is not open")
         ELSE [M EXCEPT !.conns[n] = {}]
    [] r.e = "p_est" ->
         IF M.up[n][r.q] THEN Fail(M, n, "protocol told established twice without closed in between")
         ELSE [M EXCEPT !.up[n][r.q] = TRUE, !.snapDown[n] = @ \ {r.q}]
    [] r.e = "p_closed" ->
         IF ~M.up[n][r.q] THEN Fail(M, n, "protocol told closed without a matching established")
         ELSE [M EXCEPT !.up[n][r.q] = FALSE, !.owed[n] = {}]    \* the connection ended: open requests are excused
    \* unit level (connection harness), C08: an accepted open_substream id is answered exactly once while the
    \* connection stays up
    [] r.e = "open_call" -> IF r.id >= 0 THEN [M EXCEPT !.owed[n] = @ \cup {r.id}] ELSE M
    [] r.e \in {"sub_out", "sub_fail"} ->
         IF r.id \in M.ans[n] THEN Fail(M, n, "substream open request answered twice")
         ELSE IF r.id \in M.owed[n] THEN [M EXCEPT !.owed[n] = @ \ {r.id}, !.ans[n] = @ \cup {r.id}]
         ELSE M     \* no recorded open_call for this id (real-network logs do not record the calls)
    [] r.e = "answers_due" ->
         IF r.alive /\ M.owed[n] # {} THEN Fail([M EXCEPT !.owed[n] = {}], n, "accepted open request neither opened nor failed while the connection stayed up")
         ELSE M
    [] r.e \in {"p_exit", "p_none"} -> [M EXCEPT !.run[n] = @ \ {r.q}, !.snapDown[n] = @ \ {r.q}]
    [] r.e = "pause" -> [M EXCEPT !.paused[n] = @ \cup {r.q}]
    [] r.e = "resume" -> [M EXCEPT !.paused[n] = @ \ {r.q}]
    [] r.e = "proof_begin" ->
         [M EXCEPT !.snapApp[n] = (M.conns[n] = {}),
                   !.snapDown[n] = {q \in M.run[n] \ M.paused[n] : ~M.up[n][q]}]
    [] r.e = "proof_ok" ->
         IF M.snapApp[n] THEN Fail(M, n, "application holds no connection while one carries traffic")
         ELSE IF M.snapDown[n] \ M.paused[n] # {} THEN Fail(M, n, "running protocol holds no connection while one carries traffic")
         ELSE M
    [] r.e = "quiesce" ->
         \* the driver resumed every paused protocol before waiting
         LET M1 == [M EXCEPT !.paused[n] = {}] IN
         IF M.conns[n] # {} THEN Fail(M1, n, "silence: application never told that the connection closed")
         ELSE IF \E q \in M.run[n] : M.up[n][q] THEN Fail(M1, n, "silence: running protocol never told that the connection closed")
         ELSE M1
    \* unit level (connection harness): state of the inboxes / manager channel between two polls of the
    \* connection task - protocols are told before the manager
    [] r.e = "snap" ->
         IF r.mgr /\ Len(r.untold) > 0 THEN Fail(M, n, "manager told closed before a running protocol") ELSE M
    [] r.e = "redial_begin" -> [M EXCEPT !.snapIdle[n] = (M.conns[n] = {})]
    [] r.e = "redial" ->
         \* judged only when no earlier dial of this node was still unresolved (r.clean)
         \* and the application held no connection when the probe began (the new connection may already
         \* be announced when the probe's outcome is recorded)
         IF r.clean /\ M.snapIdle[n] /\ ~(r.ok /\ r.attempted) THEN Fail(M, n, "peer cannot be dialed again after the connection closed")
         ELSE M
    [] r.e = "newconn" ->
         IF ~r.must THEN M
         ELSE IF ~r.app THEN Fail(M, n, "new connection not reported to the application")
         ELSE IF \E q \in M.run[n] \ M.paused[n] : ~M.up[n][q] THEN Fail(M, n, "new connection not reported to a running protocol")
         ELSE M
    [] OTHER -> M

\* a broken rule is reported once; the node whose bookkeeping can no longer be trusted is not
\* judged any further in this execution, so one defect does not hide independent ones elsewhere
Forgive(M) == IF M.bad = "" THEN M ELSE [M EXCEPT !.bad = "", !.badn = "", !.taint = @ \cup {M.badn}]
=============================================================================
