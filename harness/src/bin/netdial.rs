//! C05 over the real transports (TCP, WebSocket, QUIC; one kind or a mix per world): small networks of real `Litep2p` nodes on loopback, driven
//! through the public API under a schedule-perturbing executor. Every node logs its commands
//! (with return values) and the events it reports; TLC validates each node's log against
//! `spec/NetDial.tla` (one outcome per accepted dial, no duplicate failure, no silence at
//! quiescence, redial works).
use futures::Future;
use litep2p::{
    config::ConfigBuilder,
    crypto::ed25519::Keypair,
    executor::Executor,
    transport::{
        quic::config::Config as QuicConfig, tcp::config::Config as TcpConfig, websocket::config::Config as WsConfig,
        ConnectionLimitsConfig,
    },
    Litep2p, Litep2pEvent, PeerId,
};
use multiaddr::{Multiaddr, Protocol};
use rand::{rngs::StdRng, Rng, SeedableRng};
use serde_json::{json, Value};
use std::{
    collections::HashMap,
    pin::Pin,
    sync::{
        atomic::{AtomicU64, Ordering},
        Arc, Mutex,
    },
    task::{Context, Poll},
    time::Duration,
};
use tokio::sync::mpsc;
use vharness::*;

// ------------------------------------------------------------------ schedule-perturbing executor

struct Perturb {
    inner: Pin<Box<dyn Future<Output = ()> + Send>>,
    state: u64,
}
impl Future for Perturb {
    type Output = ();
    fn poll(mut self: Pin<&mut Self>, cx: &mut Context<'_>) -> Poll<()> {
        // xorshift; yield first with probability 1/4
        let mut x = self.state;
        x ^= x << 13;
        x ^= x >> 7;
        x ^= x << 17;
        self.state = x;
        if x % 4 == 0 {
            cx.waker().wake_by_ref();
            return Poll::Pending;
        }
        self.inner.as_mut().poll(cx)
    }
}
struct PerturbExec {
    seed: AtomicU64,
}
impl Executor for PerturbExec {
    fn run(&self, future: Pin<Box<dyn Future<Output = ()> + Send>>) {
        let s = self.seed.fetch_add(0x9e3779b97f4a7c15, Ordering::Relaxed) | 1;
        tokio::spawn(Perturb { inner: future, state: s });
    }
    fn run_with_name(&self, _: &'static str, future: Pin<Box<dyn Future<Output = ()> + Send>>) {
        self.run(future)
    }
}

// ------------------------------------------------------------------ node task

enum Cmd {
    DialAddr(Multiaddr, String, String), // address, abstract address name, abstract peer name
    Dial(PeerId, String),
    AddKnown(PeerId, Vec<Multiaddr>),
    /// the application is busy: the node's task (which polls the manager and, through it, the
    /// transports) does not run for this many milliseconds
    Stall(u64),
    Stop,
}

type Log = Arc<Mutex<Vec<Value>>>;

fn classify(r: &litep2p::Result<()>) -> (String, &'static str) {
    match r {
        Ok(()) => ("ok".into(), "ok"),
        Err(litep2p::Error::AlreadyConnected) => ("err".into(), "connected"),
        Err(litep2p::Error::ConnectionLimit(_)) => ("err".into(), "limit"),
        Err(e) => (format!("err:{e:?}").chars().take(60).collect(), "other"),
    }
}

async fn node_task(mut node: Litep2p, mut rx: mpsc::Receiver<Cmd>, log: Log, names: Arc<Mutex<HashMap<PeerId, String>>>, anames: Arc<Mutex<HashMap<Multiaddr, String>>>) {
    let pn = |p: &PeerId| names.lock().unwrap().get(p).cloned().unwrap_or_else(|| "x".into());
    let an = |a: &Multiaddr| anames.lock().unwrap().get(a).cloned().unwrap_or_else(|| a.to_string());
    let peer_of = |a: &Multiaddr| match a.iter().last() {
        Some(Protocol::P2p(h)) => PeerId::from_multihash(h).ok().map(|p| pn(&p)).unwrap_or_else(|| "x".into()),
        _ => "x".into(),
    };
    loop {
        tokio::select! {
            cmd = rx.recv() => match cmd {
                None | Some(Cmd::Stop) => break,
                Some(Cmd::DialAddr(a, aname, pname)) => {
                    let r = node.dial_address(a).await;
                    let (ret, retk) = classify(&r);
                    log.lock().unwrap().push(json!({"e": "cmd", "k": "dial_addr", "addr": aname, "peer": pname, "ret": ret, "retk": retk}));
                }
                Some(Cmd::Dial(p, pname)) => {
                    let r = node.dial(&p).await;
                    let (ret, retk) = classify(&r);
                    log.lock().unwrap().push(json!({"e": "cmd", "k": "dial", "peer": pname, "ret": ret, "retk": retk}));
                }
                Some(Cmd::Stall(ms)) => {
                    // the node (manager, transports) is not polled while this handler runs
                    tokio::time::sleep(Duration::from_millis(ms)).await;
                }
                Some(Cmd::AddKnown(p, addrs)) => {
                    let named: Vec<String> = addrs.iter().map(|a| an(a)).collect();
                    let n = node.add_known_address(p, addrs.into_iter());
                    log.lock().unwrap().push(json!({"e": "cmd", "k": "add_known", "peer": pn(&p), "addrs": named, "ret": format!("{n}")}));
                }
            },
            ev = node.next_event() => match ev {
                None => break,
                Some(Litep2pEvent::ConnectionEstablished { peer, endpoint }) =>
                    log.lock().unwrap().push(json!({"e": "ev", "k": "est", "peer": pn(&peer), "dir": if endpoint.is_listener() { "in" } else { "out" }})),
                Some(Litep2pEvent::ConnectionClosed { peer, .. }) =>
                    log.lock().unwrap().push(json!({"e": "ev", "k": "closed", "peer": pn(&peer)})),
                Some(Litep2pEvent::DialFailure { address, .. }) =>
                    log.lock().unwrap().push(json!({"e": "ev", "k": "dial_failure", "addrs": [an(&address)], "peers": [peer_of(&address)]})),
                Some(Litep2pEvent::ListDialFailures { errors }) =>
                    log.lock().unwrap().push(json!({"e": "ev", "k": "list_failures", "addrs": errors.iter().map(|(a, _)| an(a)).collect::<Vec<_>>(),
                        "peers": errors.iter().map(|(a, _)| peer_of(a)).collect::<Vec<_>>()})),
            }
        }
    }
}

// ------------------------------------------------------------------ dead endpoints

/// Returns (address, guard task). kinds: refused (closed port), blackhole (accepts, silent),
/// garbage (accepts, writes junk, closes). `tk` is the transport kind of the address: tcp, ws
/// (the same TCP endpoints behind a /ws address) or quic (UDP sockets).
async fn dead_endpoint(kind: &str, tk: &str) -> (Multiaddr, Option<tokio::task::JoinHandle<()>>) {
    if tk == "quic" {
        let u = tokio::net::UdpSocket::bind("127.0.0.1:0").await.unwrap();
        let port = u.local_addr().unwrap().port();
        let addr: Multiaddr = format!("/ip4/127.0.0.1/udp/{port}/quic-v1").parse().unwrap();
        return match kind {
            "refused" => {
                drop(u);
                (addr, None)
            }
            "blackhole" => (addr, Some(tokio::spawn(async move {
                let _keep = u;
                futures::future::pending::<()>().await;
            }))),
            _ => (addr, Some(tokio::spawn(async move {
                let mut buf = [0u8; 2048];
                loop {
                    if let Ok((_, from)) = u.recv_from(&mut buf).await {
                        let _ = u.send_to(b"\xff\xff\xff garbage, not a quic packet", from).await;
                    }
                }
            }))),
        };
    }
    let l = tokio::net::TcpListener::bind("127.0.0.1:0").await.unwrap();
    let port = l.local_addr().unwrap().port();
    let addr: Multiaddr = format!("/ip4/127.0.0.1/tcp/{port}{}", if tk == "ws" { "/ws" } else { "" }).parse().unwrap();
    match kind {
        "refused" => {
            drop(l);
            (addr, None)
        }
        "blackhole" => (addr, Some(tokio::spawn(async move {
            let mut keep = vec![];
            loop {
                if let Ok((s, _)) = l.accept().await {
                    keep.push(s);
                }
            }
        }))),
        _ => (addr, Some(tokio::spawn(async move {
            use tokio::io::AsyncWriteExt;
            loop {
                if let Ok((mut s, _)) = l.accept().await {
                    let _ = s.write_all(b"\x13/multistream/1.0.0\n\x07/nope\n\xff\xff\xff garbage").await;
                }
            }
        }))),
    }
}

// ------------------------------------------------------------------ one world

struct NodeH {
    name: String,
    peer: PeerId,
    /// listen address (with /p2p) and its abstract name, per transport kind tcp / ws / quic
    addrs: Vec<(Multiaddr, String)>,
    tx: mpsc::Sender<Cmd>,
    log: Log,
    task: tokio::task::JoinHandle<()>,
}

/// Scheduling-lag canary: a timer task that records how late its 50 ms ticks fire. If the runtime
/// was starved for more than 400 ms at any point the world is not judged (an outcome could have
/// been delayed past the quiet period by load, not by litep2p).
fn canary() -> (Arc<AtomicU64>, tokio::task::JoinHandle<()>) {
    let worst = Arc::new(AtomicU64::new(0));
    let w2 = worst.clone();
    let h = tokio::spawn(async move {
        loop {
            let t = std::time::Instant::now();
            tokio::time::sleep(Duration::from_millis(50)).await;
            let late = t.elapsed().as_millis().saturating_sub(50) as u64;
            w2.fetch_max(late, Ordering::Relaxed);
        }
    });
    (worst, h)
}

async fn run_world(w: usize, seed: u64, steps: usize) -> Vec<String> {
    let mut rng = StdRng::seed_from_u64(seed);
    // transport kind of the world: one transport only, or every dial picks one
    let tk = ["tcp", "tcp", "ws", "quic", "mix"][w % 5];
    let (lag, canary_task) = canary();
    let names = Arc::new(Mutex::new(HashMap::new()));
    let anames = Arc::new(Mutex::new(HashMap::new()));
    // half of the nodes have no outgoing limit: a silence there cannot be the known limit-rejection finding
    let lims = [(None, None), (Some(1), Some(1)), (Some(2), Some(1)), (Some(1), Some(2)), (None, Some(1)), (Some(0), None), (Some(2), None), (None, None)];
    let mut nodes: Vec<NodeH> = vec![];
    let mut cfgs = vec![];
    for i in 0..3 {
        let (mi, mo) = lims[rng.gen_range(0..lims.len())];
        let kp = Keypair::generate();
        let cfg = ConfigBuilder::new()
            .with_keypair(kp)
            .with_tcp(TcpConfig {
                listen_addresses: vec!["/ip4/127.0.0.1/tcp/0".parse().unwrap()],
                connection_open_timeout: Duration::from_millis(1000),
                substream_open_timeout: Duration::from_millis(1000),
                ..Default::default()
            })
            .with_websocket(WsConfig {
                listen_addresses: vec!["/ip4/127.0.0.1/tcp/0/ws".parse().unwrap()],
                connection_open_timeout: Duration::from_millis(1000),
                substream_open_timeout: Duration::from_millis(1000),
                ..Default::default()
            })
            .with_quic(QuicConfig {
                listen_addresses: vec!["/ip4/127.0.0.1/udp/0/quic-v1".parse().unwrap()],
                connection_open_timeout: Duration::from_millis(1000),
                substream_open_timeout: Duration::from_millis(1000),
                ..Default::default()
            })
            .with_connection_limits(ConnectionLimitsConfig::default().max_incoming_connections(mi).max_outgoing_connections(mo))
            .with_keep_alive_timeout(Duration::from_millis([300u64, 800, 5000][rng.gen_range(0..3)]))
            .with_executor(Arc::new(PerturbExec { seed: AtomicU64::new(seed ^ (i as u64 + 1) * 7919) }))
            .build();
        let node = Litep2p::new(cfg).unwrap();
        let peer = *node.local_peer_id();
        let name = format!("n{i}");
        names.lock().unwrap().insert(peer, name.clone());
        let mut addrs = vec![];
        for (suffix, pick) in [("a", "tcp"), ("w", "ws"), ("q", "quic")] {
            let a = node
                .listen_addresses()
                .find(|a| match pick {
                    "ws" => a.iter().any(|p| matches!(p, Protocol::Ws(_))),
                    "quic" => a.iter().any(|p| matches!(p, Protocol::QuicV1)),
                    _ => a.iter().any(|p| matches!(p, Protocol::Tcp(_))) && !a.iter().any(|p| matches!(p, Protocol::Ws(_))),
                })
                .unwrap_or_else(|| panic!("no {pick} listen address"))
                .clone();
            anames.lock().unwrap().insert(a.clone(), format!("{name}{suffix}"));
            addrs.push((a, format!("{name}{suffix}")));
        }
        let (tx, rx) = mpsc::channel(64);
        let log: Log = Arc::new(Mutex::new(vec![]));
        let task = tokio::spawn(node_task(node, rx, log.clone(), names.clone(), anames.clone()));
        cfgs.push(json!({"maxIn": mi.map(|x| x as i64).unwrap_or(-1), "maxOut": mo.map(|x| x as i64).unwrap_or(-1)}));
        nodes.push(NodeH { name, peer, addrs, tx, log, task });
    }
    // dead endpoints, each claimed for a ghost peer
    let mut dead = vec![];
    let mut guards = vec![];
    for (k, kind) in ["refused", "blackhole", "garbage"].iter().enumerate() {
        let dk = match tk {
            "mix" => ["tcp", "ws", "quic"][k % 3],
            t => t,
        };
        let (a, g) = dead_endpoint(kind, dk).await;
        let ghost = PeerId::random();
        let gname = format!("g{k}");
        names.lock().unwrap().insert(ghost, gname.clone());
        let full = a.with(Protocol::P2p(ghost.into()));
        anames.lock().unwrap().insert(full.clone(), format!("{gname}a"));
        dead.push((full, format!("{gname}a"), gname, ghost));
        if let Some(g) = g {
            guards.push(g);
        }
    }
    // the address (and its name) under which a live node is dialed in this world
    let kinds = move |rng: &mut StdRng| match tk {
        "tcp" => 0,
        "ws" => 1,
        "quic" => 2,
        _ => rng.gen_range(0..3),
    };
    let without_p2p = |a: &Multiaddr| -> Multiaddr { a.iter().filter(|p| !matches!(p, Protocol::P2p(_))).collect() };
    // scripted steps
    for _ in 0..steps {
        let i = rng.gen_range(0..3);
        let j = (i + rng.gen_range(1..3)) % 3;
        let sel = rng.gen_range(0..13);
        let adversarial = tk == "tcp" && matches!(sel, 5..=7) && rng.gen_bool(0.4);
        match sel {
            _ if adversarial => {
                // adversarial address of a live node: its port behind the unspecified IP, or port 0 behind its IP.
                // Whatever the transport makes of it (connects via loopback, fails at once, refuses the address),
                // the dial must end in an outcome and must not leave the peer stuck (the redial probe at the end
                // dials the real address)
                let zero_port = rng.gen_bool(0.5);
                let base = without_p2p(&nodes[j].addrs[0].0);
                let a: Multiaddr = base
                    .iter()
                    .map(|p| match p {
                        Protocol::Ip4(_) if !zero_port => Protocol::Ip4(std::net::Ipv4Addr::UNSPECIFIED),
                        Protocol::Tcp(_) if zero_port => Protocol::Tcp(0),
                        other => other,
                    })
                    .collect();
                let a = a.with(Protocol::P2p(nodes[j].peer.into()));
                let an = format!("{}{}", nodes[j].name, if zero_port { "z" } else { "u" });
                anames.lock().unwrap().insert(a.clone(), an.clone());
                let _ = nodes[i].tx.send(Cmd::DialAddr(a, an, nodes[j].name.clone())).await;
            }
            10..=12 => {
                // busy application: while node i does not poll, a raw inbound connection that fails its
                // handshake and the outcome of an outbound dial become ready together
                let (a, _) = nodes[i].addrs[kinds(&mut rng)].clone();
                let raw = without_p2p(&a);
                let port = raw.iter().find_map(|p| match p { Protocol::Tcp(p) | Protocol::Udp(p) => Some(p), _ => None }).unwrap();
                let udp = raw.iter().any(|p| matches!(p, Protocol::Udp(_)));
                let junk = rng.gen_bool(0.5);
                tokio::spawn(async move {
                    use tokio::io::AsyncWriteExt;
                    if udp {
                        if let Ok(u) = tokio::net::UdpSocket::bind("127.0.0.1:0").await {
                            let _ = u.send_to(&[0xc3u8; 1200], ("127.0.0.1", port)).await;
                        }
                    } else if let Ok(mut s) = tokio::net::TcpStream::connect(("127.0.0.1", port)).await {
                        if junk {
                            let _ = s.write_all(b"\x13/multistream/1.0.0\n\xff\xff junk").await;
                        }
                    }
                });
                let d = &dead[rng.gen_range(0..dead.len())];
                let _ = nodes[i].tx.send(Cmd::DialAddr(d.0.clone(), d.1.clone(), d.2.clone())).await;
                let _ = nodes[i].tx.send(Cmd::Stall([120u64, 250, 400][rng.gen_range(0..3)])).await;
            }
            0..=3 => {
                let (a, an) = nodes[j].addrs[kinds(&mut rng)].clone();
                let _ = nodes[i].tx.send(Cmd::DialAddr(a, an, nodes[j].name.clone())).await;
            }
            4 => {
                // simultaneous dial in both directions
                let (a, an) = nodes[j].addrs[kinds(&mut rng)].clone();
                let (b, bn) = nodes[i].addrs[kinds(&mut rng)].clone();
                let _ = nodes[i].tx.send(Cmd::DialAddr(a, an, nodes[j].name.clone())).await;
                let _ = nodes[j].tx.send(Cmd::DialAddr(b, bn, nodes[i].name.clone())).await;
            }
            5 | 6 => {
                let d = &dead[rng.gen_range(0..dead.len())];
                let _ = nodes[i].tx.send(Cmd::DialAddr(d.0.clone(), d.1.clone(), d.2.clone())).await;
            }
            7 => {
                // an address of a live node claimed for a ghost peer: handshake yields another identity
                let ghost = PeerId::random();
                names.lock().unwrap().insert(ghost, "gx".into());
                let base = without_p2p(&nodes[j].addrs[kinds(&mut rng)].0);
                let a = base.with(Protocol::P2p(ghost.into()));
                anames.lock().unwrap().insert(a.clone(), "gxa".into());
                let _ = nodes[i].tx.send(Cmd::DialAddr(a, "gxa".into(), "gx".into())).await;
            }
            _ => {
                // dial by peer id over several known addresses (dead ones first or last)
                let d = &dead[rng.gen_range(0..dead.len())];
                let base = without_p2p(&d.0);
                let dead_for_j = base.with(Protocol::P2p(nodes[j].peer.into()));
                anames.lock().unwrap().insert(dead_for_j.clone(), format!("{}d", nodes[j].name));
                let mut addrs = vec![nodes[j].addrs[kinds(&mut rng)].0.clone(), dead_for_j];
                if rng.gen_bool(0.5) {
                    addrs.reverse();
                }
                if rng.gen_bool(0.3) {
                    addrs.truncate(1);
                }
                let _ = nodes[i].tx.send(Cmd::AddKnown(nodes[j].peer, addrs)).await;
                let _ = nodes[i].tx.send(Cmd::Dial(nodes[j].peer, nodes[j].name.clone())).await;
            }
        }
        tokio::time::sleep(Duration::from_millis([0u64, 0, 5, 30, 200, 900][rng.gen_range(0..6)])).await;
    }
    // quiescence: every timeout on a dial path is <= 2 x 1 s (dial deadline) + negotiation 1 s;
    // wait until no node logged anything for 8 s (>= 3x slack on the longest single timeout)
    let total = |nodes: &Vec<NodeH>| nodes.iter().map(|n| n.log.lock().unwrap().len()).sum::<usize>();
    let mut last = total(&nodes);
    let mut quiet = 0;
    for _ in 0..120 {
        tokio::time::sleep(Duration::from_millis(500)).await;
        let t = total(&nodes);
        if t == last {
            quiet += 1;
        } else {
            quiet = 0;
            last = t;
        }
        if quiet >= 16 {
            break;
        }
    }
    let settled = quiet >= 16 && lag.load(Ordering::Relaxed) <= 400;
    for n in &nodes {
        n.log.lock().unwrap().push(json!({"e": if settled { "quiesce" } else { "unsettled" }}));
    }
    // redial probe: every node dials every other node once more and must get an outcome
    if settled {
        for i in 0..3 {
            for j in 0..3 {
                if i != j {
                    nodes[i].log.lock().unwrap().push(json!({"e": "probe", "peer": nodes[j].name}));
                    let (a, an) = nodes[j].addrs[kinds(&mut rng)].clone();
                    let _ = nodes[i].tx.send(Cmd::DialAddr(a, an, nodes[j].name.clone())).await;
                    tokio::time::sleep(Duration::from_millis(50)).await;
                }
            }
        }
        let mut last = total(&nodes);
        let mut quiet = 0;
        for _ in 0..120 {
            tokio::time::sleep(Duration::from_millis(500)).await;
            let t = total(&nodes);
            if t == last {
                quiet += 1;
            } else {
                quiet = 0;
                last = t;
            }
            if quiet >= 16 {
                break;
            }
        }
        let ok = quiet >= 16 && lag.load(Ordering::Relaxed) <= 400;
        for n in &nodes {
            n.log.lock().unwrap().push(json!({"e": if ok { "quiesce" } else { "unsettled" }}));
        }
    }
    let mut out = vec![];
    for (i, n) in nodes.iter().enumerate() {
        let _ = n.tx.send(Cmd::Stop).await;
        out.push(json!({"e": "reset", "w": w, "node": n.name, "seed": seed, "cfg": cfgs[i], "transport": tk}).to_string());
        for (s, l) in n.log.lock().unwrap().iter().enumerate() {
            let mut l = l.clone();
            l["seq"] = json!(s);
            out.push(l.to_string());
        }
    }
    for n in nodes {
        let _ = tokio::time::timeout(Duration::from_secs(2), n.task).await;
    }
    for g in guards {
        g.abort();
    }
    canary_task.abort();
    out
}

fn main() {
    let args = Args::parse();
    let seed = args.u64("seed", 1);
    let worlds = args.u64("worlds", 8) as usize;
    let steps = args.u64("steps", 14) as usize;
    let out = args.str("out", "trace.ndjson");
    let rt = tokio::runtime::Builder::new_multi_thread().worker_threads(8).enable_all().build().unwrap();
    let lines: Vec<String> = rt.block_on(async move {
        let mut hs = vec![];
        for w in 0..worlds {
            hs.push(tokio::spawn(run_world(w, seed.wrapping_mul(1000003).wrapping_add(w as u64), steps)));
        }
        let mut all = vec![];
        for h in hs {
            match h.await {
                Ok(l) => all.extend(l),
                Err(e) => all.push(json!({"e": "reset", "w": -1, "panic": format!("{e:?}")}).to_string()),
            }
        }
        all
    });
    let events = lines.iter().filter(|l| !l.contains("\"e\":\"reset\"")).count();
    let unsettled = lines.iter().filter(|l| l.contains("\"e\":\"unsettled\"")).count();
    write_lines(&out, &lines);
    println!("SUMMARY {}", json!({"worlds": worlds, "node_logs": worlds * 3, "events": events, "unsettled_logs": unsettled}));
}
