//! C13: networks of real litep2p nodes (request-response protocol) over loopback TCP, driven
//! through the public API by scripted scenarios; records what every user task did and saw.
//!
//!   reqresp --scenarios <jsonl> --out <ndjson> [--conc 96] [--workers 8] [--retries 2]
//!
//! Many small networks run concurrently in one process.  A scheduler-lag canary measures how
//! late timers fire; a network during whose life the lag exceeded an eighth of its time bound is
//! discarded and re-run (never judged).
mod exec;
mod net;
mod proxy;

use serde_json::json;
use std::{
    collections::HashMap,
    sync::{Arc, Mutex, OnceLock},
    time::{Duration, Instant},
};
use vharness::*;

static LAGS: OnceLock<Mutex<Vec<(Instant, u64)>>> = OnceLock::new();

/// largest timer overshoot (ms) observed since `t0`
pub fn max_lag_since(t0: Instant) -> u64 {
    let g = LAGS.get_or_init(|| Mutex::new(Vec::new())).lock().unwrap();
    g.iter().rev().take_while(|(t, _)| *t >= t0).map(|(_, l)| *l).max().unwrap_or(0)
}

async fn canary() {
    loop {
        let t = Instant::now();
        tokio::time::sleep(Duration::from_millis(10)).await;
        let over = t.elapsed().as_millis().saturating_sub(10) as u64;
        LAGS.get_or_init(|| Mutex::new(Vec::new())).lock().unwrap().push((Instant::now(), over));
    }
}

fn main() {
    let args = Args::parse();
    let scen_path = args.str("scenarios", "");
    let out = args.str("out", "trace.ndjson");
    let conc = args.u64("conc", 96) as usize;
    let workers = args.u64("workers", 8) as usize;
    let retries = args.u64("retries", 2);
    quiet_panics();
    let scens: Vec<net::Scenario> = read_jsonl(&scen_path)
        .into_iter()
        .map(|v| serde_json::from_value(v.clone()).unwrap_or_else(|e| panic!("scenario {e}: {v}")))
        .collect();
    let rt = tokio::runtime::Builder::new_multi_thread().worker_threads(workers).enable_all().build().expect("runtime");
    let t0 = Instant::now();
    let (lines, summ) = rt.block_on(async move {
        tokio::spawn(canary());
        let mut pending: Vec<net::Scenario> = scens;
        let mut all_lines: Vec<String> = Vec::new();
        let mut counts: HashMap<String, u64> = HashMap::new();
        let mut fail_kinds: HashMap<String, u64> = HashMap::new();
        let mut discarded_final = 0u64;
        let mut reruns = 0u64;
        let mut setup_errors: Vec<String> = Vec::new();
        let mut max_wall = 0u64;
        let mut networks = 0u64;
        for round in 0..=retries {
            if pending.is_empty() {
                break;
            }
            // re-runs use less concurrency so the timing assumptions are easier to meet
            let c = if round == 0 { conc } else { (conc / 4).max(4) };
            let sem = Arc::new(tokio::sync::Semaphore::new(c));
            let mut joins = Vec::new();
            for sc in pending.drain(..) {
                let permit = sem.clone().acquire_owned().await.unwrap();
                joins.push(tokio::spawn(async move {
                    let sc2 = sc.clone();
                    let r = net::run_network(sc).await;
                    drop(permit);
                    (sc2, r)
                }));
            }
            let mut again = Vec::new();
            for j in joins {
                match j.await {
                    Ok((sc, r)) => {
                        if let Some(e) = r.setup_error {
                            setup_errors.push(e);
                            again.push(sc);
                            continue;
                        }
                        if r.discard {
                            again.push(sc);
                            continue;
                        }
                        networks += 1;
                        max_wall = max_wall.max(r.wall_ms);
                        for (k, v) in r.counts {
                            *counts.entry(k).or_insert(0) += v;
                        }
                        for (k, v) in r.fail_kinds {
                            *fail_kinds.entry(k).or_insert(0) += v;
                        }
                        all_lines.extend(r.lines);
                    }
                    Err(e) => setup_errors.push(format!("network task: {e}")),
                }
            }
            if round < retries {
                reruns += again.len() as u64;
                pending = again;
            } else {
                discarded_final = again.len() as u64;
            }
        }
        let events = all_lines.len() as u64 - networks;
        let summ = json!({
            "networks": networks, "events": events, "reruns": reruns, "discarded": discarded_final,
            "setup_errors": setup_errors.len(), "setup_error_sample": setup_errors.first(),
            "counts": counts, "fail_kinds": fail_kinds, "max_network_wall_ms": max_wall,
            "max_lag_ms": max_lag_since(t0),
        });
        (all_lines, summ)
    });
    write_lines(&out, &lines);
    println!("SUMMARY {}", summ);
    // connection tasks of aborted nodes may still hold sockets; do not wait for them
    std::process::exit(0);
}
