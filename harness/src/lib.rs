//! Shared helpers for the conformance harness binaries.
use serde_json::Value;

pub mod shapes;
use std::collections::HashMap;

/// `--key value` command line arguments.
pub struct Args(pub HashMap<String, String>);

impl Args {
    pub fn parse() -> Self {
        let mut m = HashMap::new();
        let v: Vec<String> = std::env::args().skip(1).collect();
        let mut i = 0;
        while i < v.len() {
            let k = v[i].trim_start_matches("--").to_string();
            if i + 1 < v.len() && !v[i + 1].starts_with("--") {
                m.insert(k, v[i + 1].clone());
                i += 2;
            } else {
                m.insert(k, "1".to_string());
                i += 1;
            }
        }
        Args(m)
    }
    pub fn get(&self, k: &str) -> Option<&str> {
        self.0.get(k).map(|s| s.as_str())
    }
    pub fn str(&self, k: &str, d: &str) -> String {
        self.get(k).unwrap_or(d).to_string()
    }
    pub fn u64(&self, k: &str, d: u64) -> u64 {
        self.get(k).map(|s| s.parse().expect("int arg")).unwrap_or(d)
    }
}

/// Read a file with one JSON value per line.
pub fn read_jsonl(path: &str) -> Vec<Value> {
    let s = std::fs::read_to_string(path).unwrap_or_else(|e| panic!("read {path}: {e}"));
    s.lines()
        .filter(|l| !l.trim().is_empty())
        .map(|l| serde_json::from_str(l).unwrap_or_else(|e| panic!("json {e}: {l}")))
        .collect()
}

/// Write NDJSON lines.
pub fn write_lines(path: &str, lines: &[String]) {
    use std::io::Write;
    let f = std::fs::File::create(path).unwrap_or_else(|e| panic!("create {path}: {e}"));
    let mut w = std::io::BufWriter::new(f);
    for l in lines {
        w.write_all(l.as_bytes()).unwrap();
        w.write_all(b"\n").unwrap();
    }
    w.flush().unwrap();
}

/// Run `f`, turning a panic into `Err(message)`. Panics in the code under test are data.
pub fn catch<T>(f: impl FnOnce() -> T) -> Result<T, String> {
    IN_CATCH.with(|c| c.set(c.get() + 1));
    let r = std::panic::catch_unwind(std::panic::AssertUnwindSafe(f));
    IN_CATCH.with(|c| c.set(c.get() - 1));
    match r {
        Ok(v) => Ok(v),
        Err(e) => Err(if let Some(s) = e.downcast_ref::<&str>() {
            s.to_string()
        } else if let Some(s) = e.downcast_ref::<String>() {
            s.clone()
        } else {
            "panic".to_string()
        }),
    }
}

/// Silence the default panic hook (panics are recorded in the trace instead).
pub fn quiet_panics() {
    let default = std::panic::take_hook();
    std::panic::set_hook(Box::new(move |info| {
        if IN_CATCH.with(|c| c.get()) == 0 {
            default(info);
        }
    }));
}

thread_local! {
    static IN_CATCH: std::cell::Cell<u32> = const { std::cell::Cell::new(0) };
}

/// XOR distance of two 32-byte keys as big-endian bytes (independent of the code under test).
pub fn xor32(a: &[u8; 32], b: &[u8; 32]) -> [u8; 32] {
    let mut o = [0u8; 32];
    for i in 0..32 {
        o[i] = a[i] ^ b[i];
    }
    o
}

/// SHA-256 (independent of the code under test).
pub fn sha256(data: &[u8]) -> [u8; 32] {
    use sha2::Digest;
    let d = sha2::Sha256::digest(data);
    let mut o = [0u8; 32];
    o.copy_from_slice(d.as_slice());
    o
}

/// Index of the highest set bit of a 256-bit big-endian number, if any.
pub fn ilog2_be(d: &[u8; 32]) -> Option<u32> {
    for (i, b) in d.iter().enumerate() {
        if *b != 0 {
            return Some((31 - i as u32) * 8 + (7 - b.leading_zeros()));
        }
    }
    None
}
