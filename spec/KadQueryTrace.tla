---------------------------- MODULE KadQueryTrace ----------------------------
(* Trace validation: every call recorded from the real QueryEngine must be a  *)
(* step the Prop layer of KadQuery allows (MODE=prop, decides C15) or exactly *)
(* the step of the Impl layer (MODE=impl, drift detector).                    *)
(* Lines: {"e":"reset","cfg":{..},"st":{..}}  {"e":"op","o":{..},"ret":..,"st":{..}} *)
EXTENDS KadQuery, TLC, Json, IOUtils

Rec == ndJsonDeserialize(IOEnv.TRACE)
Mode == IOEnv.MODE

VARIABLES l, C, M, S
tvars == <<l, C, M, S>>

ToCfg(c) == [kind |-> c.kind, alpha |-> c.alpha, repl |-> c.repl, need |-> c.need, localrec |-> c.localrec,
             known |-> RangeOf(c.known), init |-> RangeOf(c.init)]
ToOp(o) == CASE o.op = "resp"  -> [op |-> "resp", p |-> o.p, peers |-> RangeOf(o.peers), rec |-> o.rec, provs |-> RangeOf(o.provs)]
             [] o.op = "stale" -> [op |-> "stale", ps |-> RangeOf(o.ps)]
             [] OTHER -> o

\* does the projected real context equal the Impl state ?
StMatches(c, s, d) ==
  IF d.done = 1 THEN s.done
  ELSE /\ ~s.done
       /\ s.cand = RangeOf(d.cand) /\ s.pend = RangeOf(d.pend) /\ s.qd = RangeOf(d.qd)
       /\ c.kind = "find" => s.resp = RangeOf(d.resp) /\ s.pr = d.pr
       /\ c.kind = "get" => s.found = d.found /\ s.recq = d.recq
       /\ c.kind = "prov" => s.provs = RangeOf(d.provs)
       /\ c.kind = "track" => s.tsucc = d.tsucc

\* the position of the local node among the providers depends on its own distance, which
\* the model does not have: provider lists are compared as sets
RetEq(r, ret) == IF r.a = "ok" /\ ret.a = "ok"
                   THEN r.peers = ret.peers /\ RangeOf(r.provs) = RangeOf(ret.provs) /\ Len(r.provs) = Len(ret.provs)
                   ELSE r = ret

Cfg0 == [kind |-> "find", alpha |-> 1, repl |-> 1, need |-> 0, localrec |-> 0, known |-> {}, init |-> {}]

TInit == /\ l = 1
         /\ C = Cfg0
         /\ M = PropInit(Cfg0)
         /\ S = ImplInit(Cfg0)

TReset == /\ Rec[l].e = "reset"
          /\ C' = ToCfg(Rec[l].cfg)
          /\ M' = PropInit(C')
          /\ S' = ImplInit(C')
          /\ Mode = "impl" => StMatches(C', S', Rec[l].st)

TOp == /\ Rec[l].e = "op"
       /\ C' = C
       /\ LET o == ToOp(Rec[l].o)
              ret == Rec[l].ret
          IN IF Mode = "impl"
               THEN LET r == ImplStep(C, S, o) IN
                      /\ o.op = "next" => RetEq(r.ret, ret)
                      /\ S' = r.st
                      /\ StMatches(C, r.st, Rec[l].st)
                      /\ M' = M
               ELSE /\ PropOK(C, M, o, ret)
                    /\ M' = PropUpd(C, M, o, ret)
                    /\ S' = S

TNext == /\ l <= Len(Rec)
         /\ l' = l + 1
         /\ (TReset \/ TOp)

TSpec == TInit /\ [][TNext]_tvars

Accepted ==
  LET d == TLCGet("stats").diameter IN
  IF d - 1 = Len(Rec) THEN PrintT(<<"TRACE_OK", Len(Rec)>>)
  ELSE PrintT(<<"TRACE_REJECTED_AT", d>>) /\ FALSE
=============================================================================
