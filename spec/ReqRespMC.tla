------------------------------ MODULE ReqRespMC ------------------------------
(***************************************************************************)
(* Implementation-shaped model of litep2p's request-response protocol      *)
(* (src/protocol/request_response/mod.rs, handle.rs), one action per       *)
(* handler of RequestResponseProtocol::run(), composed with                *)
(*   - the user of the requesting node R (send_request / cancel_request),  *)
(*   - the environment = what the connection manager and the connection    *)
(*     tasks guarantee: a dial ends in one outcome, connections are        *)
(*     reported established / closed in order, every requested substream   *)
(*     is opened or fails at most once and never after the connection was  *)
(*     reported closed,                                                    *)
(*   - responders with the behaviours answer / reject / stall / disconnect *)
(*     and a bound on concurrent inbound requests,                         *)
(*   - the property monitor of ReqResp.tla fed with everything the users   *)
(*     do and see.                                                         *)
(*                                                                         *)
(* pending_dials is a MAP with one slot per peer exactly as in the code;   *)
(* with "d9" \in Fixed it is the proposed repair (a queue per peer).       *)
(***************************************************************************)
EXTENDS ReqResp, SequencesExt, FiniteSetsExt, Json

CONSTANTS Peers,      \* responder nodes, e.g. {2, 3}; the requester is node 1
          MaxReq,     \* number of requests the user may issue
          MaxConc,    \* responders' bound on concurrent inbound requests (NoLimit = none)
          MaxConn,    \* connections that may be established in total
          MaxCancel,  \* cancel_request calls the user may make
          Fixed,      \* tags of known defects modelled as repaired
          Refuse,     \* the manager may drop an accepted dial command silently (connection limit)
          KeepHist    \* record the stimulus history (behaviour generation)

R == 1
FixedNone == {}
FixedD9 == {"d9"}

VARIABLES
  \* RequestResponseProtocol
  inpeers,   \* DOMAIN of `peers`
  active,    \* peer -> set of request ids (peers[p].active)
  pdial,     \* peer -> sequence of request ids (pending_dials; at most one unless repaired)
  pout,      \* substream id -> [rid, p]   (pending_outbound)
  fut,       \* request id -> [p, csig]    (pending_inbound: request written, waiting)
  cancels,   \* set of request ids         (pending_outbound_cancels)
  evq,       \* events queued by TransportService for the protocol loop
  cmdq,      \* commands queued by the handle
  \* environment
  mgr,       \* peer -> "disc" | "conn"    (TransportManager peer state)
  mdial,     \* peer -> dial in flight
  svc,       \* peer -> connection (incarnation number) held in TransportService.connections, 0 = none
  sids,      \* substream id -> [p, i, st]  substreams requested from connection i and not yet reported
  nconn,     \* peer -> connections established so far; the live one is number nconn[p] while mgr[p] = "conn"
  \* responders
  rq,        \* request id -> none | sent | delivered | dropped | answered | rejected | over
  inb,       \* peer -> requests shown to its user and not yet answered / rejected
  tgt,       \* request id -> peer
  \* bookkeeping
  mon, kf, hist, nrid, nsid

pvars == <<inpeers, active, pdial, pout, fut, cancels, evq, cmdq>>
evars == <<mgr, mdial, svc, sids, nconn>>
rvars == <<rq, inb, tgt>>
vars == <<inpeers, active, pdial, pout, fut, cancels, evq, cmdq, mgr, mdial, svc, sids, nconn,
          rq, inb, tgt, mon, kf, hist, nrid, nsid>>

Q(r) == "q" \o ToString(r)     \* request payload digest
A(r) == "a" \o ToString(r)     \* digest of the response the responder supplies for request r

H(x) == IF KeepHist THEN Append(hist, x) ELSE hist

Rids == 0..(MaxReq - 1)

Init ==
  /\ inpeers = {} /\ active = [p \in Peers |-> {}] /\ pdial = [p \in Peers |-> <<>>]
  /\ pout = <<>> /\ fut = <<>> /\ cancels = {} /\ evq = <<>> /\ cmdq = <<>>
  /\ mgr = [p \in Peers |-> "disc"] /\ mdial = [p \in Peers |-> FALSE]
  /\ svc = [p \in Peers |-> 0] /\ sids = <<>> /\ nconn = [p \in Peers |-> 0]
  /\ rq = [r \in Rids |-> "none"] /\ inb = [p \in Peers |-> {}] /\ tgt = [r \in Rids |-> 0]
  /\ mon = MonInit([n \in {R} \cup Peers |-> IF n = R THEN NoLimit ELSE MaxConc])
  /\ kf = {} /\ hist = <<>> /\ nrid = 0 /\ nsid = 0

\* connection number i with peer p is still alive
ConnAlive(p, i) == mgr[p] = "conn" /\ nconn[p] = i /\ i # 0

TotalConn == FoldSet(LAMBDA p, acc : acc + nconn[p], 0, Peers)

Drop(f, k) == [x \in DOMAIN f \ {k} |-> f[x]]
FailEvs(M, S) == FoldSet(LAMBDA r, acc : MonFailEv(acc, R, r), M, S)
SeqFailEvs(M, s) == FoldLeft(LAMBDA acc, r : MonFailEv(acc, R, r), M, s)

-----------------------------------------------------------------------------
(* the user of node R                                                       *)

UIssue(p, d) ==
  /\ nrid < MaxReq
  /\ LET r == nrid IN
     /\ cmdq' = Append(cmdq, [c |-> "send", rid |-> r, p |-> p, d |-> d])
     /\ mon' = MonIssued(MonIssue(mon, R, r, p, Q(r)), R, r, r, TRUE)
     /\ tgt' = [tgt EXCEPT ![r] = p]
     /\ nrid' = nrid + 1
     /\ hist' = H([a |-> "issue", r |-> r, p |-> p, d |-> d])
  /\ UNCHANGED <<inpeers, active, pdial, pout, fut, cancels, evq, evars, rq, inb, kf, nsid>>

UCancel(r) ==
  /\ r < nrid /\ mon.req[r].st = "open" /\ ~mon.req[r].canc
  /\ Cardinality({k \in DOMAIN mon.req : mon.req[k].canc}) < MaxCancel
  /\ cmdq' = Append(cmdq, [c |-> "cancel", rid |-> r, p |-> 0, d |-> ""])
  /\ mon' = MonCancel(mon, R, r)
  /\ hist' = H([a |-> "cancel", r |-> r])
  /\ UNCHANGED <<inpeers, active, pdial, pout, fut, cancels, evq, evars, rvars, kf, nrid, nsid>>

-----------------------------------------------------------------------------
(* RequestResponseProtocol::run(): user commands                            *)

\* pending_dials.insert(peer, context)
InsertDial(p, r) ==
  IF "d9" \in Fixed
    THEN pdial' = [pdial EXCEPT ![p] = Append(@, r)] /\ kf' = kf
    ELSE \* HashMap::insert: a context already stored for this peer is replaced and dropped
         pdial' = [pdial EXCEPT ![p] = <<r>>] /\ kf' = kf \cup ToSet(pdial[p])

\* on_send_request
OnSendRequest(c) ==
  LET p == c.p r == c.rid IN
  IF p \notin inpeers THEN
    IF c.d = "reject" THEN
      /\ mon' = MonFailEv(mon, R, r)                       \* NotConnected
      /\ UNCHANGED <<inpeers, active, pdial, pout, evars, kf, nsid>>
    ELSE IF mgr[p] = "conn" THEN
      /\ mon' = MonFailEv(mon, R, r)                       \* DialFailed(AlreadyConnected)
      /\ UNCHANGED <<inpeers, active, pdial, pout, evars, kf, nsid>>
    ELSE IF mdial[p] THEN
      \* TransportManagerHandle::dial: DialingInProgress => Ok(())
      /\ InsertDial(p, r)
      /\ UNCHANGED <<inpeers, active, pout, evars, mon, nsid>>
    ELSE
      \/ /\ mdial' = [mdial EXCEPT ![p] = TRUE]            \* DialPeer command accepted and executed
         /\ InsertDial(p, r)
         /\ UNCHANGED <<inpeers, active, pout, mgr, svc, sids, nconn, mon, nsid>>
      \/ /\ Refuse                                         \* ... or refused inside TransportManager::dial, only logged
         /\ pdial' = [pdial EXCEPT ![p] = IF "d9" \in Fixed THEN Append(@, r) ELSE <<r>>]
         /\ kf' = kf \cup {r} \cup (IF "d9" \in Fixed THEN {} ELSE ToSet(pdial[p]))
         /\ UNCHANGED <<inpeers, active, pout, evars, mon, nsid>>
  ELSE IF ~ConnAlive(p, svc[p]) THEN
    /\ mon' = MonFailEv(mon, R, r)                         \* open_substream failed
    /\ UNCHANGED <<inpeers, active, pdial, pout, evars, kf, nsid>>
  ELSE
    /\ active' = [active EXCEPT ![p] = @ \cup {r}]
    /\ pout' = (nsid :> [rid |-> r, p |-> p]) @@ pout
    /\ sids' = (nsid :> [p |-> p, i |-> svc[p], st |-> "req"]) @@ sids
    /\ nsid' = nsid + 1
    /\ UNCHANGED <<inpeers, pdial, mgr, mdial, svc, nconn, mon, kf>>

\* on_cancel_request
OnCancel(c) ==
  /\ IF c.rid \in cancels
       THEN cancels' = cancels \ {c.rid} /\ fut' = [fut EXCEPT ![c.rid].csig = TRUE]
       ELSE UNCHANGED <<cancels, fut>>
  /\ UNCHANGED <<inpeers, active, pdial, pout, evars, mon, kf, nsid>>

PCmd ==
  /\ cmdq # <<>>
  /\ cmdq' = Tail(cmdq)
  /\ LET c == Head(cmdq) IN
       IF c.c = "send" THEN OnSendRequest(c) /\ UNCHANGED <<fut, cancels>> ELSE OnCancel(c)
  /\ UNCHANGED <<evq, rvars, hist, nrid>>

-----------------------------------------------------------------------------
(* RequestResponseProtocol::run(): events from the transport service        *)

\* on_connection_established
OnConnEst(p, i) ==
  /\ svc' = [svc EXCEPT ![p] = i]
  /\ IF p \in inpeers THEN
       /\ mon' = Fail(mon, "panic: peer already exists")
       /\ UNCHANGED <<inpeers, active, pdial, pout, sids, nsid>>
     ELSE IF pdial[p] = <<>> THEN
       /\ inpeers' = inpeers \cup {p}
       /\ UNCHANGED <<active, pdial, pout, sids, nsid, mon>>
     ELSE
       /\ pdial' = [pdial EXCEPT ![p] = <<>>]
       /\ IF ConnAlive(p, i) THEN
            LET n == Len(pdial[p]) IN
            /\ inpeers' = inpeers \cup {p}
            /\ active' = [active EXCEPT ![p] = ToSet(pdial[p])]
            /\ pout' = [s \in nsid..(nsid + n - 1) |-> [rid |-> pdial[p][s - nsid + 1], p |-> p]] @@ pout
            /\ sids' = [s \in nsid..(nsid + n - 1) |-> [p |-> p, i |-> i, st |-> "req"]] @@ sids
            /\ nsid' = nsid + n
            /\ mon' = mon
          ELSE \* open_substream failed: the request is failed and the peer is not registered
            /\ mon' = SeqFailEvs(mon, pdial[p])
            /\ UNCHANGED <<inpeers, active, pout, sids, nsid>>
  /\ UNCHANGED <<fut, cancels, mgr, mdial, nconn, kf>>

\* on_connection_closed
OnConnClosed(p) ==
  /\ svc' = [svc EXCEPT ![p] = 0]
  /\ pout' = [s \in {x \in DOMAIN pout : pout[x].p # p} |-> pout[s]]
  /\ IF p \in inpeers THEN
       /\ inpeers' = inpeers \ {p}
       /\ mon' = FailEvs(mon, active[p])
       /\ active' = [active EXCEPT ![p] = {}]
     ELSE UNCHANGED <<inpeers, active, mon>>
  /\ UNCHANGED <<pdial, fut, cancels, mgr, mdial, sids, nconn, kf, nsid>>

\* on_dial_failure
OnDialFailure(p) ==
  /\ IF pdial[p] # <<>> THEN
       /\ pdial' = [pdial EXCEPT ![p] = <<>>]
       /\ active' = [active EXCEPT ![p] = @ \ ToSet(pdial[p])]
       /\ mon' = SeqFailEvs(mon, pdial[p])
     ELSE UNCHANGED <<pdial, active, mon>>
  /\ UNCHANGED <<inpeers, pout, fut, cancels, evars, kf, nsid>>

\* on_outbound_substream: the request is written, the future waits for response / timeout / cancel
OnSubOpened(s) ==
  /\ IF s \in DOMAIN pout THEN
       LET r == pout[s].rid IN
       /\ pout' = Drop(pout, s)
       /\ cancels' = cancels \cup {r}
       /\ fut' = (r :> [p |-> pout[s].p, csig |-> FALSE]) @@ fut
       /\ rq' = [rq EXCEPT ![r] = "sent"]
       /\ mon' = mon
     ELSE /\ mon' = Fail(mon, "panic: pending outbound request does not exist")
          /\ UNCHANGED <<pout, cancels, fut, rq>>
  /\ UNCHANGED <<inpeers, active, pdial, evars, kf, nsid, inb, tgt>>

\* on_substream_open_failure
OnSubOpenFail(s) ==
  /\ IF s \in DOMAIN pout THEN
       LET r == pout[s].rid p == pout[s].p IN
       /\ pout' = Drop(pout, s)
       /\ active' = [active EXCEPT ![p] = @ \ {r}]
       /\ mon' = MonFailEv(mon, R, r)
     ELSE /\ mon' = Fail(mon, "panic: pending outbound request does not exist")
          /\ UNCHANGED <<pout, active>>
  /\ UNCHANGED <<inpeers, pdial, fut, cancels, evars, kf, nsid, rvars>>

PEvt ==
  /\ evq # <<>>
  /\ evq' = Tail(evq)
  /\ LET e == Head(evq) IN
       CASE e.k = "est"      -> OnConnEst(e.x, e.i) /\ UNCHANGED rvars
         [] e.k = "closed"   -> OnConnClosed(e.x) /\ UNCHANGED rvars
         [] e.k = "dialfail" -> OnDialFailure(e.x) /\ UNCHANGED rvars
         [] e.k = "subopen"  -> OnSubOpened(e.x)
         [] e.k = "subfail"  -> OnSubOpenFail(e.x)
  /\ UNCHANGED <<cmdq, hist, nrid>>

\* a request future completes and on_substream_event handles it
\*   res: "resp" (the response arrived), "canceled" (cancel signal won the select!),
\*        "err" (timeout, substream closed / reset, read error)
PFut(r, res) ==
  /\ r \in DOMAIN fut
  /\ res = "resp" => rq[r] = "answered"
  /\ res = "canceled" => fut[r].csig
  /\ LET p == fut[r].p IN
       IF p \in inpeers /\ r \in active[p] THEN
         /\ active' = [active EXCEPT ![p] = @ \ {r}]
         /\ mon' = CASE res = "resp" -> MonResp(mon, R, r, A(r))
                     [] res = "canceled" -> mon
                     [] OTHER -> MonFailEv(mon, R, r)
       ELSE UNCHANGED <<active, mon>>
  /\ fut' = Drop(fut, r)
  /\ cancels' = cancels \ {r}
  \* what the responder does with a request whose requester has given up is not observable by
  \* the requester any more; a request already shown to the responder's user keeps its slot
  /\ rq' = [rq EXCEPT ![r] = IF @ = "delivered" THEN @ ELSE "over"]
  /\ hist' = IF res = "err" THEN H([a |-> "timeout", r |-> r]) ELSE hist
  /\ UNCHANGED <<inpeers, pdial, pout, evq, cmdq, evars, inb, tgt, kf, nrid, nsid>>

-----------------------------------------------------------------------------
(* environment: connection manager, connection tasks                        *)

EDialOk(p) ==
  /\ mdial[p] /\ (mgr[p] = "disc" => TotalConn < MaxConn)
  /\ mdial' = [mdial EXCEPT ![p] = FALSE]
  /\ IF mgr[p] = "disc" THEN
       /\ mgr' = [mgr EXCEPT ![p] = "conn"]
       /\ nconn' = [nconn EXCEPT ![p] = @ + 1]
       /\ evq' = Append(evq, [k |-> "est", x |-> p, i |-> nconn[p] + 1])
     ELSE UNCHANGED <<mgr, nconn, evq>>      \* a secondary connection: protocols are not told
  /\ hist' = H([a |-> "dialok", p |-> p])
  /\ UNCHANGED <<inpeers, active, pdial, pout, fut, cancels, cmdq, svc, sids, rvars, mon, kf, nrid, nsid>>

EDialFail(p) ==
  /\ mdial[p]
  /\ mdial' = [mdial EXCEPT ![p] = FALSE]
  /\ evq' = Append(evq, [k |-> "dialfail", x |-> p, i |-> 0])
  /\ hist' = H([a |-> "dialfail", p |-> p])
  /\ UNCHANGED <<inpeers, active, pdial, pout, fut, cancels, cmdq, mgr, svc, sids, nconn, rvars, mon, kf, nrid, nsid>>

\* the peer connects to us (or the user dialed it beforehand)
EInbound(p) ==
  /\ mgr[p] = "disc" /\ TotalConn < MaxConn
  /\ mgr' = [mgr EXCEPT ![p] = "conn"]
  /\ nconn' = [nconn EXCEPT ![p] = @ + 1]
  /\ evq' = Append(evq, [k |-> "est", x |-> p, i |-> nconn[p] + 1])
  /\ hist' = H([a |-> "connect", p |-> p])
  /\ UNCHANGED <<inpeers, active, pdial, pout, fut, cancels, cmdq, mdial, svc, sids, rvars, mon, kf, nrid, nsid>>

\* the connection dies (responder disconnects, link cut, keep-alive): pending substreams are
\* never reported any more, ConnectionClosed is
EClose(p) ==
  /\ mgr[p] = "conn"
  /\ mgr' = [mgr EXCEPT ![p] = "disc"]
  /\ sids' = [s \in {x \in DOMAIN sids : sids[x].p # p} |-> sids[s]]
  /\ evq' = Append(evq, [k |-> "closed", x |-> p, i |-> 0])
  /\ hist' = H([a |-> "close", p |-> p])
  /\ UNCHANGED <<inpeers, active, pdial, pout, fut, cancels, cmdq, mdial, svc, nconn, rvars, mon, kf, nrid, nsid>>

ESubOpen(s) ==
  /\ s \in DOMAIN sids /\ sids[s].st = "req" /\ ConnAlive(sids[s].p, sids[s].i)
  /\ sids' = Drop(sids, s)
  /\ evq' = Append(evq, [k |-> "subopen", x |-> s, i |-> 0])
  /\ UNCHANGED <<inpeers, active, pdial, pout, fut, cancels, cmdq, mgr, mdial, svc, nconn, rvars, mon, kf, hist, nrid, nsid>>

ESubFail(s) ==
  /\ s \in DOMAIN sids /\ sids[s].st = "req"
  /\ sids' = Drop(sids, s)
  /\ evq' = Append(evq, [k |-> "subfail", x |-> s, i |-> 0])
  /\ hist' = H([a |-> "subfail", r |-> IF s \in DOMAIN pout THEN pout[s].rid ELSE -1])
  /\ UNCHANGED <<inpeers, active, pdial, pout, fut, cancels, cmdq, mgr, mdial, svc, nconn, rvars, mon, kf, nrid, nsid>>

-----------------------------------------------------------------------------
(* responders                                                               *)

\* on_inbound_substream + on_inbound_request at the responder
RDeliver(r) ==
  /\ rq[r] = "sent"
  /\ LET p == tgt[r] IN
       IF MaxConc # NoLimit /\ Cardinality(inb[p]) >= MaxConc THEN
         /\ rq' = [rq EXCEPT ![r] = "dropped"]
         /\ UNCHANGED <<inb, mon>>
       ELSE
         /\ rq' = [rq EXCEPT ![r] = "delivered"]
         /\ inb' = [inb EXCEPT ![p] = @ \cup {r}]
         /\ mon' = MonRecv(mon, p, R, r, r, Q(r))
  /\ UNCHANGED <<pvars, evars, tgt, kf, hist, nrid, nsid>>

RAnswer(r) ==
  /\ rq[r] = "delivered"
  /\ rq' = [rq EXCEPT ![r] = IF r \in DOMAIN fut THEN "answered" ELSE "over"]
  /\ inb' = [inb EXCEPT ![tgt[r]] = @ \ {r}]
  /\ mon' = MonAnswer(mon, tgt[r], r, A(r))
  /\ hist' = H([a |-> "answer", r |-> r])
  /\ UNCHANGED <<pvars, evars, tgt, kf, nrid, nsid>>

RReject(r) ==
  /\ rq[r] = "delivered"
  /\ rq' = [rq EXCEPT ![r] = IF r \in DOMAIN fut THEN "rejected" ELSE "over"]
  /\ inb' = [inb EXCEPT ![tgt[r]] = @ \ {r}]
  /\ mon' = MonReject(mon, tgt[r], r)
  /\ hist' = H([a |-> "reject", r |-> r])
  /\ UNCHANGED <<pvars, evars, tgt, kf, nrid, nsid>>

-----------------------------------------------------------------------------
User == \/ \E p \in Peers : \E d \in {"dial", "reject"} : UIssue(p, d)
        \/ \E r \in Rids : UCancel(r)
Internal ==
  \/ PCmd \/ PEvt
  \/ \E r \in Rids : \E res \in {"resp", "canceled", "err"} : PFut(r, res)
  \/ \E p \in Peers : EDialOk(p) \/ EDialFail(p)
  \/ \E s \in DOMAIN sids : ESubOpen(s) \/ ESubFail(s)
Env ==
  \/ \E p \in Peers : EInbound(p) \/ EClose(p)
  \/ \E r \in Rids : RDeliver(r) \/ RAnswer(r) \/ RReject(r)

Next == User \/ Internal \/ Env
Spec == Init /\ [][Next]_vars
\* every step that is in flight is eventually taken (timeouts fire, the manager reports)
FairSpec == Spec /\ WF_vars(Internal)

-----------------------------------------------------------------------------
(* Properties                                                               *)

\* nothing is in flight at the requesting node
Quiescent ==
  /\ evq = <<>> /\ cmdq = <<>> /\ fut = <<>>
  /\ \A p \in Peers : ~mdial[p]
  /\ \A s \in DOMAIN sids : sids[s].st # "req"

\* the monitor never objects (second terminal event, foreign response, request seen twice,
\* bound exceeded, panic)
MonOK == mon.bad = ""
\* C13 liveness as a quiescence obligation: whatever is still without a terminal event when
\* nothing is in flight was lost on a path tagged as a known defect
QuiesceOK == Quiescent => Unsettled(mon) \subseteq kf
\* the untagged version - violated by the unrepaired model (selftest: TLC must find D9)
QuiesceStrict == Quiescent => Unsettled(mon) = {}
\* bookkeeping of the protocol is exact when nothing is in flight
BooksOK == Quiescent => /\ pout = <<>> /\ cancels = {}
                        /\ \A p \in Peers : active[p] = {} /\ (kf = {} => pdial[p] = <<>>)
\* the responder-side bound on the model state
BoundOK == MaxConc # NoLimit => \A p \in Peers : Cardinality(inb[p]) <= MaxConc

\* []( issued /\ ~cancelled => <> terminal ), for the repaired model under FairSpec
Live == \A r \in Rids :
          (r < nrid /\ mon.req[r].st = "open" /\ ~mon.req[r].canc) ~> (mon.req[r].st \in {"resp", "fail"} \/ mon.req[r].canc \/ r \in kf)

View == <<inpeers, active, pdial, pout, fut, cancels, evq, cmdq, mgr, mdial, svc, sids, nconn,
          rq, inb, tgt, mon, kf, nrid, nsid>>
Emit == PrintT(<<"B", ToJson([h |-> hist'])>>)
=============================================================================
