--------------------------- MODULE MultistreamTrace ---------------------------
(* Trace validation for C03: every event recorded from a real negotiation      *)
(* (litep2p and/or the reference implementation, stream- or message-based)     *)
(* must be allowed by the Prop layer in Multistream.tla.  One execution =       *)
(* reset, done/read/apperr events in the order observed, quiesce.              *)
EXTENDS Multistream, TLC, Json, IOUtils

Rec == ndJsonDeserialize(IOEnv.TRACE)

VARIABLES l, cfg, m, fin
tvars == <<l, cfg, m, fin>>

SeqToSet(s) == {s[i] : i \in 1..Len(s)}
NoCfg == [dlist |-> <<>>, lset |-> {}, lazy |-> FALSE, dpay |-> <<>>, lpay |-> <<>>]

TInit == l = 1 /\ cfg = NoCfg /\ m = PropInit /\ fin = TRUE

TReset == /\ Rec[l].e = "reset"
          /\ fin
          /\ cfg' = [dlist |-> Rec[l].dlist, lset |-> SeqToSet(Rec[l].lset), lazy |-> Rec[l].lazy,
                     dpay |-> Rec[l].dpay, lpay |-> Rec[l].lpay]
          /\ m' = PropInit
          /\ fin' = FALSE

TDone == /\ Rec[l].e = "done" /\ ~fin
         /\ PropDone(cfg, m, Rec[l].s, Rec[l].ok, Rec[l].p, m')
         /\ UNCHANGED <<cfg, fin>>

TRead == /\ Rec[l].e = "read" /\ ~fin
         /\ PropRead(cfg, m, Rec[l].s, Rec[l].bs, m')
         /\ UNCHANGED <<cfg, fin>>

TAppErr == /\ Rec[l].e = "apperr" /\ ~fin
           /\ PropAppErr(cfg, m, Rec[l].s, m')
           /\ UNCHANGED <<cfg, fin>>

TQuiesce == /\ Rec[l].e = "quiesce" /\ ~fin
            /\ PropQuiesce(cfg, m)
            /\ fin' = TRUE
            /\ UNCHANGED <<cfg, m>>

TNext == /\ l <= Len(Rec)
         /\ l' = l + 1
         /\ (TReset \/ TDone \/ TRead \/ TAppErr \/ TQuiesce)

TSpec == TInit /\ [][TNext]_tvars

Accepted ==
  LET d == TLCGet("stats").diameter IN
  IF d - 1 = Len(Rec) THEN PrintT(<<"TRACE_OK", Len(Rec)>>)
  ELSE PrintT(<<"TRACE_REJECTED_AT", d>>) /\ FALSE
=============================================================================
