//! C05 / C06 (and the dial-order part of C10): drive the real `TransportManager` through the
//! scripted transport with TLC-generated or seeded random stimulus sequences, one stimulus at a
//! time, and record everything observable after each stimulus.
use litep2p::{
    verif::mgr::{Call, ErrKind, ManagerHarness, MgrEvent},
    PeerId,
};
use multiaddr::{Multiaddr, Protocol};
use rand::{rngs::StdRng, seq::SliceRandom, Rng, SeedableRng};
use serde_json::{json, Value};
use std::collections::{BTreeMap, HashMap};
use vharness::*;

const PEERS: [&str; 3] = ["p1", "p2", "p3"];

struct World {
    h: ManagerHarness,
    peers: Vec<(String, PeerId)>,
    /// abstract address name -> concrete multiaddr
    addrs: HashMap<String, Multiaddr>,
    /// transport-side status per real connection id (mirror of what a legal transport knows)
    tx: BTreeMap<usize, Tx>,
    /// connections the manager accepted and that have not closed: cid -> (peer, dir)
    acc: BTreeMap<usize, (String, String)>,
    fresh: usize,
}

#[derive(Clone, Debug)]
struct Tx {
    st: &'static str, // dialing opening negotiating accepting live in_neg rejected failed cancelled closed
    peer: String,
    dir: &'static str,
    addrs: Vec<Multiaddr>,
    opened: Option<Multiaddr>,
    /// transports (0 = tcp, 1 = ws) on which an open() is outstanding
    trs: Vec<usize>,
    /// transport that carries the connection
    ctr: usize,
}

fn is_ws(a: &Multiaddr) -> bool {
    a.iter().any(|p| matches!(p, Protocol::Ws(_) | Protocol::Wss(_)))
}
fn trname(t: usize) -> &'static str {
    if t == 0 { "t" } else { "w" }
}
fn trnum(v: Option<&Value>) -> usize {
    match v.and_then(|t| t.as_str()) {
        Some("w") => 1,
        _ => 0,
    }
}

impl World {
    fn new(max_in: i64, max_out: i64) -> Self {
        Self::new_tr(max_in, max_out, false)
    }
    /// `two`: a second scripted transport is registered as WebSocket (addresses `<peer>w`, `<peer>x`)
    fn new_tr(max_in: i64, max_out: i64, two: bool) -> Self {
        let lim = |x: i64| if x < 0 { None } else { Some(x as usize) };
        let h = if two {
            ManagerHarness::new_two(lim(max_in), lim(max_out), 2, vharness::shapes::listen_addrs())
        } else {
            ManagerHarness::new(lim(max_in), lim(max_out), 2, vharness::shapes::listen_addrs())
        };
        let peers: Vec<(String, PeerId)> = PEERS.iter().map(|n| (n.to_string(), PeerId::random())).collect();
        let mut addrs = HashMap::new();
        for (i, (n, p)) in peers.iter().enumerate() {
            for (j, s) in ["a", "b", "c"].iter().enumerate() {
                let a: Multiaddr = format!("/ip4/10.{}.{}.1/tcp/{}", i + 1, j + 1, 1000 + 10 * i + j).parse().unwrap();
                addrs.insert(format!("{n}{s}"), a.with(Protocol::P2p((*p).into())));
            }
            for (j, s) in ["w", "x"].iter().enumerate() {
                let a: Multiaddr = format!("/ip4/10.{}.{}.1/tcp/{}/ws", i + 1, j + 8, 2000 + 10 * i + j).parse().unwrap();
                addrs.insert(format!("{n}{s}"), a.with(Protocol::P2p((*p).into())));
            }
        }
        World { h, peers, addrs, tx: BTreeMap::new(), acc: BTreeMap::new(), fresh: 0 }
    }
    fn peer(&self, n: &str) -> PeerId {
        self.peers.iter().find(|(k, _)| k == n).expect("peer").1
    }
    fn pname(&self, p: &PeerId) -> String {
        self.peers.iter().find(|(_, q)| q == p).map(|(n, _)| n.clone()).unwrap_or_else(|| "?".into())
    }
    fn aname(&self, a: &Multiaddr) -> String {
        self.addrs.iter().find(|(_, q)| *q == a).map(|(n, _)| n.clone()).unwrap_or_else(|| a.to_string())
    }
    fn outstanding(&self) -> bool {
        self.tx.values().any(|t| matches!(t.st, "dialing" | "opening" | "negotiating" | "accepting" | "in_neg"))
    }

    /// poll the manager until it is idle; collect calls and events
    fn drain(&mut self, stim_peer: &str) -> (Vec<Value>, Vec<Value>) {
        let mut events = vec![];
        for _ in 0..64 {
            match self.h.step() {
                None => break,
                Some(MgrEvent::Established { peer, cid, listener, .. }) => {
                    if let Some(t) = self.tx.get_mut(&cid) {
                        t.st = "live";
                    }
                    events.push(json!({"k": "est", "peer": self.pname(&peer), "cid": cid, "dir": if listener { "in" } else { "out" }}))
                }
                Some(MgrEvent::Closed { peer, cid }) => events.push(json!({"k": "closed", "peer": self.pname(&peer), "cid": cid})),
                Some(MgrEvent::DialFailure { cid, address }) => events.push(json!({"k": "dial_failure", "cid": cid, "addrs": [self.aname(&address)]})),
                Some(MgrEvent::OpenFailure { cid, addresses }) => {
                    events.push(json!({"k": "open_failure", "cid": cid, "addrs": addresses.iter().map(|a| self.aname(a)).collect::<Vec<_>>()}))
                }
                Some(MgrEvent::Terminated) => {
                    events.push(json!({"k": "terminated"}));
                    break;
                }
            }
        }
        let mut calls = vec![];
        let mut all: Vec<(usize, Call)> = vec![];
        for tr in 0..self.h.transports() {
            all.extend(self.h.take_calls_on(tr).into_iter().map(|c| (tr, c)));
        }
        for (tr, c) in all {
            let trn = trname(tr);
            match c {
                Call::Dial { cid, address, ok } => {
                    if ok {
                        self.tx.insert(cid, Tx { st: "dialing", peer: stim_peer.into(), dir: "out", addrs: vec![address.clone()], opened: None, trs: vec![], ctr: tr });
                    }
                    calls.push(json!({"c": "dial", "cid": cid, "addrs": [self.aname(&address)], "ok": ok, "tr": trn}));
                }
                Call::Open { cid, addresses } => {
                    match self.tx.get_mut(&cid) {
                        // the same attempt handed to a second transport
                        Some(t) if t.st == "opening" && !t.trs.contains(&tr) => {
                            t.addrs.extend(addresses.iter().cloned());
                            t.trs.push(tr);
                        }
                        _ => {
                            self.tx.insert(cid, Tx { st: "opening", peer: stim_peer.into(), dir: "out", addrs: addresses.clone(), opened: None, trs: vec![tr], ctr: tr });
                        }
                    }
                    calls.push(json!({"c": "open", "cid": cid, "addrs": addresses.iter().map(|a| self.aname(a)).collect::<Vec<_>>(), "tr": trn}));
                }
                Call::Negotiate { cid, ok } => {
                    if ok {
                        self.tx.get_mut(&cid).unwrap().st = "negotiating";
                    }
                    calls.push(json!({"c": "negotiate", "cid": cid, "ok": ok, "tr": trn}));
                }
                Call::Cancel { cid } => {
                    if let Some(t) = self.tx.get_mut(&cid) {
                        t.trs.retain(|x| *x != tr);
                        if t.st == "opening" && t.trs.is_empty() {
                            t.st = "cancelled";
                        }
                    }
                    calls.push(json!({"c": "cancel", "cid": cid, "tr": trn}));
                }
                Call::Accept { cid, ok } => {
                    if ok {
                        let t = self.tx.get_mut(&cid).unwrap();
                        t.st = "accepting";
                        self.acc.insert(cid, (t.peer.clone(), t.dir.to_string()));
                    } else if let Some(t) = self.tx.get_mut(&cid) {
                        t.st = "closed";
                    }
                    calls.push(json!({"c": "accept", "cid": cid, "ok": ok}));
                }
                Call::Reject { cid, ok } => {
                    if let Some(t) = self.tx.get_mut(&cid) {
                        t.st = "rejected";
                    }
                    calls.push(json!({"c": "reject", "cid": cid, "ok": ok}));
                }
                Call::AcceptPending { cid, ok } => {
                    if let Some(t) = self.tx.get_mut(&cid) {
                        t.st = "in_neg";
                    }
                    calls.push(json!({"c": "accept_pending", "cid": cid, "ok": ok}));
                }
                Call::RejectPending { cid, ok } => {
                    if let Some(t) = self.tx.get_mut(&cid) {
                        t.st = "rejected";
                    }
                    calls.push(json!({"c": "reject_pending", "cid": cid, "ok": ok}));
                }
            }
        }
        (calls, events)
    }

    fn view(&self) -> Value {
        let mut m = serde_json::Map::new();
        for (n, p) in &self.peers {
            let v = self.h.peer_view(p);
            let k = match v.kind {
                "connected" => "conn",
                "opening" => "opening",
                "dialing" => "dialing",
                _ => "disc",
            };
            let f = |x: Option<usize>| x.map(|v| v as i64).unwrap_or(-1);
            m.insert(n.clone(), json!({"k": k, "pri": f(v.primary), "sec": f(v.secondary), "dial": f(v.dialing)}));
        }
        Value::Object(m)
    }

    /// Apply one stimulus. Returns the recorded line, or None if the stimulus is not applicable
    /// on the real run (model drift; the behaviour is abandoned, never judged).
    fn apply(&mut self, s: &Value) -> Option<Value> {
        let a = s["a"].as_str().unwrap();
        let mut stim = s.clone();
        let sp = s.get("p").and_then(|p| p.as_str()).unwrap_or("?").to_string();
        let cid = s.get("c").and_then(|c| c.as_u64()).map(|c| c as usize);
        let need = |w: &World, c: Option<usize>, sts: &[&str]| -> bool {
            c.and_then(|c| w.tx.get(&c)).map(|t| sts.contains(&t.st)).unwrap_or(false)
        };
        let mut ret = "none".to_string();
        let mut panic = false;
        // the requesting protocol's inbox is full while this stimulus is handled (burst of events):
        // whatever the manager owes that protocol must still arrive once it drains
        let clog = s.get("clog").and_then(|c| c.as_bool()).unwrap_or(false);
        if clog {
            stim["filler"] = json!(self.h.fill_protocol_inbox(0));
        }
        match a {
            "dial" | "probe" => {
                let p = self.peer(&sp);
                match catch(|| self.h.dial(p)) {
                    Ok(Ok(())) => ret = "ok".into(),
                    Ok(Err(e)) => {
                        ret = if e.contains("ConnectionLimit") { "limit".into() } else { "err".into() };
                        stim["err"] = json!(e);
                    }
                    Err(_) => panic = true,
                }
            }
            "hdial" => {
                let p = self.peer(&sp);
                match catch(|| self.h.service_dial(0, p)) {
                    Ok(Ok(())) => ret = "ok".into(),
                    Ok(Err(e)) => {
                        ret = "err".into();
                        stim["err"] = json!(e);
                    }
                    Err(_) => panic = true,
                }
            }
            "dial_addr" => {
                let addr = match s.get("maddr").and_then(|m| m.as_str()) {
                    Some(raw) => raw.parse::<Multiaddr>().expect("shape address parses"),
                    None => self.addrs[s["addr"].as_str().unwrap()].clone(),
                };
                match catch(|| self.h.dial_address(addr)) {
                    Ok(Ok(())) => ret = "ok".into(),
                    Ok(Err(e)) => {
                        ret = if e.contains("ConnectionLimit") { "limit".into() } else { "err".into() };
                        stim["err"] = json!(e);
                    }
                    Err(_) => panic = true,
                }
            }
            "hdial_addr" => {
                let addr = self.addrs[s["addr"].as_str().unwrap()].clone();
                match catch(|| self.h.service_dial_address(0, addr)) {
                    Ok(Ok(())) => ret = "ok".into(),
                    Ok(Err(e)) => {
                        ret = "err".into();
                        stim["err"] = json!(e);
                    }
                    Err(_) => panic = true,
                }
            }
            "add_known" => {
                let p = self.peer(&sp);
                let addr = self.addrs[s["addr"].as_str().unwrap()].clone();
                self.h.add_known_address(p, vec![addr]);
            }
            "dial_fail" => {
                if !need(self, cid, &["dialing"]) {
                    return None;
                }
                let t = self.tx.get_mut(&cid.unwrap()).unwrap();
                t.st = "failed";
                let addr = t.addrs[0].clone();
                stim["p"] = json!(t.peer);
                let tr = t.ctr;
                self.h.inject_dial_failure_on(tr, cid.unwrap(), addr, ErrKind::Timeout);
            }
            "established" => {
                if !need(self, cid, &["dialing", "negotiating"]) {
                    return None;
                }
                let c = cid.unwrap();
                let t = self.tx[&c].clone();
                // like the TCP transport, report the endpoint as <ip|dns>/tcp/<port> only
                let full = t.opened.clone().unwrap_or_else(|| t.addrs[0].clone());
                // (the WebSocket transport keeps the /ws component)
                let addr: Multiaddr = full.iter().take(if t.ctr == 1 { 3 } else { 2 }).collect();
                // the peer a TCP transport would authenticate: the one named right after /tcp
                let peer = match self.h.dial_expected_peer(c) {
                    Some(Some(p)) => p,
                    _ => self.peer(&t.peer),
                };
                stim["p"] = json!(t.peer);
                stim["dir"] = json!("out");
                stim["mismatch"] = json!(self.pname(&peer) != t.peer);
                stim["tcp_peer"] = json!(self.pname(&peer));
                if s.get("lost").and_then(|l| l.as_bool()).unwrap_or(false) {
                    self.h.fail_accept_call(c);
                }
                self.tx.get_mut(&c).unwrap().st = "est";
                self.h.inject_established_on(t.ctr, peer, c, false, addr);
            }
            "inbound" => {
                let tr = trnum(s.get("tr")).min(self.h.transports() - 1);
                let c = self.h.inject_pending_inbound_on(tr);
                if let Some(want) = cid {
                    if want != c {
                        return None;
                    }
                }
                stim["c"] = json!(c);
                stim["tr"] = json!(trname(tr));
                self.tx.insert(c, Tx { st: "pin", peer: "?".into(), dir: "in", addrs: vec![], opened: None, trs: vec![], ctr: tr });
            }
            "in_est" => {
                if !need(self, cid, &["in_neg"]) {
                    return None;
                }
                let c = cid.unwrap();
                let p = self.peer(&sp);
                let t = self.tx.get_mut(&c).unwrap();
                t.peer = sp.clone();
                t.st = "est";
                stim["dir"] = json!("in");
                stim["mismatch"] = json!(false);
                let tr = t.ctr;
                let addr: Multiaddr = format!("/ip4/172.16.0.{}/tcp/{}{}", c % 250 + 1, 40000 + c, if tr == 1 { "/ws" } else { "" }).parse().unwrap();
                self.h.inject_established_on(tr, p, c, true, addr);
            }
            "in_drop" => {
                if !need(self, cid, &["in_neg"]) {
                    return None;
                }
                self.tx.get_mut(&cid.unwrap()).unwrap().st = "failed";
            }
            "accept_ok" | "accept_err" => {
                if !need(self, cid, &["accepting"]) {
                    return None;
                }
                let c = cid.unwrap();
                stim["p"] = json!(self.tx[&c].peer);
                if a == "accept_err" {
                    self.tx.get_mut(&c).unwrap().st = "closed";
                    self.acc.remove(&c);
                }
                if !self.h.resolve_accept(c, a == "accept_ok") {
                    return None;
                }
            }
            "opened" => {
                if !need(self, cid, &["opening"]) {
                    return None;
                }
                let c = cid.unwrap();
                let addr = self.addrs[s["addr"].as_str().unwrap()].clone();
                let t = self.tx.get_mut(&c).unwrap();
                let tr = is_ws(&addr) as usize;
                if !t.addrs.contains(&addr) || !t.trs.contains(&tr) {
                    return None;
                }
                t.opened = Some(addr.clone());
                t.st = "opened";
                t.ctr = tr;
                stim["p"] = json!(t.peer);
                self.h.inject_opened_on(tr, c, addr, vec![]);
            }
            "open_fail" => {
                if !need(self, cid, &["opening"]) {
                    return None;
                }
                let c = cid.unwrap();
                let t = self.tx.get_mut(&c).unwrap();
                // the failing transport: the one named by the stimulus, else the first still opening
                let tr = match s.get("tr") {
                    Some(v) => trnum(Some(v)),
                    None => *t.trs.first().unwrap_or(&0),
                };
                if !t.trs.contains(&tr) {
                    return None;
                }
                t.trs.retain(|x| *x != tr);
                if t.trs.is_empty() {
                    t.st = "failed";
                }
                stim["p"] = json!(t.peer);
                stim["tr"] = json!(trname(tr));
                let errs = t.addrs.iter().filter(|a| is_ws(a) as usize == tr).map(|a| (a.clone(), ErrKind::Timeout)).collect();
                self.h.inject_open_failure_on(tr, c, errs);
            }
            "closed" => {
                if !need(self, cid, &["live"]) {
                    return None;
                }
                let c = cid.unwrap();
                let t = self.tx.get_mut(&c).unwrap();
                t.st = "closed";
                stim["p"] = json!(t.peer);
                let p = self.peer(&self.tx[&c].peer.clone());
                self.acc.remove(&c);
                self.h.connection_closed(p, c);
            }
            other => panic!("unknown stimulus {other}"),
        }
        let (mut calls, mut events) = (vec![], vec![]);
        let mut proto: Vec<Vec<String>> = vec![vec![]; self.h.protocols()];
        // the manager may be suspended on a full protocol inbox: poll it, let the protocols drain,
        // poll again - until nothing new shows up
        if clog {
            // a manager call that suspends on the full inbox must survive until the protocol drained
            self.h.keep_suspended(true);
        }
        for round in 0..4 {
            let (c, e) = match catch(|| self.drain(&sp)) {
                Ok(x) => x,
                Err(_) => {
                    panic = true;
                    (vec![], vec![])
                }
            };
            let progressed = !c.is_empty() || !e.is_empty();
            calls.extend(c);
            events.extend(e);
            let mut got = false;
            for i in 0..self.h.protocols() {
                let evs = self.h.protocol_events(i);
                got |= !evs.is_empty();
                if i == 0 {
                    // what the protocol that issues `hdial` sees
                    for e in &evs {
                        if let litep2p::verif::mgr::ProtoEvent::DialFailure { peer, addresses } = e {
                            events.push(json!({"k": "proto_dial_failure", "peer": self.pname(peer), "cid": -1,
                                "addrs": addresses.iter().map(|a| self.aname(a)).collect::<Vec<_>>()}));
                        }
                    }
                }
                proto[i].extend(evs.iter().map(|e| format!("{e:?}").chars().take(60).collect::<String>()));
            }
            if round > 0 && !progressed && !got {
                break;
            }
            if !clog && round == 0 {
                break;
            }
        }
        if clog {
            stim["suspended_at_end"] = json!(self.h.suspended() && self.h.queued() > 0);
            self.h.keep_suspended(false);
        }
        let (li, lo) = self.h.limits();
        let mut pend: Vec<usize> = self.h.pending_connections().iter().map(|(c, _)| *c).collect();
        pend.sort();
        Some(json!({"e": "step", "s": stim, "calls": calls, "events": events, "ret": ret, "panic": panic,
            "view": self.view(), "pend": pend, "lim": {"i": li, "o": lo}, "proto": proto}))
    }

    /// stimuli that a legal transport / user could produce now
    fn enabled(&self, rng: &mut StdRng) -> Vec<Value> {
        let mut v = vec![];
        for (n, _) in &self.peers {
            v.push(json!({"a": "dial", "p": n}));
            v.push(json!({"a": "hdial", "p": n}));
            let s = if self.h.transports() == 2 { ["a", "b", "w", "x", "w"][rng.gen_range(0..5)] } else { ["a", "b", "c"][rng.gen_range(0..3)] };
            v.push(json!({"a": "dial_addr", "p": n, "addr": format!("{n}{s}")}));
            v.push(json!({"a": "add_known", "p": n, "addr": format!("{n}{s}")}));
            v.push(json!({"a": "hdial_addr", "p": n, "addr": format!("{n}{s}")}));
        }
        v.push(json!({"a": "inbound", "tr": trname(rng.gen_range(0..self.h.transports()))}));
        for (c, t) in &self.tx {
            match t.st {
                "dialing" => {
                    v.push(json!({"a": "dial_fail", "c": c}));
                    v.push(json!({"a": "established", "c": c}));
                    if rng.gen_bool(0.15) {
                        v.push(json!({"a": "established", "c": c, "lost": true}));
                    }
                }
                "negotiating" => {
                    v.push(json!({"a": "established", "c": c}));
                    if rng.gen_bool(0.15) {
                        v.push(json!({"a": "established", "c": c, "lost": true}));
                    }
                }
                "opening" => {
                    let tr = *t.trs.choose(rng).unwrap();
                    v.push(json!({"a": "open_fail", "c": c, "tr": trname(tr)}));
                    let cand: Vec<&Multiaddr> = t.addrs.iter().filter(|a| t.trs.contains(&(is_ws(a) as usize))).collect();
                    if let Some(a) = cand.choose(rng) {
                        v.push(json!({"a": "opened", "c": c, "addr": self.aname(a)}));
                    }
                }
                "in_neg" => {
                    let p = PEERS[rng.gen_range(0..PEERS.len())];
                    v.push(json!({"a": "in_est", "c": c, "p": p}));
                    v.push(json!({"a": "in_drop", "c": c}));
                }
                "accepting" => {
                    v.push(json!({"a": "accept_ok", "c": c}));
                    v.push(json!({"a": "accept_ok", "c": c}));
                    v.push(json!({"a": "accept_err", "c": c}));
                }
                "live" => v.push(json!({"a": "closed", "c": c})),
                _ => {}
            }
        }
        v
    }

    /// capacity probe (C06): at quiescence a pending inbound socket and then a connection from a
    /// peer we are not connected to are offered; below the limits both must be accepted. The
    /// connection is closed again afterwards.
    fn capacity_probe(&mut self, out: &mut Vec<String>) {
        if self.outstanding() {
            return;
        }
        let Some(peer) = self.peers.iter().map(|(n, _)| n.clone()).find(|n| !self.acc.values().any(|(p, _)| p == n)) else { return };
        let mut push = |w: &mut World, s: Value| -> bool {
            match w.apply(&s) {
                Some(l) => {
                    out.push(l.to_string());
                    true
                }
                None => false,
            }
        };
        if !push(self, json!({"a": "inbound"})) {
            return;
        }
        let Some((&c, _)) = self.tx.iter().rev().find(|(_, t)| t.st == "in_neg") else { return };
        if !push(self, json!({"a": "in_est", "c": c, "p": peer})) {
            return;
        }
        if self.tx[&c].st == "accepting" && push(self, json!({"a": "accept_ok", "c": c})) {
            push(self, json!({"a": "closed", "c": c}));
        }
        if !self.outstanding() {
            out.push(json!({"e": "quiesce"}).to_string());
        }
    }

    /// per-peer cap probe (only at quiescence): a peer that has a connection is offered three more
    /// inbound connections; whatever the manager's bookkeeping of that peer looks like by now, it must
    /// never keep more than two (the monitor counts what was accepted and has not closed)
    fn percap_probe(&mut self, out: &mut Vec<String>) {
        for (n, _) in self.peers.clone() {
            if self.outstanding() || !self.acc.values().any(|(p, _)| p == &n) {
                continue;
            }
            let mut mine = vec![];
            for _ in 0..3 {
                let Some(l) = self.apply(&json!({"a": "inbound"})) else { break };
                out.push(l.to_string());
                let Some((&c, _)) = self.tx.iter().rev().find(|(_, t)| t.st == "in_neg") else { break };
                let Some(l) = self.apply(&json!({"a": "in_est", "c": c, "p": n})) else { break };
                out.push(l.to_string());
                if self.tx[&c].st == "accepting" {
                    if let Some(l) = self.apply(&json!({"a": "accept_ok", "c": c})) {
                        out.push(l.to_string());
                        mine.push(c);
                    }
                }
            }
            for c in mine {
                if let Some(l) = self.apply(&json!({"a": "closed", "c": c})) {
                    out.push(l.to_string());
                }
            }
            if !self.outstanding() {
                out.push(json!({"e": "quiesce"}).to_string());
            }
        }
    }

    /// wedge probe for every peer without an accepted connection (only at quiescence)
    fn probes(&mut self, out: &mut Vec<String>) {
        self.percap_probe(out);
        self.capacity_probe(out);
        for (n, _) in self.peers.clone() {
            if self.acc.values().any(|(p, _)| p == &n) || self.outstanding() {
                continue;
            }
            self.fresh += 1;
            let p = self.peer(&n);
            let fresh: Multiaddr = format!("/ip4/10.200.{}.{}/tcp/{}", self.fresh / 250, self.fresh % 250 + 1, 20000 + self.fresh).parse().unwrap();
            let fresh = fresh.with(Protocol::P2p(p.into()));
            let name = format!("{n}f{}", self.fresh);
            self.addrs.insert(name.clone(), fresh);
            if let Some(l) = self.apply(&json!({"a": "add_known", "p": n, "addr": name})) {
                out.push(l.to_string());
            }
            if let Some(l) = self.apply(&json!({"a": "probe", "p": n})) {
                out.push(l.to_string());
            }
            // conclude the probe attempt so that later probes see a quiescent manager
            let open: Vec<(usize, &'static str)> = self.tx.iter().filter(|(_, t)| matches!(t.st, "opening" | "dialing")).map(|(c, t)| (*c, t.st)).collect();
            for (c, st) in open {
                let s = if st == "opening" { json!({"a": "open_fail", "c": c}) } else { json!({"a": "dial_fail", "c": c}) };
                if let Some(l) = self.apply(&s) {
                    out.push(l.to_string());
                }
            }
            if !self.outstanding() {
                out.push(json!({"e": "quiesce"}).to_string());
            }
        }
    }
}

fn run_behaviour(b: usize, max_in: i64, max_out: i64, two: bool, stims: &[Value], src: &str, probe: bool) -> (Vec<String>, bool) {
    let mut w = World::new_tr(max_in, max_out, two);
    let mut out = vec![json!({"e": "reset", "b": b, "src": src, "maxIn": max_in, "maxOut": max_out, "two": two}).to_string()];
    let mut drift = false;
    // a seeded twelfth of the transport outcomes is delivered while the requesting protocol's inbox is full
    let mut crng = StdRng::seed_from_u64(b as u64 ^ 0x5eed);
    for s in stims {
        let mut s = s.clone();
        if matches!(s["a"].as_str(), Some("open_fail" | "dial_fail" | "established")) && crng.gen_range(0..12) == 0 {
            s["clog"] = json!(true);
        }
        let s = &s;
        match w.apply(s) {
            Some(l) => out.push(l.to_string()),
            None => {
                if std::env::var("VERIF_DEBUG").is_ok() {
                    eprintln!("NA b={b} stim={s} tx={:?}", w.tx.iter().map(|(c, t)| (*c, t.st, t.trs.clone(), t.ctr)).collect::<Vec<_>>());
                }
                drift = true;
                break;
            }
        }
        if !w.outstanding() {
            out.push(json!({"e": "quiesce"}).to_string());
        }
    }
    if probe && !drift && !w.outstanding() {
        w.probes(&mut out);
    }
    (out, drift)
}

/// C05 "malformed or adversarial addresses": every constructible multiaddress shape is handed to
/// `dial_address`; if the manager starts a dial the scripted transport concludes it the way the TCP
/// transport would (it authenticates the peer named right after /tcp/<port>), then the peer the
/// manager booked the dial for is probed.
fn run_shapes(b0: usize, rng: &mut StdRng, per_class: usize, out: &mut Vec<String>) -> (usize, usize) {
    use vharness::shapes::*;
    let (mut nb, mut classes) = (0, 0);
    for first in FIRSTS {
        for second in SECONDS {
            for tail in TAILS {
                for local in ["no", "exact"] {
                    let mut built = false;
                    for inst in 0..per_class {
                        let mut w = World::new(-1, -1);
                        let own = w.peer("p1");
                        let foreign = w.peer("p2");
                        let node = w.h.local_peer_id();
                        let Some(addr) = concretise(first, second, tail, local, own, foreign, node, rng) else { continue };
                        built = true;
                        // the peer the manager books the attempt for: the last /p2p component
                        let booked = match addr.iter().last() {
                            Some(Protocol::P2p(p)) => PeerId::from_multihash(p).ok().map(|p| w.pname(&p)).unwrap_or_else(|| "?".into()),
                            _ => "?".into(),
                        };
                        let booked = if booked == "?" { "p3".to_string() } else { booked };
                        out.push(json!({"e": "reset", "b": b0 + nb, "src": "shapes", "maxIn": -1, "maxOut": -1,
                            "shape": {"first": first, "second": second, "tail": tail, "local": local}}).to_string());
                        nb += 1;
                        let Some(l) = w.apply(&json!({"a": "dial_addr", "p": booked, "addr": addr.to_string(), "maddr": addr.to_string()})) else { continue };
                        out.push(l.to_string());
                        // conclude whatever was started
                        let pending: Vec<(usize, &'static str)> = w.tx.iter().map(|(c, t)| (*c, t.st)).collect();
                        for (c, st) in pending {
                            if st == "dialing" {
                                // even instances: the remote is who the transport expects; odd: dial failure
                                let s = if inst % 2 == 0 { json!({"a": "established", "c": c}) } else { json!({"a": "dial_fail", "c": c}) };
                                if let Some(l) = w.apply(&s) {
                                    out.push(l.to_string());
                                }
                                if w.tx[&c].st == "accepting" {
                                    if let Some(l) = w.apply(&json!({"a": "accept_ok", "c": c})) {
                                        out.push(l.to_string());
                                    }
                                    if let Some(l) = w.apply(&json!({"a": "closed", "c": c})) {
                                        out.push(l.to_string());
                                    }
                                }
                            }
                        }
                        if !w.outstanding() {
                            out.push(json!({"e": "quiesce"}).to_string());
                            w.probes(out);
                        }
                    }
                    classes += built as usize;
                }
            }
        }
    }
    (nb, classes)
}

fn run_random(b: usize, rng: &mut StdRng, len: usize) -> Vec<String> {
    let lims: [(i64, i64); 10] = [(-1, -1), (1, 1), (0, 1), (1, 0), (2, 1), (1, 2), (2, 2), (0, 0), (-1, 1), (3, 1)];
    let (mi, mo) = lims[rng.gen_range(0..lims.len())];
    // every third history runs with two transports (TCP + WebSocket)
    let two = rng.gen_range(0..3) == 0;
    let mut w = World::new_tr(mi, mo, two);
    let mut out = vec![json!({"e": "reset", "b": b, "src": "random", "maxIn": mi, "maxOut": mo, "two": two}).to_string()];
    for _ in 0..len {
        let en = w.enabled(rng);
        // prefer delivering outcomes to issuing new requests
        let s = if rng.gen_bool(0.6) && en.len() > 16 { en[16..].choose(rng).unwrap().clone() } else { en.choose(rng).unwrap().clone() };
        let mut s = s;
        if matches!(s["a"].as_str(), Some("open_fail" | "dial_fail" | "established")) && rng.gen_range(0..12) == 0 {
            s["clog"] = json!(true);
        }
        if let Some(l) = w.apply(&s) {
            out.push(l.to_string());
        }
        if !w.outstanding() {
            out.push(json!({"e": "quiesce"}).to_string());
            if rng.gen_bool(0.1) {
                w.probes(&mut out);
            }
        }
    }
    // drain everything outstanding so the history ends quiescent, then probe
    for _ in 0..200 {
        if !w.outstanding() {
            break;
        }
        let en = w.enabled(rng);
        let s = en[16..].choose(rng).unwrap().clone();
        if let Some(l) = w.apply(&s) {
            out.push(l.to_string());
        }
    }
    if !w.outstanding() {
        out.push(json!({"e": "quiesce"}).to_string());
        w.probes(&mut out);
    }
    out
}

/// C07 at manager level: close reports of several connections wait in the manager's channel at the same
/// time (the application did not poll `next_event()` for a moment, several remotes vanished together, one
/// protocol force-closed several peers).  Every peer whose last connection is among them must be reported
/// closed to the application, exactly once.  The log uses the vocabulary of ConnLifeNet (one ledger per
/// peer: "node" P1..P3 = the local application's view of that peer).
fn run_close_burst(b: usize, rng: &mut StdRng) -> Vec<String> {
    let mut w = World::new_tr(-1, -1, false);
    let mut out = vec![json!({"e": "reset", "sc": format!("mgr-close-burst-{b}"), "src": "mgrburst", "seed": b, "exit": "close-burst",
        "protos": {"A": [], "B": []}}).to_string()];
    let names: Vec<String> = w.peers.iter().map(|(n, _)| n.clone()).collect();
    let ledger = |n: &str| format!("P{}", names.iter().position(|x| x == n).unwrap() + 1);
    // connections per peer: 1 or 2 inbound connections, each announced through the real manager
    let mut live: Vec<(String, usize)> = vec![];
    let mut announced: HashMap<String, usize> = HashMap::new();
    for n in &names {
        for _ in 0..rng.gen_range(1..=2usize) {
            if w.apply(&json!({"a": "inbound"})).is_none() {
                continue;
            }
            let Some((&c, _)) = w.tx.iter().rev().find(|(_, t)| t.st == "in_neg") else { continue };
            let Some(l) = w.apply(&json!({"a": "in_est", "c": c, "p": n})) else { continue };
            let _ = l;
            if w.tx[&c].st != "accepting" {
                continue;
            }
            if let Some(l) = w.apply(&json!({"a": "accept_ok", "c": c})) {
                for e in l["events"].as_array().unwrap() {
                    if e["k"] == "est" {
                        announced.insert(n.clone(), c);
                        out.push(json!({"e": "app_est", "n": ledger(n), "cid": c}).to_string());
                    }
                }
                live.push((n.clone(), c));
            }
        }
    }
    // the burst: a random subset of at least two connections is reported closed before the manager is polled again
    live.shuffle(rng);
    let k = rng.gen_range(2..=live.len().max(2)).min(live.len());
    let burst: Vec<(String, usize)> = live[..k].to_vec();
    for (n, c) in &burst {
        let p = w.peer(n);
        w.tx.get_mut(c).unwrap().st = "closed";
        w.acc.remove(c);
        w.h.connection_closed(p, *c);
    }
    out.push(json!({"e": "burst", "n": "A", "cids": burst.iter().map(|(_, c)| *c).collect::<Vec<_>>()}).to_string());
    let (_, events) = w.drain("");
    for e in &events {
        if e["k"] == "closed" {
            let n = e["peer"].as_str().unwrap().to_string();
            // the ledger is per peer: the closed event closes the connection that was announced for the peer
            out.push(json!({"e": "app_closed", "n": ledger(&n), "cid": announced.get(&n).copied().unwrap_or(0), "reported_cid": e["cid"]}).to_string());
        }
    }
    // peers that still have a connection are closed one by one (ordinary path), then everything must be reported
    for (n, c) in live[k..].to_vec() {
        if let Some(l) = w.apply(&json!({"a": "closed", "c": c})) {
            for e in l["events"].as_array().unwrap() {
                if e["k"] == "closed" {
                    out.push(json!({"e": "app_closed", "n": ledger(&n), "cid": announced.get(&n).copied().unwrap_or(0), "reported_cid": e["cid"]}).to_string());
                }
            }
        }
    }
    for n in &names {
        out.push(json!({"e": "quiesce", "n": ledger(n)}).to_string());
    }
    out
}

fn main() {
    let args = Args::parse();
    quiet_panics();
    let seed = args.u64("seed", 1);
    let out = args.str("out", "trace.ndjson");
    let mut lines = vec![];
    let (mut nb, mut drift) = (0usize, 0usize);
    if let Some(path) = args.get("behaviours") {
        for b in read_jsonl(path) {
            let stims = b["stims"].as_array().unwrap();
            let two = b.get("two").and_then(|t| t.as_bool()).unwrap_or(false);
            let (l, d) = run_behaviour(nb, b["maxIn"].as_i64().unwrap(), b["maxOut"].as_i64().unwrap(), two, stims, "tlc", true);
            drift += d as usize;
            lines.extend(l);
            nb += 1;
        }
    }
    let nrandom = args.u64("random", 0) as usize;
    let rlen = args.u64("len", 60) as usize;
    let mut rng = StdRng::seed_from_u64(seed);
    for _ in 0..nrandom {
        lines.extend(run_random(nb, &mut rng, rlen));
        nb += 1;
    }
    let (mut shape_runs, mut shape_classes) = (0, 0);
    if let Some(pc) = args.get("shapes") {
        let (n, c) = run_shapes(nb, &mut rng, pc.parse().unwrap(), &mut lines);
        nb += n;
        shape_runs = n;
        shape_classes = c;
    }
    let nburst = args.u64("closeburst", 0) as usize;
    for i in 0..nburst {
        lines.extend(run_close_burst(i, &mut rng));
    }
    let events = lines.iter().filter(|l| l.contains("\"e\":\"step\"")).count();
    write_lines(&out, &lines);
    println!("SUMMARY {}", json!({"behaviours": nb, "events": events, "not_applicable_stimulus": drift, "shape_runs": shape_runs, "shape_classes": shape_classes}));
}
