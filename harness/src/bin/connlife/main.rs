//! C07 - a terminated connection is reported closed to everyone exactly once.
//!
//! Runs many small scenarios, each on a fresh pair of real litep2p nodes (A, B) connected over
//! loopback through one transport (`tcp`, `ws` = WebSocket, `quic`).  For tcp and ws two harness
//! proxies sit in between (A dials B through `ab`, B dials A through `ba`); QUIC runs without proxy:
//! "the connection is gone" is then taken from the nodes' own reports (one side reported closed, or
//! one side was killed) and steps that need the proxy (cut, stall) are not available.
//! A scenario is a list of driver steps (connect, simultaneous connect, cut / stall the byte
//! stream, kill the remote, force_close, wait for keep-alive expiry, drop a local protocol, open
//! substreams, pause a protocol, quiesce, redial probe).  Everything the application loops and the
//! user protocols observe is recorded in one per-scenario log; TLC validates it against the
//! property monitor of `ConnLifeNet.tla`.
#[path = "../netcommon/mod.rs"]
mod netcommon;

use netcommon::{
    exec::Perturb,
    is,
    node::{Node, NodeCfg, OpenMode, ProtoCmd},
    proxy::{Policy, Proxy, CUT, FWD, STALL},
    LoadProbe, Log,
};
use rand::{rngs::StdRng, Rng, SeedableRng};
use serde_json::{json, Value};
use std::{sync::Arc, time::Duration};
use vharness::*;

struct World {
    log: Log,
    a: Node,
    b: Node,
    ab: Option<Proxy>,
    ba: Option<Proxy>,
    transport: String,
    rng: StdRng,
    deadline: Duration,
    paused: std::collections::HashSet<(String, String)>,
}

/// What the driver believes node `n` currently thinks, derived from the log (only used to decide how
/// long to wait; the verdict is TLC's).
struct View {
    conns: i64,
    up: std::collections::HashMap<String, bool>,
    dials_started: usize,
    dials_concluded: usize,
}

/// `anydir`: count every established report of `n` as the conclusion of one of its dials (QUIC reports
/// connections opened through `dial(peer)` with a listener endpoint)
fn view(l: &[Value], n: &str, protos: &[String], anydir: bool) -> View {
    let mut v = View { conns: 0, up: protos.iter().map(|q| (q.clone(), false)).collect(), dials_started: 0, dials_concluded: 0 };
    for e in l {
        if e["n"] != n {
            continue;
        }
        let q = e["q"].as_str().unwrap_or("").to_string();
        match e["e"].as_str().unwrap_or("") {
            "app_est" => {
                v.conns += 1;
                if e["dir"] == "out" || anydir {
                    v.dials_concluded += 1;
                }
            }
            "app_closed" => v.conns = 0,
            "app_dial_failure" => v.dials_concluded += 1,
            "dial_ret" if e["ret"] == "ok" => v.dials_started += 1,
            "redial" if e["ok"] == true && e["attempted"] == true => v.dials_started += 1,
            "p_est" => { v.up.insert(q, true); }
            "p_closed" => { v.up.insert(q, false); }
            "p_exit" | "p_none" => { v.up.remove(&q); }
            _ => {}
        }
    }
    v
}

fn ms(v: &Value, k: &str, d: u64) -> Duration {
    Duration::from_millis(v[k].as_u64().unwrap_or(d))
}

fn node_cfg(name: &str, v: &Value, seed: u64) -> NodeCfg {
    let mut c = NodeCfg::new(name, seed ^ if name == "A" { 0xA } else { 0xB });
    c.keep_alive = ms(v, "ka_ms", 120_000);
    if v["q3"].as_bool().unwrap_or(false) {
        c.protos.push("q3".into());
    }
    if let Some(p) = v["ping_ms"].as_u64() {
        c.ping = Some(Duration::from_millis(p));
    }
    c.identify = v["identify"].as_bool().unwrap_or(false);
    c.perturb = Perturb::level(v["perturb"].as_u64().unwrap_or(0));
    c.substream_open_timeout = ms(v, "sub_timeout_ms", 5_000);
    c
}

fn protos_of(n: &Node) -> Vec<String> {
    n.protos.keys().cloned().collect()
}

impl World {
    fn node(&self, n: &str) -> &Node {
        if n == "A" { &self.a } else { &self.b }
    }
    fn node_mut(&mut self, n: &str) -> &mut Node {
        if n == "A" { &mut self.a } else { &mut self.b }
    }
    fn other(n: &str) -> &'static str {
        if n == "A" { "B" } else { "A" }
    }
    /// proxy used when `n` dials (tcp / ws)
    fn px_of(&self, n: &str) -> Option<&Proxy> {
        if n == "A" { self.ab.as_ref() } else { self.ba.as_ref() }
    }
    fn proxies(&self) -> Vec<&Proxy> {
        self.ab.iter().chain(self.ba.iter()).collect()
    }
    /// socket address `n` dials to reach the other node
    fn target_of(&self, n: &str) -> std::net::SocketAddr {
        match self.px_of(n) {
            Some(p) => p.listen,
            None => self.node(Self::other(n)).listen,
        }
    }
    fn addr_of(&self, n: &str) -> multiaddr::Multiaddr {
        Node::addr_via(&self.transport, self.target_of(n), self.node(Self::other(n)).peer)
    }
    /// number of dial attempts of `n` that became visible: connections accepted by the proxy, or (no
    /// proxy) dial outcomes the node reported
    fn attempts(&self, n: &str) -> usize {
        match self.px_of(n) {
            Some(p) => p.accepted.load(std::sync::atomic::Ordering::SeqCst) as usize,
            None => self.log.count_from(0, |v| v["n"] == n && (is(v, "app_est") || is(v, "app_dial_failure"))),
        }
    }
    /// every connection between the two nodes is known to be gone
    fn all_dead(&self) -> bool {
        if self.ab.is_some() {
            return self.proxies().iter().all(|p| p.all_dead());
        }
        // no proxy: a node was killed, or one side reported that it holds no connection any more
        if !self.a.alive || !self.b.alive {
            return true;
        }
        let (pa, pb) = (protos_of(&self.a), protos_of(&self.b));
        self.log.with(|l| view(l, "A", &pa, true).conns == 0 || view(l, "B", &pb, true).conns == 0)
    }

    fn settled(l: &[Value], n: &str, protos: &[String], anydir: bool) -> bool {
        let v = view(l, n, protos, anydir);
        v.conns == 0 && v.up.values().all(|x| !*x) && v.dials_concluded >= v.dials_started
    }

    /// every running protocol of `n` that is being polled has recorded `established`
    fn all_up(&self, l: &[Value], n: &str) -> bool {
        let protos: Vec<String> = self.node(n).protos.keys().cloned().collect();
        let v = view(l, n, &protos, false);
        v.up.iter().all(|(q, up)| *up || self.paused.contains(&(n.to_string(), q.clone())))
    }

    async fn wait_connect(&self, from: &str, mark: usize, cut: bool) -> (bool, bool) {
        let to = Self::other(from);
        let to_alive = self.node(to).alive;
        let has = |l: &[Value], e: &str, n: &str| l.iter().skip(mark).any(|v| is(v, e) && v["n"] == n);
        let pxname = self.px_of(from).map(|p| p.name.clone()).unwrap_or_default();
        let done = |l: &[Value]| {
            let est_from = has(l, "app_est", from);
            let est_to = has(l, "app_est", to);
            (est_from && self.all_up(l, from)) && (!to_alive || (est_to && self.all_up(l, to)))
        };
        self.log
            .wait(self.deadline, |l| {
                let fail = has(l, "app_dial_failure", from);
                // the stream(s) of this attempt ended already (one side refused / rolled back / cut)
                let acc = l.iter().skip(mark).filter(|v| is(v, "px_accept") && v["px"] == pxname.as_str()).count();
                let dead = l.iter().skip(mark).filter(|v| is(v, "px_dead") && v["px"] == pxname.as_str()).count();
                done(l) || fail || (acc > 0 && dead >= acc && (has(l, "app_est", from) || has(l, "app_est", to) || cut))
            })
            .await;
        // a late report gets a grace period (long when the attempt ended without everybody having reported)
        let complete = self.log.with(|l| done(l));
        tokio::time::sleep(Duration::from_millis(if complete { 20 } else { 500 })).await;
        self.log.with(|l| (has(l, "app_est", from), has(l, "app_est", to)))
    }

    fn newconn_lines(&self, mark: usize, est: (bool, bool), from: &str, faulted: bool) {
        let to = Self::other(from);
        for (n, mine, theirs) in [(from, est.0, est.1), (to, est.1, est.0)] {
            if !self.node(n).alive {
                continue;
            }
            let qs: Vec<String> = self.log.with(|l| {
                l.iter().skip(mark).filter(|v| is(v, "p_est") && v["n"] == n).map(|v| v["q"].as_str().unwrap().to_string()).collect()
            });
            // `must`: the remote side reported the connection as established and the harness injected no fault
            self.log.push(json!({"e": "newconn", "n": n, "app": mine, "qs": qs, "must": theirs && !faulted}));
        }
    }

    async fn step(&mut self, st: &Value) -> Result<(), String> {
        let op = st["op"].as_str().unwrap_or("");
        let n = st["n"].as_str().unwrap_or("A").to_string();
        match op {
            "connect" => {
                let from = st["from"].as_str().unwrap_or("A");
                let to = Self::other(from);
                let cut_at = st["cut_at"].as_u64();
                match self.px_of(from) {
                    Some(px) => *px.policy.lock().unwrap() = Policy { cut_at, refuse: false },
                    None if cut_at.is_some() => return Err("needs the proxy".into()),
                    None => {}
                }
                let mark = self.log.len();
                let addr = self.addr_of(from);
                self.log.push(json!({"e": "dial_begin", "n": from}));
                let ret = self.node(from).dial_address(addr).await;
                self.log.push(json!({"e": "dial_ret", "n": from, "ret": ret.clone().err().unwrap_or("ok".into())}));
                if let Some(victim) = st["kill_on_est"].as_str() {
                    // crash one side the moment it reports the connection (the other side sees a connection
                    // that ends right after - or while - it is being accepted)
                    let v = victim.to_string();
                    self.log.wait(self.deadline, |l| l.iter().skip(mark).any(|e| is(e, "app_est") && e["n"] == v.as_str())).await;
                    self.log.push(json!({"e": "kill", "n": victim}));
                    self.node_mut(victim).kill();
                }
                let est = self.wait_connect(from, mark, cut_at.is_some() || st["kill_on_est"].is_string()).await;
                self.log.push(json!({"e": "conn_result", "from": from, "est_from": est.0, "est_to": est.1}));
                if st["expect"].as_bool().unwrap_or(false) {
                    self.newconn_lines(mark, est, from, cut_at.is_some());
                } else if cut_at.is_none() && !st["kill_on_est"].is_string() && !(est.0 && est.1) && self.node(to).alive {
                    return Err(format!("connect {from}->{to} did not establish on both sides: {est:?}"));
                }
            }
            "connect2" => {
                let mark = self.log.len();
                for p in self.proxies() {
                    *p.policy.lock().unwrap() = Policy::default();
                }
                if self.ab.is_none() {
                    return Err("needs the proxy".into());
                }
                let (aa, ba) = (self.addr_of("A"), self.addr_of("B"));
                self.log.push(json!({"e": "dial_begin", "n": "A"}));
                self.log.push(json!({"e": "dial_begin", "n": "B"}));
                let (ra, rb) = tokio::join!(self.a.dial_address(aa), self.b.dial_address(ba));
                self.log.push(json!({"e": "dial_ret", "n": "A", "ret": ra.err().unwrap_or("ok".into())}));
                self.log.push(json!({"e": "dial_ret", "n": "B", "ret": rb.err().unwrap_or("ok".into())}));
                // every dial settles: its own established event, a failure, or its stream ended
                let deadline = self.deadline;
                self.log
                    .wait(deadline, |l| {
                        ["A", "B"].iter().all(|d| {
                            let px = if *d == "A" { "ab" } else { "ba" };
                            l.iter().skip(mark).any(|v| v["n"] == *d && ((is(v, "app_est") && v["dir"] == "out") || is(v, "app_dial_failure")))
                                || l.iter().skip(mark).any(|v| is(v, "px_dead") && v["px"] == px)
                        })
                    })
                    .await;
                // then everybody who is going to report gets time to do so
                self.log.wait(Duration::from_millis(1500), |l| ["A", "B"].iter().all(|x| self.all_up(l, x) && l.iter().skip(mark).any(|v| is(v, "app_est") && v["n"] == *x))).await;
                tokio::time::sleep(Duration::from_millis(200)).await;
                let cnt = |n: &str, dir: &str| self.log.count_from(mark, |v| is(v, "app_est") && v["n"] == n && v["dir"] == dir);
                let live: usize = self.proxies().iter().map(|p| p.live().len()).sum();
                self.log.push(json!({"e": "conn2_result", "a_out": cnt("A", "out"), "a_in": cnt("A", "in"), "b_out": cnt("B", "out"), "b_in": cnt("B", "in"), "live": live}));
                if st["expect"].as_bool().unwrap_or(false) {
                    for (x, y) in [("A", "B"), ("B", "A")] {
                        let mine = cnt(x, "in") + cnt(x, "out") > 0;
                        let theirs = cnt(y, "in") + cnt(y, "out") > 0;
                        self.log.push(json!({"e": "newconn", "n": x, "app": mine, "qs": [], "must": theirs}));
                    }
                } else if live == 0 {
                    return Err("simultaneous dial left no connection".into());
                }
            }
            "cut" => {
                let which = st["which"].as_str().unwrap_or("all");
                if self.ab.is_none() {
                    return Err("needs the proxy".into());
                }
                let pxs: Vec<&Proxy> = match st["px"].as_str().unwrap_or("both") {
                    "ab" => self.ab.iter().collect(),
                    "ba" => self.ba.iter().collect(),
                    _ => self.proxies(),
                };
                let mut live: Vec<_> = pxs.iter().flat_map(|p| p.live().into_iter().map(|s| (p.name.clone(), s))).collect();
                if which == "one" && live.len() > 1 {
                    let k = self.rng.gen_range(0..live.len());
                    live = vec![live.swap_remove(k)];
                }
                for (p, s) in &live {
                    self.log.push(json!({"e": "cut_begin", "px": p, "s": s.id}));
                    s.set(CUT);
                }
                let t = std::time::Instant::now();
                while live.iter().any(|(_, s)| !s.is_dead()) && t.elapsed() < Duration::from_secs(5) {
                    tokio::time::sleep(Duration::from_millis(5)).await;
                }
            }
            "stall" | "unstall" => {
                let m = if op == "stall" { STALL } else { FWD };
                if self.ab.is_none() {
                    return Err("needs the proxy".into());
                }
                self.log.push(json!({"e": op}));
                for p in self.proxies() {
                    p.set_all(m);
                }
            }
            "kill" => {
                self.log.push(json!({"e": "kill", "n": n}));
                self.node_mut(&n).kill();
            }
            "force_close" => {
                let q = st["q"].as_str().unwrap_or("q1");
                self.log.push(json!({"e": "fc_begin", "n": n, "q": q}));
                let peer = self.node(Self::other(&n)).peer;
                let r = self.node(&n).force_close(q, peer).await;
                self.log.push(json!({"e": "fc_ret", "n": n, "q": q, "ret": r.err().unwrap_or("ok".into())}));
            }
            "drop_proto" => {
                let q = st["q"].as_str().unwrap_or("q3").to_string();
                self.log.push(json!({"e": "drop_begin", "n": n, "q": q}));
                self.node(&n).cmd(&q, ProtoCmd::Exit).await;
                let nn = n.clone();
                self.log.wait(Duration::from_secs(5), |l| l.iter().any(|v| is(v, "p_exit") && v["n"] == nn.as_str() && v["q"] == q.as_str())).await;
                tokio::time::sleep(Duration::from_millis(20)).await;
            }
            "open_exit" => {
                // the protocol requests a substream and shuts down at once: the outcome (negotiated /
                // refused by the remote / timed out) arrives when the protocol is gone
                let q = st["q"].as_str().unwrap_or("q3").to_string();
                let peer = self.node(Self::other(&n)).peer;
                self.log.push(json!({"e": "drop_begin", "n": n, "q": q, "with_open": true}));
                let (tx, rx) = tokio::sync::oneshot::channel();
                self.node(&n).cmd(&q, ProtoCmd::OpenExit { peer, resp: tx }).await;
                let r = tokio::time::timeout(Duration::from_secs(5), rx).await;
                let ret = match r {
                    Ok(Ok(Ok(_))) => "ok".to_string(),
                    Ok(Ok(Err(e))) => e,
                    _ => "no answer".to_string(),
                };
                self.log.push(json!({"e": "open_exit", "n": n, "q": q, "ret": ret}));
                let nn = n.clone();
                self.log.wait(Duration::from_secs(5), |l| l.iter().any(|v| is(v, "p_exit") && v["n"] == nn.as_str() && v["q"] == q.as_str())).await;
            }
            "pause" | "resume" => {
                let q = st["q"].as_str().unwrap_or("q2");
                self.log.push(json!({"e": op, "n": n, "q": q}));
                if op == "pause" {
                    self.paused.insert((n.clone(), q.to_string()));
                } else {
                    self.paused.remove(&(n.clone(), q.to_string()));
                }
                self.node(&n).cmd(q, if op == "pause" { ProtoCmd::Pause } else { ProtoCmd::Resume }).await;
            }
            "open" => {
                // a substream opened (and echoed) after `proof_begin` proves that a connection between
                // the two nodes was alive after that point, at both ends
                let q = st["q"].as_str().unwrap_or("q1");
                let mode = match st["mode"].as_str().unwrap_or("echo") {
                    "hold" => OpenMode::Hold,
                    "fire" => OpenMode::Fire,
                    _ => OpenMode::Echo,
                };
                let peer = self.node(Self::other(&n)).peer;
                if mode == OpenMode::Fire {
                    let r = self.node(&n).open(q, peer, mode, Duration::from_secs(2)).await;
                    self.log.push(json!({"e": "fire", "n": n, "q": q, "ret": r.err().unwrap_or("ok".into())}));
                } else {
                    for x in ["A", "B"] {
                        if self.node(x).alive {
                            self.log.push(json!({"e": "proof_begin", "n": x, "via": format!("{n}.{q}")}));
                        }
                    }
                    match self.node(&n).open(q, peer, mode, Duration::from_secs(12)).await {
                        Ok(_) => {
                            for x in ["A", "B"] {
                                if self.node(x).alive {
                                    self.log.push(json!({"e": "proof_ok", "n": x, "via": format!("{n}.{q}")}));
                                }
                            }
                        }
                        Err(e) => {
                            self.log.push(json!({"e": "proof_fail", "n": n, "q": q, "err": e}));
                        }
                    }
                }
            }
            "drop_held" => {
                let q = st["q"].as_str().unwrap_or("q1");
                let k = self.node(&n).drop_held(q).await;
                self.log.push(json!({"e": "drop_held", "n": n, "q": q, "k": k}));
            }
            "sleep" => tokio::time::sleep(ms(st, "ms", 100)).await,
            "wait_dead" => {
                let d = ms(st, "deadline_ms", 10_000);
                let t = std::time::Instant::now();
                while !self.all_dead() && t.elapsed() < d {
                    tokio::time::sleep(Duration::from_millis(10)).await;
                }
                self.log.push(json!({"e": "all_dead", "ok": self.all_dead()}));
                if !self.all_dead() {
                    return Err("connection did not end within the waiting time".into());
                }
            }
            "quiesce" => {
                let t = std::time::Instant::now();
                while !self.all_dead() && t.elapsed() < self.deadline {
                    tokio::time::sleep(Duration::from_millis(10)).await;
                }
                if !self.all_dead() {
                    self.log.push(json!({"e": "all_dead", "ok": false}));
                    return Err("streams still alive at quiesce".into());
                }
                self.log.push(json!({"e": "all_dead", "ok": true}));
                for x in ["A", "B"] {
                    if self.node(x).alive {
                        for q in self.node(x).protos.keys() {
                            self.node(x).cmd(q, ProtoCmd::Resume).await;
                        }
                    }
                }
                self.paused.clear();
                let alive: Vec<(String, Vec<String>)> =
                    ["A", "B"].iter().filter(|x| self.node(x).alive).map(|x| (x.to_string(), self.node(x).protos.keys().cloned().collect())).collect();
                let anydir = self.ab.is_none();
                // (QUIC connections are closed explicitly by the node that ends them - fix 
                // "quic: close the QUIC connection when the connection task ends" - so one side's report
                // means the connection is gone for the other side too, as with tcp / ws)
                let certain = alive.clone();
                let al = certain.clone();
                self.log.wait(self.deadline, move |l| al.iter().all(|(x, qs)| World::settled(l, x, qs, anydir))).await;
                tokio::time::sleep(Duration::from_millis(150)).await;
                for (x, qs) in &alive {
                    if certain.iter().any(|(y, _)| y == x) || self.log.with(|l| World::settled(l, x, qs, anydir)) {
                        self.log.push(json!({"e": "quiesce", "n": x}));
                    } else {
                        self.log.push(json!({"e": "quiesce_not_judged", "n": x}));
                    }
                }
            }
            "redial" => {
                let to = Self::other(&n);
                if let Some(px) = self.px_of(&n) {
                    *px.policy.lock().unwrap() = Policy::default();
                }
                let before = self.attempts(&n);
                let mark = self.log.len();
                // the probe is only meaningful when no earlier dial of this node is still unresolved
                let protos: Vec<String> = self.node(&n).protos.keys().cloned().collect();
                let anydir = self.ab.is_none();
                let clean = self.log.with(|l| { let v = view(l, &n, &protos, anydir); v.dials_concluded >= v.dials_started });
                // the probing node may only ever have been the listener: give it the address to dial
                let _ = self.node(&n).app.send(netcommon::node::AppCmd::AddKnown { peer: self.node(to).peer, addr: self.addr_of(&n) }).await;
                self.log.push(json!({"e": "redial_begin", "n": n}));
                let ret = self.node(&n).dial(self.node(to).peer).await;
                let attempted = if ret.is_ok() {
                    let t = std::time::Instant::now();
                    while self.attempts(&n) == before && t.elapsed() < self.deadline {
                        tokio::time::sleep(Duration::from_millis(5)).await;
                    }
                    self.attempts(&n) > before
                } else {
                    false
                };
                self.log.push(json!({"e": "redial", "n": n, "ret": if ret.is_ok() { "ok".to_string() } else { ret.clone().unwrap_err() }, "ok": ret.is_ok(), "attempted": attempted, "clean": clean}));
                if attempted && self.node(to).alive {
                    let est = self.wait_connect(&n, mark, false).await;
                    self.log.push(json!({"e": "conn_result", "from": n, "est_from": est.0, "est_to": est.1}));
                    if st["expect"].as_bool().unwrap_or(false) {
                        self.newconn_lines(mark, est, &n, false);
                    }
                }
            }
            other => return Err(format!("unknown op {other}")),
        }
        Ok(())
    }
}

/// Run one scenario once. Ok(lines, max scheduling overshoot) or Err(reason) when inconclusive.
async fn run_scenario(sc: &Value) -> (Vec<Value>, f64, Option<String>) {
    let seed = sc["seed"].as_u64().unwrap_or(1);
    let log = Log::new();
    let probe = LoadProbe::start();
    let transport = sc["transport"].as_str().unwrap_or("tcp").to_string();
    let (mut ca, mut cb) = (node_cfg("A", &sc["A"], seed), node_cfg("B", &sc["B"], seed));
    ca.transport = transport.clone();
    cb.transport = transport.clone();
    let a = Node::start(&ca, log.clone());
    let b = Node::start(&cb, log.clone());
    let (ab, ba) = if transport == "quic" {
        (None, None)
    } else {
        (Some(Proxy::start("ab", b.listen, log.clone()).await), Some(Proxy::start("ba", a.listen, log.clone()).await))
    };
    let mut w = World { log: log.clone(), a, b, ab, ba, transport, rng: StdRng::seed_from_u64(seed), deadline: ms(sc, "deadline_ms", 10_000), paused: Default::default() };
    let mut why = None;
    for st in sc["steps"].as_array().unwrap() {
        log.push(json!({"e": "step", "op": st["op"], "arg": st}));
        if let Err(e) = w.step(st).await {
            why = Some(e);
            break;
        }
    }
    let over = probe.max_ms();
    // tear down: kill both nodes and the proxies
    w.a.kill();
    w.b.kill();
    drop(w);
    (log.snapshot(), over, why)
}

fn main() {
    let args = Args::parse();
    netcommon::install_panic_recorder();
    if args.get("trace-log").is_some() {
        netcommon::tracelog::install();
    }
    let scs = read_jsonl(&args.str("scenarios", "scenarios.jsonl"));
    let out = args.str("out", "trace.ndjson");
    let par = args.u64("par", 24) as usize;
    let max_over = args.u64("max-overshoot-ms", 1500) as f64;
    let fault = std::env::var("VERIF_FAULT").unwrap_or_default();
    let rt = tokio::runtime::Builder::new_multi_thread().worker_threads(args.u64("threads", 8) as usize).enable_all().build().unwrap();
    let results = rt.block_on(async move {
        let sem = Arc::new(tokio::sync::Semaphore::new(par));
        let mut hs = Vec::new();
        for sc in scs {
            let sem = sem.clone();
            hs.push(tokio::spawn(async move {
                let _p = sem.acquire_owned().await.unwrap();
                let mut discarded = 0;
                loop {
                    let (lines, over, why) = run_scenario(&sc).await;
                    if over > max_over && discarded < 2 {
                        discarded += 1;
                        continue;
                    }
                    return (sc, lines, over, why, discarded, over > max_over);
                }
            }));
        }
        let mut res = Vec::new();
        for h in hs {
            res.push(h.await.expect("scenario task"));
        }
        res
    });
    rt.shutdown_background();
    let mut lines: Vec<String> = Vec::new();
    let (mut judged, mut inconclusive, mut overloaded, mut reruns, mut events) = (0, 0, 0, 0, 0);
    let mut reasons: std::collections::BTreeMap<String, usize> = Default::default();
    let mut kinds: std::collections::BTreeMap<String, usize> = Default::default();
    let mut by_transport: std::collections::BTreeMap<String, usize> = Default::default();
    for (sc, mut ls, over, why, discarded, over_bad) in results {
        reruns += discarded;
        if over_bad {
            overloaded += 1;
            continue;
        }
        if let Some(w) = why {
            inconclusive += 1;
            *reasons.entry(format!("{}: {}", sc["name"].as_str().unwrap_or("?"), w)).or_default() += 1;
            continue;
        }
        judged += 1;
        *by_transport.entry(sc["transport"].as_str().unwrap_or("tcp").to_string()).or_default() += 1;
        // harness self-test faults (never set in a real check): misreport one event class
        match fault.as_str() {
            "drop_closed" => {
                if let Some(i) = ls.iter().position(|v| is(v, "p_closed")) {
                    ls.remove(i);
                }
            }
            "dup_app_closed" => {
                if let Some(i) = ls.iter().position(|v| is(v, "app_closed")) {
                    let v = ls[i].clone();
                    ls.insert(i, v);
                }
            }
            _ => {}
        }
        let protos = |v: &Value| if v["q3"].as_bool().unwrap_or(false) { json!(["q1", "q2", "q3"]) } else { json!(["q1", "q2"]) };
        lines.push(json!({"e": "reset", "sc": sc["name"], "transport": sc["transport"].as_str().unwrap_or("tcp"), "seed": sc["seed"], "overshoot_ms": over.round() as u64, "protos": {"A": protos(&sc["A"]), "B": protos(&sc["B"])}}).to_string());
        for v in ls {
            *kinds.entry(v["e"].as_str().unwrap_or("?").to_string()).or_default() += 1;
            events += 1;
            lines.push(v.to_string());
        }
    }
    write_lines(&out, &lines);
    for l in netcommon::tracelog::LINES.lock().unwrap().iter() {
        println!("LITEP2P-LOG {l}");
    }
    let panics = netcommon::PANICS.lock().unwrap().clone();
    println!(
        "SUMMARY {}",
        json!({"scenarios_judged": judged, "inconclusive": inconclusive, "inconclusive_reasons": reasons, "discarded_overloaded": overloaded,
               "reruns_for_load": reruns, "judged_by_transport": by_transport, "events": events, "event_kinds": kinds, "panics": panics.len(), "panic_samples": panics.iter().take(3).collect::<Vec<_>>()})
    );
}
