--------------------------- MODULE KeepAliveSvcTrace ---------------------------
(* Trace validation of executions of the real TransportService (harness bin    *)
(* `kasvc`) against the unit-level rules of KeepAlive.tla (Part 2).            *)
EXTENDS KeepAlive, Json, IOUtils

Rec == ndJsonDeserialize(IOEnv.TRACE)

VARIABLES l, mon
tvars == <<l, mon>>

TInit == l = 1 /\ mon = SvcInit

TNext ==
  /\ l <= Len(Rec)
  /\ l' = l + 1
  /\ LET r == Rec[l] IN
     IF r.e = "reset" THEN mon' = SvcInit
     ELSE LET m == SvcEv(mon, r) IN
          /\ mon' = SvcForgive(m)
          /\ (m.bad # "" => PrintT(<<"BAD", l, m.bad>>))

TSpec == TInit /\ [][TNext]_tvars

Accepted ==
  LET d == TLCGet("stats").diameter IN
  IF d - 1 = Len(Rec) THEN PrintT(<<"TRACE_OK", Len(Rec)>>)
  ELSE PrintT(<<"TRACE_REJECTED_AT", d>>) /\ FALSE
=============================================================================
