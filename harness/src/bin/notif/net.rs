//! One small real network: litep2p nodes X, Y (linked through the in-harness TCP proxy) and an
//! optional bystander Z (linked directly to X), each with one notification protocol, driven by a
//! scenario script through the public API only.  Every command (with its immediate result) and
//! every event pulled from a `NotificationHandle` is appended to that endpoint's log in the order
//! the scenario driver saw it; nothing is assumed about the order between endpoints.
use crate::exec::{PerturbExecutor, Shared};
use crate::proxy::{Link, Proxy, UdpProxy};
use futures::{FutureExt, StreamExt};
use litep2p::{
    config::ConfigBuilder as Litep2pConfigBuilder,
    crypto::ed25519::Keypair,
    protocol::notification::{
        ConfigBuilder, NotificationError, NotificationEvent, NotificationHandle, NotificationSink, ValidationResult,
    },
    transport::{quic::config::Config as QuicConfig, tcp::config::Config as TcpConfig, websocket::config::Config as WsConfig},
    types::{protocol::ProtocolName, ConnectionId},
    Litep2p, Litep2pEvent, PeerId,
};
use multiaddr::{Multiaddr, Protocol};
use serde_json::{json, Value};
use std::{
    collections::{HashMap, HashSet},
    net::SocketAddr,
    sync::{atomic::Ordering, Arc, Mutex},
    time::{Duration, Instant},
};
use tokio::sync::mpsc::{unbounded_channel, UnboundedReceiver, UnboundedSender};

pub const HDR: usize = 12;

/// payload = header(mode, sender, period, seq) + position-coded padding
pub fn encode(mode: u8, sender: u8, period: u16, seq: u32, len: usize) -> Vec<u8> {
    assert!(len >= HDR);
    let mut v = vec![0u8; len];
    v[0] = 0xA5;
    v[1] = mode;
    v[2] = sender;
    v[3..5].copy_from_slice(&period.to_be_bytes());
    v[5..9].copy_from_slice(&seq.to_be_bytes());
    v[9] = (len % 251) as u8;
    v[10] = v[1..10].iter().fold(0u8, |a, b| a ^ b);
    v[11] = 0x5A;
    for i in HDR..len {
        v[i] = ((i as u32).wrapping_mul(31).wrapping_add(seq)) as u8;
    }
    v
}

/// (mode, sender, period, seq, intact)
pub fn decode(v: &[u8]) -> Option<(u8, u8, u16, u32, bool)> {
    if v.len() < HDR || v[0] != 0xA5 || v[11] != 0x5A {
        return None;
    }
    let chk = v[1..10].iter().fold(0u8, |a, b| a ^ b);
    let seq = u32::from_be_bytes([v[5], v[6], v[7], v[8]]);
    let mut ok = chk == v[10] && v[9] == (v.len() % 251) as u8;
    for i in HDR..v.len() {
        if v[i] != ((i as u32).wrapping_mul(31).wrapping_add(seq)) as u8 {
            ok = false;
            break;
        }
    }
    Some((v[1], v[2], u16::from_be_bytes([v[3], v[4]]), seq, ok))
}

#[derive(Clone, Debug)]
pub struct Cfg {
    pub auto: HashSet<String>,
    pub dial: bool,
    pub sync: usize,
    pub asyn: usize,
    pub max: usize,
    pub perturb: u8,
    pub seed: u64,
    pub bystander: bool,
    /// silence (ms) that closes the run while an obligation is still outstanding
    pub tq_ms: u64,
    /// "tcp" | "ws" | "quic"
    pub transport: String,
    /// quinn idle timeout (= connection open timeout) in seconds
    pub quic_idle: u64,
    /// substream open timeout (ms) of X and of Y
    pub sot: [u64; 2],
}

impl Cfg {
    pub fn from_json(v: &Value) -> Cfg {
        Cfg {
            auto: v["auto"].as_array().map(|a| a.iter().map(|x| x.as_str().unwrap().to_string()).collect()).unwrap_or_default(),
            dial: v["dial"].as_bool().unwrap_or(false),
            sync: v["sync"].as_u64().unwrap_or(16) as usize,
            asyn: v["async"].as_u64().unwrap_or(8) as usize,
            max: v["max"].as_u64().unwrap_or(256) as usize,
            perturb: v["perturb"].as_u64().unwrap_or(1) as u8,
            seed: v["seed"].as_u64().unwrap_or(1),
            bystander: v["bystander"].as_bool().unwrap_or(false),
            tq_ms: v["tq_ms"].as_u64().unwrap_or(60_000),
            transport: v["transport"].as_str().unwrap_or("tcp").to_string(),
            quic_idle: v["quic_idle"].as_u64().unwrap_or(5),
            sot: [v["sot_x"].as_u64().unwrap_or(2000), v["sot_y"].as_u64().unwrap_or(2000)],
        }
    }
}

enum NodeCmd {
    Dial(Multiaddr),
    AddAddr(PeerId, Multiaddr),
}

enum NodeEv {
    Up(PeerId, ConnectionId),
    Down(PeerId, ConnectionId),
    DialFailure,
}

#[derive(Default, Clone)]
struct View {
    open: bool,
    period: u32,
    asked: bool,
    acc: bool,
    ownopen: bool,
    want: bool,
    must_close: bool,
    conns: HashSet<ConnectionId>,
    fault: bool,
    seq: [u32; 2],
}

#[derive(Clone, Copy, PartialEq, Debug)]
enum Policy {
    Manual,
    Accept,
    Reject,
}

struct AsyncJob {
    sink: NotificationSink,
    peer: String,
    period: u32,
    seq: u32,
    len: usize,
    szc: String,
    payload: Vec<u8>,
}

pub struct Node {
    pub name: String,
    pub idx: u8,
    pub peer: PeerId,
    handle: NotificationHandle,
    listen: SocketAddr,
    cmd_tx: UnboundedSender<NodeCmd>,
    ev_rx: UnboundedReceiver<NodeEv>,
    pub exec: Arc<Shared>,
    /// generation of the current hold of this node's Connection tasks (0 = not held); see the `stall` step
    pub hold_gen: u32,
    pub holds: u32,
    pub log: Arc<Mutex<Vec<String>>>,
    views: HashMap<String, View>,
    policy: HashMap<String, Policy>,
    async_tx: UnboundedSender<AsyncJob>,
    pub async_inflight: Arc<std::sync::atomic::AtomicUsize>,
    panics_logged: usize,
    /// dial failures reported by the node's event loop / number seen when the last `dialdead` was issued
    dialfails: usize,
    dialfails_mark: usize,
    t0: Instant,
}

fn keypair(seed: u64, idx: u8) -> Keypair {
    let mut b = [0u8; 32];
    let h = vharness::sha256(format!("notif-{seed}-{idx}").as_bytes());
    b.copy_from_slice(&h);
    let sk = litep2p::crypto::ed25519::SecretKey::try_from_bytes(b).expect("secret key");
    Keypair::from(sk)
}

impl Node {
    fn ms(&self) -> u64 {
        self.t0.elapsed().as_millis() as u64
    }

    fn push(&self, mut v: Value) {
        v["t"] = json!(self.ms());
        self.log.lock().unwrap().push(v.to_string());
    }

    async fn new(name: &str, idx: u8, cfg: &Cfg, t0: Instant) -> Node {
        let (ncfg, handle) = ConfigBuilder::new(ProtocolName::from("/notif/1"))
            .with_max_size(cfg.max)
            .with_handshake(vec![idx, 2, 3, 4])
            .with_auto_accept_inbound(cfg.auto.contains(name))
            .with_sync_channel_size(cfg.sync)
            .with_async_channel_size(cfg.asyn)
            .with_dialing_enabled(cfg.dial)
            .build();
        let (executor, shared) = PerturbExecutor::new(cfg.seed.wrapping_mul(31).wrapping_add(idx as u64), cfg.perturb);
        let tcp = TcpConfig {
            listen_addresses: vec!["/ip4/127.0.0.1/tcp/0".parse().unwrap()],
            connection_open_timeout: Duration::from_secs(2),
            substream_open_timeout: Duration::from_millis(cfg.sot[(idx as usize).min(1)]),
            nodelay: true,
            ..Default::default()
        };
        let b = Litep2pConfigBuilder::new().with_keypair(keypair(cfg.seed, idx)).with_notification_protocol(ncfg);
        let b = match cfg.transport.as_str() {
            "ws" => b.with_websocket(WsConfig {
                listen_addresses: vec!["/ip4/127.0.0.1/tcp/0/ws".parse().unwrap()],
                connection_open_timeout: Duration::from_secs(2),
                substream_open_timeout: Duration::from_millis(cfg.sot[(idx as usize).min(1)]),
                nodelay: true,
                ..Default::default()
            }),
            // quinn's idle timeout = max(connection_open_timeout, 3 s) and no keep-alive pings are sent: 5 s lets an
            // idle connection live through the short pauses of the scenarios and a black-holed one be noticed soon
            "quic" => b.with_quic(QuicConfig {
                listen_addresses: vec!["/ip4/127.0.0.1/udp/0/quic-v1".parse().unwrap()],
                connection_open_timeout: Duration::from_secs(cfg.quic_idle),
                substream_open_timeout: Duration::from_millis(cfg.sot[(idx as usize).min(1)]),
            }),
            _ => b.with_tcp(tcp),
        };
        let config = b
            .with_executor(executor)
            .with_keep_alive_timeout(Duration::from_secs(600))
            .build();
        let mut litep2p = Litep2p::new(config).expect("litep2p");
        let peer = *litep2p.local_peer_id();
        let addr = litep2p.listen_addresses().next().expect("listen address").clone();
        let mut port = 0u16;
        for p in addr.iter() {
            match p {
                Protocol::Tcp(x) | Protocol::Udp(x) => port = x,
                _ => {}
            }
        }
        let listen: SocketAddr = format!("127.0.0.1:{port}").parse().unwrap();
        let (cmd_tx, mut cmd_rx) = unbounded_channel::<NodeCmd>();
        let (ev_tx, ev_rx) = unbounded_channel::<NodeEv>();
        tokio::spawn(async move {
            loop {
                tokio::select! {
                    c = cmd_rx.recv() => match c {
                        None => break,
                        Some(NodeCmd::Dial(a)) => { let _ = litep2p.dial_address(a).await; }
                        Some(NodeCmd::AddAddr(p, a)) => { litep2p.add_known_address(p, std::iter::once(a)); }
                    },
                    ev = litep2p.next_event() => match ev {
                        None => break,
                        Some(Litep2pEvent::ConnectionEstablished { peer, endpoint }) => {
                            let _ = ev_tx.send(NodeEv::Up(peer, endpoint.connection_id()));
                        }
                        Some(Litep2pEvent::ConnectionClosed { peer, connection_id }) => {
                            let _ = ev_tx.send(NodeEv::Down(peer, connection_id));
                        }
                        Some(Litep2pEvent::DialFailure { .. }) | Some(Litep2pEvent::ListDialFailures { .. }) => {
                            let _ = ev_tx.send(NodeEv::DialFailure);
                        }
                    }
                }
            }
        });
        // one sequential sender for asynchronous notifications (program order = issue order)
        let (async_tx, mut async_rx) = unbounded_channel::<AsyncJob>();
        let log: Arc<Mutex<Vec<String>>> = Arc::new(Mutex::new(Vec::new()));
        let inflight = Arc::new(std::sync::atomic::AtomicUsize::new(0));
        let (l2, i2) = (log.clone(), inflight.clone());
        tokio::spawn(async move {
            while let Some(j) = async_rx.recv().await {
                let st = Instant::now();
                let r = j.sink.send_async_notification(j.payload).await;
                let waited = st.elapsed().as_millis() as u64;
                let v = json!({"e":"send","p":j.peer,"m":"a","per":j.period,"n":j.seq,"len":j.len,"sz":j.szc,
                               "r": if r.is_ok() {"ok"} else {"err"}, "w": waited, "t": t0.elapsed().as_millis() as u64});
                l2.lock().unwrap().push(v.to_string());
                i2.fetch_sub(1, Ordering::SeqCst);
            }
        });
        Node {
            name: name.to_string(),
            idx,
            peer,
            handle,
            listen,
            cmd_tx,
            ev_rx,
            exec: shared,
            log,
            views: HashMap::new(),
            policy: HashMap::new(),
            async_tx,
            hold_gen: 0,
            holds: 0,
            async_inflight: inflight,
            panics_logged: 0,
            dialfails: 0,
            dialfails_mark: 0,
            t0,
        }
    }
}

pub struct Net {
    pub cfg: Cfg,
    pub nodes: Vec<Node>,
    names: HashMap<PeerId, String>,
    proxy: Link,
    /// link in front of X, used when Y dials X
    rproxy: Link,
    pub max_late_ms: u64,
    t0: Instant,
    pub notes: Vec<String>,
    tarpit_port: u16,
    _tarpit: tokio::task::JoinHandle<()>,
}

fn idx_of(name: &str) -> usize {
    match name {
        "X" => 0,
        "Y" => 1,
        "Z" => 2,
        _ => panic!("endpoint {name}"),
    }
}

impl Net {
    pub async fn new(cfg: Cfg) -> Net {
        let t0 = Instant::now();
        let mut nodes = vec![Node::new("X", 0, &cfg, t0).await, Node::new("Y", 1, &cfg, t0).await];
        if cfg.bystander {
            nodes.push(Node::new("Z", 2, &cfg, t0).await);
        }
        let (proxy, rproxy) = if cfg.transport == "quic" {
            (Link::Udp(UdpProxy::start(nodes[1].listen).await), Link::Udp(UdpProxy::start(nodes[0].listen).await))
        } else {
            (Link::Tcp(Proxy::start(nodes[1].listen).await), Link::Tcp(Proxy::start(nodes[0].listen).await))
        };
        let mut names = HashMap::new();
        for n in &nodes {
            names.insert(n.peer, n.name.clone());
        }
        let all: Vec<String> = nodes.iter().map(|n| n.name.clone()).collect();
        for n in nodes.iter_mut() {
            for o in &all {
                if *o != n.name {
                    n.views.insert(o.clone(), View::default());
                    n.policy.insert(o.clone(), Policy::Manual);
                }
            }
            let peers: Vec<&String> = all.iter().filter(|o| **o != n.name).collect();
            n.push(json!({"e":"reset","ep":n.name,"auto":cfg.auto.contains(&n.name),"peers":peers,"dial":cfg.dial,
                          "sync":cfg.sync,"async":cfg.asyn,"max":cfg.max,"seed":cfg.seed,"perturb":cfg.perturb,"tr":cfg.transport}));
        }
        // dead address: a TCP listener that accepts and says nothing / a UDP socket that never answers
        let (tarpit_port, _tarpit) = if cfg.transport == "quic" {
            let u = tokio::net::UdpSocket::bind("127.0.0.1:0").await.expect("tarpit");
            let port = u.local_addr().unwrap().port();
            (port, tokio::spawn(async move {
                let mut b = vec![0u8; 2048];
                while u.recv_from(&mut b).await.is_ok() {}
            }))
        } else {
            let l = tokio::net::TcpListener::bind("127.0.0.1:0").await.expect("tarpit");
            let port = l.local_addr().unwrap().port();
            (port, tokio::spawn(async move {
                let mut held = Vec::new();
                while let Ok((sock, _)) = l.accept().await {
                    held.push(sock);
                }
            }))
        };
        let mut net = Net { cfg, nodes, names, proxy, rproxy, max_late_ms: 0, t0, notes: Vec::new(), tarpit_port, _tarpit };
        // X knows Y only through the proxy
        let ya = net.y_addr();
        let yp = net.nodes[1].peer;
        let _ = net.nodes[0].cmd_tx.send(NodeCmd::AddAddr(yp, ya));
        net
    }

    fn maddr(&self, port: u16, peer: PeerId) -> Multiaddr {
        let a: Multiaddr = match self.cfg.transport.as_str() {
            "ws" => format!("/ip4/127.0.0.1/tcp/{port}/ws"),
            "quic" => format!("/ip4/127.0.0.1/udp/{port}/quic-v1"),
            _ => format!("/ip4/127.0.0.1/tcp/{port}"),
        }
        .parse()
        .unwrap();
        a.with(Protocol::P2p(peer.into()))
    }

    fn y_addr(&self) -> Multiaddr {
        self.maddr(self.proxy.addr().port(), self.nodes[1].peer)
    }

    /// connect X->Y (through the proxy) and, if present, Z->X; wait until every side reported it
    pub async fn connect(&mut self) -> bool {
        let ya = self.y_addr();
        let _ = self.nodes[0].cmd_tx.send(NodeCmd::Dial(ya));
        if self.nodes.len() > 2 {
            let xa = self.maddr(self.nodes[0].listen.port(), self.nodes[0].peer);
            let _ = self.nodes[2].cmd_tx.send(NodeCmd::Dial(xa));
        }
        let deadline = Instant::now() + Duration::from_secs(30);
        loop {
            self.round().await;
            let xy = self.nodes[0].views["Y"].conns.len() > 0 && self.nodes[1].views["X"].conns.len() > 0;
            let xz = self.nodes.len() < 3 || (self.nodes[0].views["Z"].conns.len() > 0 && self.nodes[2].views["X"].conns.len() > 0);
            if xy && xz {
                return true;
            }
            if Instant::now() > deadline {
                return false;
            }
        }
    }

    fn pull_node_events(&mut self, i: usize) -> usize {
        let mut n = 0;
        loop {
            let ev = match self.nodes[i].ev_rx.try_recv() {
                Ok(ev) => ev,
                Err(_) => break,
            };
            n += 1;
            let node = &mut self.nodes[i];
            match ev {
                NodeEv::Up(p, c) => {
                    let Some(name) = self.names.get(&p).cloned() else { continue };
                    let v = node.views.get_mut(&name).unwrap();
                    let was = v.conns.len();
                    v.conns.insert(c);
                    if was == 0 {
                        v.fault = false;
                        node.push(json!({"e":"conn","k":"up","p":name}));
                    }
                }
                NodeEv::Down(p, c) => {
                    let Some(name) = self.names.get(&p).cloned() else { continue };
                    let v = node.views.get_mut(&name).unwrap();
                    v.conns.remove(&c);
                    if v.conns.is_empty() {
                        v.fault = true;
                        node.push(json!({"e":"conn","k":"down","p":name}));
                    }
                }
                NodeEv::DialFailure => {
                    node.dialfails += 1;
                    node.push(json!({"e":"note","k":"dialfail"}));
                }
            }
        }
        // panics of tasks of this node
        let ps = self.nodes[i].exec.panics.lock().unwrap().clone();
        while self.nodes[i].panics_logged < ps.len() {
            let (cls, msg) = ps[self.nodes[i].panics_logged].clone();
            self.nodes[i].panics_logged += 1;
            let short: String = msg.chars().take(160).collect();
            self.nodes[i].push(json!({"e":"panic","cls":cls,"msg":short}));
            let me = self.nodes[i].name.clone();
            self.tell_peers(i, &me, "rfault");
            n += 1;
        }
        n
    }

    /// Environment knowledge for the other endpoints: the user / node `me` did something that ends its streams
    /// (close command, oversize or clogging send, panic).  Logged in the peers' logs at the moment the harness does it.
    fn tell_peers(&mut self, i: usize, me: &str, k: &str) {
        for j in 0..self.nodes.len() {
            if j != i && self.nodes[j].views.contains_key(me) {
                self.nodes[j].push(json!({"e":"conn","k":k,"p":me}));
            }
        }
    }

    /// pull at most `limit` events from the handle of node i; apply the validation policy
    fn pull_handle(&mut self, i: usize, limit: usize) -> usize {
        let mut n = 0;
        while n < limit {
            let ev = match self.nodes[i].handle.next().now_or_never() {
                Some(Some(ev)) => ev,
                _ => break,
            };
            n += 1;
            let max = self.cfg.max;
            let mut todo: Option<(String, bool)> = None;
            let mut rfault_to: Option<String> = None;
            let node = &mut self.nodes[i];
            match ev {
                NotificationEvent::ValidateSubstream { peer, .. } => {
                    let name = self.names.get(&peer).cloned().unwrap_or("?".into());
                    node.views.get_mut(&name).map(|v| v.asked = true);
                    node.push(json!({"e":"ev","k":"validate","p":name}));
                    match node.policy.get(&name).copied().unwrap_or(Policy::Manual) {
                        Policy::Manual => {}
                        Policy::Accept => todo = Some((name, true)),
                        Policy::Reject => todo = Some((name, false)),
                    }
                }
                NotificationEvent::NotificationStreamOpened { peer, direction, .. } => {
                    let name = self.names.get(&peer).cloned().unwrap_or("?".into());
                    if let Some(v) = node.views.get_mut(&name) {
                        v.open = true;
                        v.period += 1;
                        v.seq = [0, 0];
                        v.acc = false;
                        v.ownopen = false;
                        v.want = false;
                    }
                    let per = node.views.get(&name).map(|v| v.period).unwrap_or(0);
                    node.push(json!({"e":"ev","k":"opened","p":name,"dir":format!("{direction:?}"),"per":per}));
                }
                NotificationEvent::NotificationStreamClosed { peer } => {
                    let name = self.names.get(&peer).cloned().unwrap_or("?".into());
                    if let Some(v) = node.views.get_mut(&name) {
                        v.open = false;
                        v.must_close = false;
                    }
                    // VERIF_FAULT=drop_closed: the harness misreports (withholds) Closed events (self-test of the check)
                    if std::env::var("VERIF_FAULT").unwrap_or_default() != "drop_closed" {
                        node.push(json!({"e":"ev","k":"closed","p":name}));
                    }
                }
                NotificationEvent::NotificationStreamOpenFailure { peer, error } => {
                    let name = self.names.get(&peer).cloned().unwrap_or("?".into());
                    if let Some(v) = node.views.get_mut(&name) {
                        v.acc = false;
                        v.ownopen = false;
                        v.want = false;
                    }
                    node.push(json!({"e":"ev","k":"openfail","p":name,"err":format!("{error:?}")}));
                    // the peer may already have reported this stream opened: it will see it closed
                    rfault_to = Some(name.clone());
                }
                NotificationEvent::NotificationReceived { peer, notification } => {
                    let name = self.names.get(&peer).cloned().unwrap_or("?".into());
                    let len = notification.len();
                    let fault = std::env::var("VERIF_FAULT").unwrap_or_default();
                    match decode(&notification) {
                        Some((m, s, per, seq, ok)) => {
                            let mut seq = seq;
                            if fault == "recv_seq" && seq == 3 {
                                seq = 2;
                            }
                            node.push(json!({"e":"ev","k":"recv","p":name,"m": if m == 0 {"s"} else {"a"},"from":s,"per":per,"n":seq,
                                             "len":len,"ok":ok,"over": len > max}))
                        }
                        None => node.push(json!({"e":"ev","k":"recv","p":name,"tiny":len <= 1,"m":"?","per":0,"n":0,"len":len,
                                                 "ok": len <= 1,"over": len > max})),
                    }
                }
            }
            if let Some((name, acc)) = todo {
                self.validate(i, &name, acc);
            }
            if let Some(to) = rfault_to {
                if to != "?" && idx_of(&to) < self.nodes.len() {
                    let me = self.nodes[i].name.clone();
                    let j = idx_of(&to);
                    self.nodes[j].push(json!({"e":"conn","k":"rfault","p":me}));
                }
            }
        }
        n
    }

    fn validate(&mut self, i: usize, p: &str, accept: bool) {
        let pid = self.nodes[idx_of(p)].peer;
        let node = &mut self.nodes[i];
        let v = node.views.get_mut(p).unwrap();
        let pending = v.asked;
        if pending {
            v.asked = false;
            if accept {
                v.acc = true;
            } else {
                v.want = false;
            }
        }
        node.handle
            .send_validation_result(pid, if accept { ValidationResult::Accept } else { ValidationResult::Reject });
        node.push(json!({"e":"val","p":p,"v": if accept {"accept"} else {"reject"},"r": if pending {"sent"} else {"noop"}}));
    }

    /// one driver round: per endpoint handle events, then node events; then a short sleep
    pub async fn round(&mut self) -> usize {
        // per endpoint: the handle's events first, then what the node's own event loop reported (a stream event
        // that was emitted before a connection event must not be logged after it when an endpoint was not polled)
        let mut n = 0;
        for i in 0..self.nodes.len() {
            n += self.pull_handle(i, 64);
            n += self.pull_node_events(i);
        }
        let st = Instant::now();
        tokio::time::sleep(Duration::from_millis(2)).await;
        let late = st.elapsed().as_millis() as u64;
        if late > 2 + self.max_late_ms {
            self.max_late_ms = late - 2;
        }
        n
    }

    pub async fn pump_all(&mut self, ms: u64) {
        let end = Instant::now() + Duration::from_millis(ms);
        while Instant::now() < end {
            self.round().await;
        }
    }

    /// pump only one endpoint (the others stall: their channels fill up)
    pub async fn pump_one(&mut self, i: usize, ms: u64) {
        let end = Instant::now() + Duration::from_millis(ms);
        loop {
            self.pull_handle(i, 64);
            self.pull_node_events(i);
            tokio::time::sleep(Duration::from_millis(2)).await;
            if Instant::now() >= end {
                break;
            }
        }
    }

    /// pump until no event was seen for `quiet` ms (at most `max` ms)
    pub async fn settle(&mut self, quiet: u64, max: u64) {
        let end = Instant::now() + Duration::from_millis(max);
        let mut last = Instant::now();
        while Instant::now() < end {
            if self.round().await > 0 {
                last = Instant::now();
            }
            if last.elapsed().as_millis() as u64 >= quiet {
                break;
            }
        }
    }

    fn outstanding(&self) -> bool {
        self.nodes.iter().any(|n| {
            n.async_inflight.load(Ordering::SeqCst) > 0
                || n.views.values().any(|v| (v.want && !v.asked) || (v.must_close && v.open))
        })
    }

    fn in_progress(&self) -> bool {
        self.nodes.iter().any(|n| n.views.values().any(|v| v.ownopen || v.acc))
    }

    /// Final quiescence: drain; while something is outstanding wait for `tq_ms` of silence.
    pub async fn quiesce(&mut self) {
        let hard = Instant::now() + Duration::from_millis(self.cfg.tq_ms * 3);
        let mut last = Instant::now();
        loop {
            if self.round().await > 0 {
                last = Instant::now();
            }
            let silent = last.elapsed().as_millis() as u64;
            if !self.outstanding() && silent >= 1500 && (!self.in_progress() || silent >= self.cfg.tq_ms / 3) {
                break;
            }
            if silent >= self.cfg.tq_ms || Instant::now() > hard {
                break;
            }
        }
        // timing assumptions: the driver itself was never starved for long
        let stable = self.max_late_ms < 1500;
        let late = self.max_late_ms;
        for n in self.nodes.iter() {
            n.push(json!({"e":"quiesce","stable":stable,"late":late}));
        }
    }

    pub async fn step(&mut self, s: &Value) {
        let op = s["op"].as_str().unwrap_or("");
        let ep = s["ep"].as_str().map(idx_of);
        match op {
            "open" => {
                let i = ep.unwrap();
                let to = s["to"].as_str().unwrap().to_string();
                if idx_of(&to) >= self.nodes.len() {
                    return;
                }
                let pid = self.nodes[idx_of(&to)].peer;
                let node = &mut self.nodes[i];
                let r = node.handle.open_substream(pid).await;
                let v = node.views.get_mut(&to).unwrap();
                let res = match r {
                    Ok(()) => {
                        let clean = !v.conns.is_empty() && !v.fault && !v.ownopen && !v.asked && !v.acc && !v.open;
                        v.ownopen = true;
                        v.want = v.want || clean;
                        "ok"
                    }
                    Err(_) => "already",
                };
                node.push(json!({"e":"open","p":to,"r":res}));
            }
            "close" => {
                let i = ep.unwrap();
                let to = s["to"].as_str().unwrap().to_string();
                if idx_of(&to) >= self.nodes.len() {
                    return;
                }
                let pid = self.nodes[idx_of(&to)].peer;
                let node = &mut self.nodes[i];
                let had = node.handle.notification_sink(pid).is_some();
                node.handle.close_substream(pid).await;
                node.push(json!({"e":"close","p":to,"r": if had {"sent"} else {"noop"}}));
                if had {
                    let me = self.nodes[i].name.clone();
                    let j = idx_of(&to);
                    self.nodes[j].push(json!({"e":"conn","k":"rclose","p":me}));
                }
            }
            "val" => {
                let i = ep.unwrap();
                let from = s["from"].as_str().unwrap().to_string();
                if idx_of(&from) >= self.nodes.len() {
                    return;
                }
                // wait (not judged) for the validation request to arrive
                let wait = s["wait_ms"].as_u64().unwrap_or(3000);
                let end = Instant::now() + Duration::from_millis(wait);
                while !self.nodes[i].views[&from].asked && Instant::now() < end {
                    self.round().await;
                }
                self.validate(i, &from, s["v"].as_str() == Some("accept"));
            }
            "policy" => {
                let i = ep.unwrap();
                let pol = match s["v"].as_str().unwrap_or("manual") {
                    "accept" => Policy::Accept,
                    "reject" => Policy::Reject,
                    _ => Policy::Manual,
                };
                let keys: Vec<String> = self.nodes[i].policy.keys().cloned().collect();
                for k in keys {
                    self.nodes[i].policy.insert(k, pol);
                }
            }
            "send" => {
                let i = ep.unwrap();
                let to = s["to"].as_str().unwrap().to_string();
                if idx_of(&to) >= self.nodes.len() {
                    return;
                }
                let mode = s["m"].as_str().unwrap_or("s").to_string();
                let cnt = s["cnt"].as_u64().unwrap_or(1);
                let szc = s["sz"].as_str().unwrap_or("min").to_string();
                for _ in 0..cnt {
                    self.send_one(i, &to, &mode, &szc).await;
                }
            }
            "pull" => {
                // drain what is available at one endpoint now
                let i = ep.unwrap();
                self.pull_handle(i, s["n"].as_u64().unwrap_or(64) as usize);
                self.pull_node_events(i);
            }
            "pump" => {
                let ms = s["ms"].as_u64().unwrap_or(50);
                match ep {
                    Some(i) => self.pump_one(i, ms).await,
                    None => self.pump_all(ms).await,
                }
            }
            "sleep" => {
                tokio::time::sleep(Duration::from_millis(s["ms"].as_u64().unwrap_or(50))).await;
            }
            "settle" => {
                self.settle(s["quiet"].as_u64().unwrap_or(300), s["ms"].as_u64().unwrap_or(5000)).await;
            }
            "await" => {
                // pump everything until endpoint `ep` shows the wanted view for peer p (not judged)
                let i = ep.unwrap();
                let p = s["p"].as_str().unwrap().to_string();
                if idx_of(&p) >= self.nodes.len() {
                    return;
                }
                let k = s["k"].as_str().unwrap_or("open");
                // a black-holed QUIC connection is noticed only through quinn's idle timeout (5 s here)
                let scale = if self.cfg.transport == "quic" { 3 } else { 1 };
                let end = Instant::now() + Duration::from_millis(scale * s["ms"].as_u64().unwrap_or(5000));
                loop {
                    let v = &self.nodes[i].views[&p];
                    let done = match k {
                        "open" => v.open,
                        "closed" => !v.open,
                        "asked" => v.asked,
                        "answered" => !v.ownopen && !v.acc,
                        "up" => !v.conns.is_empty(),
                        "down" => v.conns.is_empty(),
                        "dialfail" => self.nodes[i].dialfails > self.nodes[i].dialfails_mark,
                        _ => true,
                    };
                    if done || Instant::now() > end {
                        break;
                    }
                    self.round().await;
                }
            }
            "cut" => {
                let n = self.proxy.cut() + self.rproxy.cut();
                if s["block"].as_bool().unwrap_or(false) {
                    self.proxy.block(true);
                }
                for (i, p) in [(0usize, "Y"), (1usize, "X")] {
                    let node = &mut self.nodes[i];
                    let v = node.views.get_mut(p).unwrap();
                    v.fault = true;
                    v.want = false;
                    if v.open {
                        v.must_close = true;
                    }
                    node.push(json!({"e":"conn","k":"cut","p":p,"links":n}));
                }
            }
            "unblock" => self.proxy.block(false),
            "throttle" => {
                let b = s["bytes"].as_u64().unwrap_or(0);
                let _ = self.proxy.throttle(b);
                let _ = self.rproxy.throttle(b);
            }
            "freeze" if s["dir"].as_str() == Some("fwd") => {
                // only X -> Y stops (X dialled Y through this link): Y's bytes still reach X
                if !self.proxy.freeze_fwd(s["on"].as_bool().unwrap_or(true)) {
                    self.notes.push("freeze not available on this transport".into());
                }
            }
            "freeze" => {
                if !self.proxy.freeze(s["on"].as_bool().unwrap_or(true)) {
                    self.notes.push("freeze not available on this transport".into());
                }
            }
            "dial" => {
                let ya = self.y_addr();
                let _ = self.nodes[0].cmd_tx.send(NodeCmd::Dial(ya));
            }
            "dialdead" => {
                // the application of node `ep` dials a dead address of peer `to` (a tar pit: accepts / stays silent):
                // the dial fails after the connection open timeout and the failure is broadcast to every protocol
                let i = ep.unwrap();
                let to = s["to"].as_str().unwrap();
                if idx_of(to) >= self.nodes.len() {
                    return;
                }
                let a = self.maddr(self.tarpit_port, self.nodes[idx_of(to)].peer);
                self.nodes[i].dialfails_mark = self.nodes[i].dialfails;
                if s["known"].as_bool().unwrap_or(false) {
                    // ... or only tells the node about the address: a dial started by a protocol will use it
                    let _ = self.nodes[i].cmd_tx.send(NodeCmd::AddAddr(self.nodes[idx_of(to)].peer, a));
                } else {
                    let _ = self.nodes[i].cmd_tx.send(NodeCmd::Dial(a));
                }
                self.nodes[i].push(json!({"e":"note","k":"dialdead","p":to}));
            }
            "dialdirect" => {
                // node `ep` dials the listen address of `to` (not through the proxy)
                let i = ep.unwrap();
                let to = idx_of(s["to"].as_str().unwrap());
                if to >= self.nodes.len() {
                    return;
                }
                // (X <-> Y always through one of the two links so that `cut` reaches every connection of the pair)
                let port = match (i, to) {
                    (0, 1) => self.proxy.addr().port(),
                    (1, 0) => self.rproxy.addr().port(),
                    _ => self.nodes[to].listen.port(),
                };
                let a = self.maddr(port, self.nodes[to].peer);
                let _ = self.nodes[i].cmd_tx.send(NodeCmd::Dial(a));
            }
            "stall" => {
                // hold a class of tasks of one node: an adversarial scheduler; voids deadlines
                let i = ep.unwrap();
                let on = s["on"].as_bool().unwrap_or(true);
                match s["cls"].as_str().unwrap_or("conn") {
                    "proto" => self.nodes[i].exec.hold_proto.store(on, Ordering::SeqCst),
                    _ => {
                        if !on {
                            self.nodes[i].hold_gen = 0;
                        }
                        self.nodes[i].exec.hold_conn.store(on, Ordering::SeqCst);
                        if on {
                            // a Connection task that was being polled when the flag was set finishes that poll; after
                            // this pause no consumer of the synchronous channel runs until the hold is released, and
                            // send events carry the generation of the hold ("hg") so that the monitor can count
                            // what the channel accepted without a consumer
                            tokio::time::sleep(Duration::from_millis(40)).await;
                            self.nodes[i].holds += 1;
                            self.nodes[i].hold_gen = self.nodes[i].holds;
                        }
                    }
                }
                if on && s["long"].as_bool().unwrap_or(false) {
                    for j in 0..self.nodes.len() {
                        let node = &mut self.nodes[j];
                        let peers: Vec<String> = node.views.keys().cloned().collect();
                        for p in peers {
                            let v = node.views.get_mut(&p).unwrap();
                            v.fault = true;
                            v.want = false;
                            node.push(json!({"e":"conn","k":"stall","p":p}));
                        }
                    }
                }
            }
            "quiesce" => self.quiesce().await,
            _ => self.notes.push(format!("unknown step {op}")),
        }
    }

    async fn send_one(&mut self, i: usize, to: &str, mode: &str, szc: &str) {
        let pid = self.nodes[idx_of(to)].peer;
        let max = self.cfg.max;
        let node = &mut self.nodes[i];
        let sender = node.idx;
        let v = node.views.get_mut(to).unwrap();
        let m = if mode == "s" { 0usize } else { 1usize };
        let (period, open) = (v.period, v.open);
        let len = match szc {
            "max" => max,
            "over" => max + 1,
            "tiny" => 1,
            "zero" => 0,
            "mid" => (HDR + max) / 2,
            // around yamux's split_send_size (16 KiB) and well above it: frames that need several writes
            "1k" => 1024,
            "16k-1" => 16 * 1024 - 1,
            "16k" => 16 * 1024,
            "16k+1" => 16 * 1024 + 1,
            "40k" => 40 * 1024,
            "100k" => 100 * 1024,
            _ => HDR,
        };
        let seq = if open && len >= HDR {
            v.seq[m] += 1;
            v.seq[m]
        } else {
            0
        };
        let payload = if len >= HDR {
            encode(m as u8, sender, if open { period as u16 } else { 0 }, seq, len)
        } else {
            vec![0x11; len]
        };
        let sink = node.handle.notification_sink(pid);
        if mode == "s" {
            let st = Instant::now();
            let r = node.handle.send_sync_notification(pid, payload);
            let took = st.elapsed().as_millis() as u64;
            let res = match (&r, sink.is_some()) {
                (Ok(()), true) => "ok",
                (Ok(()), false) => "nostream",
                (Err(NotificationError::ChannelClogged), _) => "clogged",
                (Err(NotificationError::NoConnection), _) => "noconn",
                (Err(_), _) => "err",
            };
            if res == "clogged" {
                let v = node.views.get_mut(to).unwrap();
                if v.open {
                    v.must_close = true;
                }
            }
            let hg = node.hold_gen;
            node.push(json!({"e":"send","p":to,"m":"s","per": if open {period} else {0},"n":seq,"len":len,"sz":szc,"r":res,"w":took,"hg":hg}));
            if res == "clogged" || (res == "ok" && len > max) {
                let me = self.nodes[i].name.clone();
                let j = idx_of(to);
                self.nodes[j].push(json!({"e":"conn","k":"rfault","p":me}));
            }
        } else {
            match sink {
                None => node.push(json!({"e":"send","p":to,"m":"a","per":0,"n":0,"len":len,"sz":szc,"r":"nostream","w":0})),
                Some(sink) => {
                    node.async_inflight.fetch_add(1, Ordering::SeqCst);
                    if len > max {
                        let me = node.name.clone();
                        let j = idx_of(to);
                        let _ = node.async_tx.send(AsyncJob { sink, peer: to.to_string(), period, seq, len, szc: szc.to_string(), payload });
                        self.nodes[j].push(json!({"e":"conn","k":"rfault","p":me}));
                        return;
                    }
                    let _ = node.async_tx.send(AsyncJob { sink, peer: to.to_string(), period, seq, len, szc: szc.to_string(), payload });
                }
            }
        }
    }
}
