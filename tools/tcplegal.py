"""tcplegal - the real TcpTransport keeps the Transport interface that C05/C06/C07 assume of their (scripted) transport.

Not one of the listed properties: supporting evidence for the "legal transport" assumption.
  spec/TransportIface.tla       the interface as a monitor over trait calls and emitted events (+ leak rules on the
                                bookkeeping projection at quiescence)
  spec/TcpTransportMC.tla       implementation-shaped model of src/transport/tcp/mod.rs, checked against the monitor
  spec/TransportIfaceTrace.tla  trace validation of executions of the real TcpTransport over loopback sockets
  harness bin tcplegal          executes call schedules (TLC-derived and seeded random) against controlled remotes
"""
import json
import random
from vlib import *

PID = "tcplegal"
MC_INV = ["SPECIFICATION Spec", "INVARIANTS LegalTransport HandlesExact BookkeepingExact LeakFree CancelledNeverOpened NoLostWakeup",
          "VIEW View", "CHECK_DEADLOCK FALSE"]
BASE = {"Addrs": "<- Addrs2", "Peers": "<- PeersDef", "MaxCid": 3, "MaxOpenLen": 2, "Kind": "tcp", "Mutant": ""}
MUTANTS = ["cancel-handle-kept", "cancelled-open-surfaces", "dial-entry-kept", "dial-failure-swallowed", "inbound-failure-ends-poll"]

ASSUME = [
    "the caller keeps its side of the interface: connection ids passed to dial()/open() are fresh (the driver allocates "
    "them from the allocator the manager and the transport share)",
    "remote endpoints are the driver's: real litep2p nodes listening on tcp + ws + quic (healthy / dialing in), a bound non-listening "
    "TCP port, a TCP listener that never answers, TCP listeners that send junk (three variants), a bound UDP socket nobody reads and one "
    "that answers junk (QUIC), a healthy node's socket claimed for another identity or without /p2p, the same behind the name "
    "`localhost`, an unresolvable name; raw inbound clients: silent / junk / close (tcp, ws), junk datagrams (quic); all on 127.0.0.1",
    "timing: connection_open_timeout = substream_open_timeout = T = 250 ms; an operation is judged 'never concluded' only after "
    "3 x bound + 0.5 s without any call or event, bound = 2 T for tcp/ws (connect T + negotiation T; open deadline 2 T) and "
    "T + 3 s for quic (lookup T + quinn's handshake timeout max(T, 3 x initial PTO), measured 3.1 s); executions during which a 20 ms "
    "timer fired more than `bound` late are discarded and re-run once at low concurrency, never judged",
    "TLC bounds: 2-3 addresses (one without /p2p), opens of 1-2 addresses, 2-3 connection ids (4 in one thorough tcp configuration), 2 identities",
    "after accept() the connection's life is C07's subject; here only the accept/reject results are part of the interface",
    "not covered: /wss (needs TLS roots), IPv6, WebRTC, listener failure (stream end), QUIC inbound handshakes that stall "
    "(server-side timeout is quinn's default, not configured by litep2p)",
]

FAST_FAIL = ["refused", "garbage", "wrongid", "bad"]


# ----------------------------------------------------------------------------- transports

QBASE = {"Addrs": "<- Addrs3", "Peers": "<- PeersDef", "MaxCid": 2, "MaxOpenLen": 2, "Mutant": ""}
# T = connection_open_timeout = substream_open_timeout (ms); bound = the longest any single operation may take:
#   tcp / ws: connect T + negotiation T (open(): deadline 2 T)
#   quic    : lookup T + quinn's handshake timeout = max(T, 3 x initial PTO = 3 s) (measured: 3.1 s at T = 250 ms, 5.1 s at T = 5 s)
TRANSPORTS = {
    "tcp": {"spec": "TcpTransportMC.tla", "base": dict(BASE), "T": 250, "bound": 500},
    "ws": {"spec": "TcpTransportMC.tla", "base": dict(BASE, Kind="ws"), "T": 250, "bound": 500},
    "quic": {"spec": "QuicTransportMC.tla", "base": dict(QBASE), "T": 250, "bound": 3250},
}
QUIC_MUTANTS = ["negotiate-forgets-dialer", "inbound-failure-ends-poll"]


def mc_configs(ctx, tr):
    # (the models separate "the work of a future finishes" from "poll_next reports it", so that several completions can
    # pile up while the stream is not polled; the graphs are ~7 x larger than with atomic completion+report)
    base = TRANSPORTS[tr]["base"]
    quick = [("addr3", dict(base, Addrs="<- Addrs3", MaxCid=2, MaxOpenLen=2))]
    if tr == "tcp":
        quick.append(("cid3", dict(base, Addrs="<- Addrs13", MaxCid=3, MaxOpenLen=1)))
    if ctx.quick():
        return quick
    more = [("cid3", dict(base, Addrs="<- Addrs13", MaxCid=3, MaxOpenLen=1))] if tr != "tcp" else \
        [("cid3len2", dict(base, Addrs="<- Addrs2", MaxCid=3, MaxOpenLen=2)), ("cid4", dict(base, Addrs="<- Addrs1", MaxCid=4, MaxOpenLen=1))]
    return quick + more


# ----------------------------------------------------------------------------- model checking

def mc_runs(ctx, tr):
    out = []
    for name, consts in mc_configs(ctx, tr):
        spec = TRANSPORTS[tr]["spec"]
        r = tlc_mc(ctx, spec, write_cfg(ctx, "mc_%s_%s.cfg" % (tr, name), consts, MC_INV), workers=6 if ctx.quick() else 12, timeout=3000)
        if not r["ok"]:
            raise ToolError("%s (%s) violates an invariant in config %s: the model must be corrected or the counterexample "
                            "replayed against the real transport:\n%s" % (spec, tr, name, r.get("error", r["out"][-3000:])))
        out.append({k: r[k] for k in ("transitions", "distinct", "depth", "wall_s") if k in r})
        out[-1]["cfg"] = "%s/%s" % (tr, name)
        log("MC %s: %s" % (tr, out[-1]))
    return out


def generate(ctx, tr):
    gl = ["SPECIFICATION Spec", "VIEW GenView", "ACTION_CONSTRAINT Emit", "CHECK_DEADLOCK FALSE"]
    spec, base = TRANSPORTS[tr]["spec"], TRANSPORTS[tr]["base"]
    # ws / quic: the address without /p2p matters (refused); the quick tier generates from {a1, a3}, thorough from all three
    small = dict(base, MaxCid=2) if tr == "tcp" else dict(base, Addrs="<- Addrs13" if ctx.quick() else "<- Addrs3", MaxCid=2)
    if ctx.quick():
        small["MaxOpenLen"] = 1     # quick: opens of several addresses come from the simulation sample and the random schedules
    behs, g = tlc_generate(ctx, spec, write_cfg(ctx, "gen_%s.cfg" % tr, small, gl), timeout=1200)
    g["cfg"] = "%s: %s/MaxCid=2/MaxOpenLen=%d (one behaviour per transition of the graph)" % (tr, small["Addrs"][3:], small["MaxOpenLen"])
    stats, deep = [g], []
    if tr == "tcp" or not ctx.quick():
        deep, g2 = tlc_generate(ctx, spec, write_cfg(ctx, "sim_%s.cfg" % tr, dict(base, Addrs="<- Addrs3", MaxCid=3), gl), timeout=600,
                                simulate={"num": 40 if ctx.quick() else 400, "depth": 16})
        g2["cfg"] = "%s: Addrs3/MaxCid=3 simulation depth 16" % tr
        stats.append(g2)
    for st in stats:
        log("GEN %s" % st)
    return [b["steps"] for b in behs], [b["steps"] for b in deep], stats


# ----------------------------------------------------------------------------- schedules

def addr_kind(rnd, name, ok, tr="tcp"):
    if name == "a3" and (ok or tr != "tcp"):
        return "nop2p"          # ws / quic refuse an address without /p2p: the model's a3 is always that shape
    if ok:
        return "healthy"
    if tr == "quic":            # an unanswered UDP port costs quinn's 3 s handshake timeout: mostly fast failures
        return rnd.choice(["wrongid", "wrongid", "dns_bad", "blackhole", "garbage"])
    return rnd.choice(["refused", "garbage", "wrongid", "refused", "garbage"])


class Healthy:
    """hands out distinct healthy-node indices inside one execution (distinct sockets per open)"""
    def __init__(self, rnd):
        self.order = list(range(6))
        rnd.shuffle(self.order)
        self.i = 0

    def next(self):
        self.i += 1
        return self.order[self.i % len(self.order)]


def fast_fail(rnd, tr):
    return rnd.choice(["wrongid", "bad", "dns_bad", "nop2p"] if tr == "quic" else FAST_FAIL + (["nop2p"] if tr == "ws" else []))


def cfg_of(tr, rnd, policy, reuse=False):
    t = TRANSPORTS[tr]
    return {"transport": tr, "timeout_ms": t["T"], "bound_ms": t["bound"], "reuse_port": reuse, "parallel": rnd.choice([1, 8, 8]), "policy": policy}


def from_behaviour(steps, rnd, sid, tr, src):
    """A TLC behaviour of TcpTransportMC becomes a call schedule whose remote endpoints are chosen so that the network
    can produce the outcomes the behaviour plans (success -> healthy node, failure -> refused / junk / other identity,
    still pending -> black hole)."""
    h = Healthy(rnd)
    wait = 3 * TRANSPORTS[tr]["bound"] + 500
    ref, inbound_n = {}, 0
    for s in steps:
        if s["a"] == "p_listener":
            ref[s["c"]] = "i%d" % inbound_n
            inbound_n += 1
        elif s["a"] in ("dial", "open", "dial_bad"):
            ref[s["c"]] = "m%d" % s["c"]
    plan_conn = {s["c"]: s["res"] for s in steps if s["a"] == "p_conn" or (s["a"] == "done" and s["k"] != "raw")}
    plan_raw = {s["c"]: dict({"errs": [], "addr": None}, **s) for s in steps if s["a"] == "done" and s["k"] == "raw"}
    plan_raw.update({s["c"]: s for s in steps if s["a"] == "p_raw"})
    listener_cids = [s["c"] for s in steps if s["a"] == "p_listener"]
    out, nconnect = [], 0
    T = TRANSPORTS[tr]["T"]
    for i, s in enumerate(steps):
        a = s["a"]
        if a == "done":
            # several completions before the next poll_next: the application is busy meanwhile (the driver does not poll)
            if (i == 0 or steps[i - 1]["a"] != "done") and i + 1 < len(steps) and steps[i + 1]["a"] == "done":
                out.append({"op": "hold", "ms": rnd.choice([150, T + 150, T + 150])})
            continue
        if a == "dial":
            res = plan_conn.get(s["c"])
            kind = addr_kind(rnd, s["addr"], True, tr) if res == "ok" else addr_kind(rnd, s["addr"], False, tr) if res == "err" \
                else "nop2p" if (s["addr"] == "a3" and tr != "tcp") else rnd.choice(["blackhole", "blackhole", "healthy", "refused"])
            out.append({"op": "dial", "ref": ref[s["c"]], "addr": {"kind": kind, "n": h.next()}})
        elif a == "dial_bad":
            out.append({"op": "dial", "ref": ref[s["c"]], "addr": {"kind": "bad", "n": rnd.randrange(4)}})
        elif a == "open":
            p = plan_raw.get(s["c"])
            specs = []
            for name in s["addrs"]:
                if name == "a3" and tr != "tcp":
                    kind = "nop2p"
                elif p and p["res"] == "connected" and name == p["addr"]:
                    kind = addr_kind(rnd, name, True, tr)
                elif p and p["res"] in ("connected", "failed") and name in p["errs"]:
                    kind = fast_fail(rnd, tr)
                elif p and p["res"] in ("connected", "failed"):
                    kind = "blackhole"
                else:
                    kind = rnd.choice(["blackhole", "blackhole", "healthy", "refused", "nop2p"])
                specs.append({"kind": kind, "n": h.next()})
            out.append({"op": "open", "ref": ref[s["c"]], "addrs": specs})
        elif a in ("cancel", "negotiate", "accept", "reject", "accept_pending", "reject_pending"):
            out.append({"op": a, "ref": ref.get(s["c"], "?")})
        elif a == "connect":
            cid = listener_cids[nconnect] if nconnect < len(listener_cids) else None
            res = plan_conn.get(cid)
            kind = "node" if res == "ok" else rnd.choice(["silent", "garbage", "close", "node_wrongid"]) if res == "err" \
                else rnd.choice(["node", "silent", "close"])
            out.append({"op": "connect", "kind": kind, "n": rnd.randrange(4)})
            nconnect += 1
        elif a == "p_listener":
            out.append({"op": "expect", "inbound": True, "ms": 1500})
        elif a == "p_raw":
            out.append({"op": "wait", "ms": 30} if s["res"] in ("canceled", "lost") else
                       {"op": "expect", "ref": ref[s["c"]], "ms": wait, "want": "opened" if s["res"] == "connected" else "open_failure"})
        elif a == "p_conn":
            silent = s["res"] == "err" and ref[s["c"]].startswith("i")
            out.append({"op": "wait", "ms": 40} if silent else
                       {"op": "expect", "ref": ref[s["c"]], "ms": wait, "want": "est" if s["res"] == "ok" else "dial_failure"})
    return {"id": sid, "src": src, "cfg": cfg_of(tr, rnd, {"on_opened": "none", "on_est": "none", "on_inbound": "none"}),
            "steps": out, "plan": steps}


def random_schedule(rnd, sid, tr="tcp"):
    T = TRANSPORTS[tr]["T"]
    h = Healthy(rnd)
    steps, outs, ins = [], [], 0
    waits = [0, 1, 5, 20, 60, T // 2, T, T + T // 4]
    kinds = ["healthy", "healthy", "healthy", "healthy", "refused", "refused", "blackhole", "blackhole", "garbage", "garbage", "wrongid",
             "wrongid", "nop2p", "nop2p", "bad", "dns", "dns_bad"]
    if tr == "quic":   # dead UDP endpoints cost 3 s each: keep them, but rare
        kinds = ["healthy"] * 6 + ["wrongid"] * 3 + ["nop2p", "bad", "dns", "dns_bad", "blackhole", "garbage"]
    for _ in range(rnd.randint(4, 14)):
        x = rnd.random()
        if x < 0.18:
            r = "r%d" % len(outs)
            outs.append(r)
            steps.append({"op": "dial", "ref": r, "addr": {"kind": rnd.choice(kinds), "n": h.next()}})
        elif x < 0.40:
            r = "r%d" % len(outs)
            outs.append(r)
            n = rnd.choice([0, 1, 1, 2, 2, 2, 3, 3])
            steps.append({"op": "open", "ref": r, "addrs": [{"kind": rnd.choice(kinds), "n": h.next()} for _ in range(n)]})
        elif x < 0.55 and outs:
            steps.append({"op": "cancel", "ref": rnd.choice(outs)})
        elif x < 0.65:
            pool = outs + ["i%d" % i for i in range(ins + 1)] + ["?"]
            steps.append({"op": rnd.choice(["negotiate", "accept", "reject", "accept_pending", "reject_pending", "cancel"]), "ref": rnd.choice(pool)})
        elif x < 0.77:
            steps.append({"op": "connect", "kind": rnd.choice(["node", "node", "silent", "garbage", "close", "node_wrongid"]), "n": rnd.randrange(4)})
            ins += 1
        elif x < 0.84:
            steps.append({"op": "hold", "ms": rnd.choice([1, 10, 40, T // 2, T + 100, 2 * T + 100])})
        else:
            steps.append({"op": "wait", "ms": rnd.choice(waits)})
    pol = {"on_opened": rnd.choice(["negotiate", "cancel_negotiate", "none", "random"]),
           "on_est": rnd.choice(["accept", "reject", "none", "random"]),
           "on_inbound": rnd.choice(["accept", "accept", "reject", "none", "random"])}
    return {"id": sid, "src": "random", "cfg": cfg_of(tr, rnd, pol, reuse=(tr != "quic" and rnd.random() < 0.25)), "steps": steps}


def hold_family(tr, sid0, reps):
    """The application is busy (`hold`: nobody polls the stream) while a failing inbound handshake and the outcome of an
    outbound operation both become ready; afterwards nothing but the stream's own waker may cause a poll. Variants:
    queue (both futures pushed, first poll sees the inbound failure first), busy (the same with a hold before that poll),
    timers (both futures polled once, then a hold that outlasts both time-outs)."""
    T = TRANSPORTS[tr]["T"]
    none = {"on_opened": "none", "on_est": "none", "on_inbound": "none"}
    inbound = ["node_wrongid"] if tr == "quic" else ["close", "garbage", "silent"]
    outbound = {
        "dial-refused": [{"op": "dial", "ref": "d", "addr": {"kind": "refused", "n": 1}}],
        "dial-blackhole": [{"op": "dial", "ref": "d", "addr": {"kind": "blackhole", "n": 1}}],
        "dial-healthy": [{"op": "dial", "ref": "d", "addr": {"kind": "healthy", "n": 1}}],
        "negotiate": [{"op": "negotiate", "ref": "o"}],
        "open-refused": [{"op": "open", "ref": "d", "addrs": [{"kind": "refused", "n": 1}]}],
    }
    out, sid = [], sid0
    rnd = random.Random("hold-%s" % tr)
    for _ in range(reps):
        for ik in inbound:
            for name, ob in outbound.items():
                for variant in ("queue", "busy", "timers"):
                    pre = [{"op": "open", "ref": "o", "addrs": [{"kind": "healthy", "n": 2}]},
                           {"op": "expect", "ref": "o", "ms": 3 * TRANSPORTS[tr]["bound"] + 500, "want": "opened"}] if name == "negotiate" else []
                    steps = pre + [{"op": "connect", "kind": ik, "n": rnd.randrange(4)}, {"op": "expect", "inbound": True, "ms": 2000},
                                   {"op": "accept_pending", "ref": "i0"}]
                    if variant == "queue":
                        steps += ob
                    elif variant == "busy":
                        steps += [{"op": "hold", "ms": 150}] + ob + [{"op": "hold", "ms": rnd.choice([50, T + 150])}]
                    else:
                        steps += ob + [{"op": "wait", "ms": 5}, {"op": "hold", "ms": 2 * T + 200}]
                    sid += 1
                    out.append({"id": sid, "src": "hold", "cfg": cfg_of(tr, rnd, none), "steps": steps, "family": "%s/%s/%s" % (ik, name, variant)})
    return out


BUDGET = {  # (TLC one-per-transition sample, TLC simulation sample, seeded random) per transport
    "quick": {"tcp": (1000, 100, 800), "ws": (260, 0, 160), "quic": (150, 0, 90)},
    "thorough": {"tcp": (4000, 500, 2300), "ws": (1600, 200, 900), "quic": (700, 100, 400)},
}


def make_schedules(ctx, tr, bfs, deep, sid0):
    rnd = random.Random("%s-%s" % (ctx.seed, tr))
    n_bfs, n_sim, n_rand = BUDGET["quick" if ctx.quick() else "thorough"][tr]
    # every (action, result) pair of the graph is taken at least a few times, the rest is a seeded sample
    by_last = {}
    for b in bfs:
        if len(b) >= 2:
            last = b[-1]
            by_last.setdefault((last["a"], last.get("res", "")), []).append(b)
    chosen = []
    for key in sorted(by_last):
        chosen += rnd.sample(by_last[key], min(len(by_last[key]), (6 if tr == "tcp" else 3) if ctx.quick() else 40))
    rest = [b for b in bfs if len(b) >= 4]
    chosen += rnd.sample(rest, min(len(rest), max(0, n_bfs - len(chosen))))
    scheds, sid = [], sid0
    for b in chosen:
        sid += 1
        scheds.append(from_behaviour(b, rnd, sid, tr, "tlc"))
    deep = [b for b in deep if len(b) >= 12]
    for b in rnd.sample(deep, min(len(deep), n_sim)):
        sid += 1
        scheds.append(from_behaviour(b, rnd, sid, tr, "tlc-sim"))
    for _ in range(n_rand):
        sid += 1
        scheds.append(random_schedule(rnd, sid, tr))
    scheds += hold_family(tr, sid, (2 if tr == "tcp" else 1) if ctx.quick() else 6)
    return scheds


# ----------------------------------------------------------------------------- classification

def classify(seg, idx, reason):
    """Stable signature: rule + the operation / remote kinds involved."""
    tr = json.loads(seg[0]).get("cfg", {}).get("transport", "tcp")
    return tr + ":" + _classify(seg, idx, reason)


def _classify(seg, idx, reason):
    slug = re.sub(r"[^a-z0-9]+", "-", reason.lower()).strip("-")[:60]
    ev = json.loads(seg[idx - 1])
    calls = {}
    for ln in seg[1:idx]:
        d = json.loads(ln)
        if d.get("e") == "call" and d["c"] in ("dial", "open"):
            calls[d["cid"]] = d
    if reason.startswith("silence"):
        st = {}
        for ln in seg[1:idx]:
            d = json.loads(ln)
            if d.get("e") == "call" and d["c"] in ("dial", "open") and d["ret"] == "ok":
                st[d["cid"]] = d["c"]
            elif d.get("e") == "call" and d["c"] == "cancel" and st.get(d["cid"]) == "open":
                st.pop(d["cid"])
            elif d.get("e") == "call" and d["c"] == "negotiate" and d["ret"] == "ok":
                st[d["cid"]] = "negotiate"
            elif d.get("e") == "ev" and d["k"] in ("est", "dial_failure", "opened", "open_failure"):
                st.pop(d["cid"], None)
        what = sorted({"%s-%s" % (op, "+".join(sorted(set(calls.get(c, {}).get("kinds", []))))) for c, op in st.items()})
        return "silence-" + ("/".join(what) if what else "unknown")
    if reason.startswith("leak"):
        return slug
    cid = ev.get("cid")
    op = calls.get(cid, {}).get("c", "inbound" if ev.get("e") == "ev" else "none")
    return "%s-%s" % (slug, ev.get("k") or ev.get("c") or ev.get("e")) + "-of-" + op


def summarise(lines):
    kinds, distinct, cur = {}, set(), []
    for ln in lines:
        if '"e":"reset"' in ln:
            if cur:
                distinct.add(hash(tuple(cur)))
            cur = []
            continue
        d = json.loads(ln)
        key = d.get("c") or d.get("k") or d["e"]
        if d.get("e") == "call":
            key += ":" + d["ret"]
        kinds[key] = kinds.get(key, 0) + 1
        cur.append((key, d.get("cid")))
    if cur:
        distinct.add(hash(tuple(cur)))
    return kinds, len(distinct)


REQUIRED = ["dial:ok", "dial:err", "open:ok", "cancel:ok", "negotiate:ok", "negotiate:err", "accept:ok", "accept:err", "reject:ok",
            "accept_pending:ok", "reject_pending:ok", "connect", "est", "dial_failure", "opened", "open_failure", "pending_inbound", "quiesce"]


REQUIRED_OTHER = ["dial:ok", "dial:err", "open:ok", "cancel:ok", "negotiate:ok", "accept:ok", "reject:ok", "accept_pending:ok", "connect", "est",
                  "dial_failure", "opened", "open_failure", "pending_inbound", "quiesce"]


def run_harness(ctx, scheds, tag="", env=None, conc=32):
    sp = ctx.path("schedules%s.jsonl" % tag)
    write_jsonl(sp, [{k: v for k, v in s.items() if k not in ("plan", "family")} for s in scheds])
    summ, _ = harness(ctx, "tcplegal", ["--schedules", sp, "--out", ctx.path("trace%s.ndjson" % tag), "--seed", ctx.seed, "--conc", conc, "--healthy", 6, "--dialers", 4],
                      timeout=3000, env=env)
    return summ, read_lines(ctx.path("trace%s.ndjson" % tag))


PHANTOM = "inbound connection announced that nobody made"


def judge(ctx, lines, scheds, tag="a", recheck=True):
    by_id = {s["id"]: s for s in scheds}
    nseg, nev, rejects = validate_all(ctx, "TransportIfaceTrace.tla", "TransportIfaceTrace.cfg", lines, mode="prop", tag=tag)
    violations = []
    for r in rejects:
        seg, idx = r
        if r.reason == PHANTOM and recheck:
            # environment assumption "nobody else connects to the transport's loopback port" (other processes on this machine
            # dial ports they believe closed): such an execution is not judged; the schedule is re-run on fresh ports and
            # only a recurrence is a violation
            sch = by_id.get(json.loads(seg[0]).get("id"))
            again = [dict(sch, id=i + 1) for i in range(3)]
            _, l2 = run_harness(ctx, again, tag=tag + "p", conc=3)
            _, _, v2 = judge(ctx, l2, again, tag=tag + "p", recheck=False)
            if sum(1 for v in v2 if v["reason"] == PHANTOM) < 2:
                ctx.notes.append("one execution saw an inbound connection the driver did not make (foreign process); discarded, re-run clean")
                continue
        if r.reason.startswith("caller:") or r.reason == "unconsumed":
            raise ToolError("the driver recorded an unusable trace (%s) at %s" % (r.reason, seg[idx - 1][:300]))
        sig = classify(seg, idx, r.reason)
        hdr = json.loads(seg[0])
        violations.append({"sig": sig, "reason": r.reason, "what": "%s at %s" % (r.reason, seg[idx - 1][:400]),
                           "replay_obj": {"property": PID, "reason": r.reason, "signature": sig,
                                          "schedule": {k: v for k, v in by_id.get(hdr.get("id"), {}).items() if k != "plan"},
                                          "segment": [json.loads(x) for x in seg[:idx]]}})
    return nseg, nev, violations


def transport_of(seg0):
    return json.loads(seg0).get("cfg", {}).get("transport", "tcp")


def check(ctx):
    only = os.environ.get("TCPLEGAL_ONLY")     # development aid: restrict to some transports
    trs = [t for t in TRANSPORTS if not only or t in only.split(",")]
    mc, gstats, scheds = {}, {}, []
    for tr in trs:
        mc[tr] = mc_runs(ctx, tr)
        bfs, deep, gstats[tr] = generate(ctx, tr)
        scheds += make_schedules(ctx, tr, bfs, deep, len(scheds))
    # long executions first (QUIC: a dead UDP endpoint costs quinn's 3 s handshake timeout) so that they overlap the rest
    scheds.sort(key=lambda sc: -TRANSPORTS[sc["cfg"]["transport"]]["bound"])
    build_s = cargo_build(ctx, ["tcplegal"])
    summ, lines = run_harness(ctx, scheds)
    log("HARNESS: %s (build %ss, %d schedules)" % (summ, build_s, len(scheds)))
    if summ["executions"] < 0.9 * len(scheds):
        raise ToolError("only %d of %d executions met their timing assumptions (machine too loaded); nothing is judged" % (summ["executions"], len(scheds)))
    nseg, nev, violations = judge(ctx, lines, scheds)
    # drift: the recorded bookkeeping after every line against the function of the interface state the models maintain
    _, _, drift = validate_segments(ctx, "TransportIfaceTrace.tla", "TransportIfaceTrace.cfg", lines, mode="impl", max_rejects=3, tag="d")
    for seg, idx in drift:
        log("NOTE drift: real %s transport bookkeeping deviates from its model at %s" % (transport_of(seg[0]), seg[idx - 1][:400]))
    per = {}
    segs = split_segments(lines, lambda ln: '"e":"reset"' in ln)
    for tr in trs:
        tl = [ln for sg in segs if transport_of(sg[0]) == tr for ln in sg]
        kinds, distinct = summarise(tl)
        missing = [k for k in (REQUIRED if tr == "tcp" else REQUIRED_OTHER) if not kinds.get(k)]
        if missing:
            raise ToolError("%s: observable kinds never exercised: %s" % (tr, missing))
        mine = [sc for sc in scheds if sc["cfg"]["transport"] == tr]
        per[tr] = {
            "states": sum(m["distinct"] for m in mc[tr]), "transitions": sum(m["transitions"] for m in mc[tr]),
            "model": TRANSPORTS[tr]["spec"], "model_runs": mc[tr], "generation": gstats[tr],
            "executions_validated": sum(1 for sg in segs if transport_of(sg[0]) == tr), "lines_validated": len(tl),
            "distinct_nontrivial": distinct, "observables": kinds,
            "schedules": {k: sum(1 for sc in mine if sc["src"] == k) for k in ("tlc", "tlc-sim", "random", "hold")},
            "timeout_ms": TRANSPORTS[tr]["T"], "operation_bound_ms": TRANSPORTS[tr]["bound"],
            "violations": sorted({v["sig"] for v in violations if v["sig"].startswith(tr + ":")}),
            "impl_divergences": sum(1 for seg, _ in drift if transport_of(seg[0]) == tr),
        }
    samples = []
    for ln in lines[1:9]:
        d = json.loads(ln)
        d.pop("bk", None)
        samples.append(d)
    cov = {
        "states": sum(p["states"] for p in per.values()), "transitions": sum(p["transitions"] for p in per.values()),
        "traces_validated_against_impl": nseg, "events_validated": nev, "samples": samples,
        "evaluations": nseg, "distinct_nontrivial": sum(p["distinct_nontrivial"] for p in per.values()),
        "rule": "a case is one call schedule executed on a real TcpTransport / WebSocketTransport / QuicTransport with real loopback "
                "sockets against controlled remote endpoints until quiescence; distinct = distinct sequences of (call+result | event "
                "kind, connection id) per transport",
        "per_transport": per, "harness": summ,
        "impl_divergences": len(drift), "exhaustive": False,
    }
    return conclude(ctx, "model_checking", cov, violations, ASSUME)


def replay(ctx, path):
    obj = json.load(open(path))
    seg = [json.dumps(x, separators=(",", ":")) for x in obj["segment"]]
    _, _, rej = validate_all(ctx, "TransportIfaceTrace.tla", "TransportIfaceTrace.cfg", seg)
    log("replay (recorded execution): %s" % ("rejected: %s" % rej[0].reason if rej else "accepted"))
    rc = 1 if rej else 0
    if obj.get("schedule", {}).get("steps"):
        cargo_build(ctx, ["tcplegal"])
        scheds = [dict(obj["schedule"], id=i + 1) for i in range(8)]
        summ, lines = run_harness(ctx, scheds, tag="r", conc=4)
        _, _, viol = judge(ctx, lines, scheds, tag="r")
        same = [v for v in viol if v["sig"] == obj.get("signature")]
        log("replay (schedule re-executed 8 times on the real transport): %d rejected, %d with the recorded signature" % (len(viol), len(same)))
        rc = 1 if (rej or same) else 0
    return rc


def selftest(ctx):
    """(a) binding: corrupted recorded traces and harness-level faults must be flagged; (b) negative models: one seeded
    defect in TcpTransportMC must violate an invariant."""
    ok = True
    rnd = random.Random(ctx.seed)
    cargo_build(ctx, ["tcplegal"])
    scheds = [random_schedule(rnd, i + 1, "tcp") for i in range(60)]
    # make sure the fault classes have something to bite on
    scheds.append({"id": 61, "src": "hand", "cfg": {"timeout_ms": 250, "reuse_port": False, "parallel": 8,
                                                   "policy": {"on_opened": "none", "on_est": "none", "on_inbound": "none"}},
                   "steps": [{"op": "dial", "ref": "a", "addr": {"kind": "refused", "n": 0}}, {"op": "open", "ref": "b", "addrs": [{"kind": "blackhole", "n": 0}]},
                             {"op": "wait", "ms": 20}, {"op": "cancel", "ref": "b"}, {"op": "dial", "ref": "c", "addr": {"kind": "healthy", "n": 1}},
                             {"op": "expect", "ref": "c", "ms": 2000}, {"op": "accept", "ref": "c"}]})
    scheds += hold_family("tcp", 100, 1)
    summ, lines = run_harness(ctx, scheds, tag="s")
    _, _, base = judge(ctx, lines, scheds, tag="s")
    if base:
        log("selftest: the unmodified trace is not clean (%s); corruption tests would be ambiguous" % base[0]["sig"])
        ok = False

    def named(i, cid):
        # the request behind connection `cid` named a peer in every address
        for j in range(i - 1, -1, -1):
            if '"e":"reset"' in lines[j]:
                return False
            c = json.loads(lines[j])
            if c.get("e") == "call" and c["c"] in ("dial", "open") and c["cid"] == cid:
                return all(c["wants"])
        return False

    def corrupt(kind):
        idxs = list(range(len(lines)))
        rnd.shuffle(idxs)
        for i in idxs:
            d = json.loads(lines[i])
            if kind == "drop-dial-failure" and d.get("k") == "dial_failure":
                return i, lines[:i] + lines[i + 1:]
            if kind == "duplicate-established" and d.get("k") == "est":
                return i, lines[:i + 1] + [lines[i]] + lines[i + 1:]
            if kind == "outcome-after-cancel" and d.get("c") == "cancel" and d["cid"] in d["bk"]["aborted"]:
                e = {"e": "ev", "k": "open_failure", "cid": d["cid"], "errs": [], "bk": d["bk"]}
                return i, lines[:i + 1] + [json.dumps(e, separators=(",", ":"))] + lines[i + 1:]
            if kind == "accept-result-flipped" and d.get("c") == "accept" and d["ret"] == "ok":
                d["ret"] = "err"
            elif kind == "wrong-peer" and d.get("k") == "est" and d["dir"] == "out" and named(i, d["cid"]):
                d["peer"] = "12D3KooWT2ouvz5uMmCvHJGzAGRHiqDts5hzXR7NdoQ27pGdzp9Q"
            elif kind == "outbound-reported-as-listener" and d.get("k") == "est" and d["dir"] == "out":
                d["dir"] = "in"
            elif kind == "failure-names-other-address" and d.get("k") == "dial_failure":
                d["addr"] = "/ip4/10.0.0.1/tcp/1"
            elif kind == "event-for-unknown-id" and d.get("k") == "open_failure":
                d["cid"] = 777
            elif kind == "leak-pending-dials" and d.get("e") == "quiesce":
                d["bk"]["pending_dials"] = [0]
            elif kind == "leak-cancel-futures" and d.get("e") == "quiesce":
                d["bk"]["cancel_futures"] = [1]
            elif kind == "leak-pending-open" and d.get("e") == "quiesce":
                d["bk"]["pending_open"] = d["bk"]["pending_open"] + [4242]
            elif kind == "phantom-inbound" and d.get("e") == "connect":
                return i, lines[:i] + lines[i + 1:]
            else:
                continue
            return i, lines[:i] + [json.dumps(d, separators=(",", ":"))] + lines[i + 1:]
        return None, None

    for kind in ["drop-dial-failure", "duplicate-established", "outcome-after-cancel", "accept-result-flipped", "wrong-peer",
                 "outbound-reported-as-listener", "failure-names-other-address", "event-for-unknown-id", "leak-pending-dials", "leak-cancel-futures", "leak-pending-open",
                 "phantom-inbound"]:
        i, mut = corrupt(kind)
        if mut is None:
            log("selftest binding %-30s: no candidate line" % kind)
            ok = False
            continue
        _, _, rej = validate_all(ctx, "TransportIfaceTrace.tla", "TransportIfaceTrace.cfg", mut, tag="m")
        log("selftest binding %-30s line %d -> %s" % (kind, i + 1, "flagged (%s)" % sorted({r.reason for r in rej})[0] if rej else "NOT FLAGGED"))
        ok &= bool(rej)
    for fault in ["drop_dial_failure", "event_after_cancel", "leak_pending_dials", "lose_wake_after_hold"]:
        _, fl = run_harness(ctx, scheds, tag="f", env={"VERIF_FAULT": fault})
        _, _, viol = judge(ctx, fl, scheds, tag="f")
        log("selftest harness fault %-22s -> %s" % (fault, "flagged (%s)" % sorted({v["sig"] for v in viol})[:2] if viol else "NOT FLAGGED"))
        ok &= bool(viol)
    for spec, base, m in [("TcpTransportMC.tla", BASE, m) for m in MUTANTS] + [("QuicTransportMC.tla", QBASE, m) for m in QUIC_MUTANTS]:
        r = tlc_mc(ctx, spec, write_cfg(ctx, "neg_%s.cfg" % m, dict(base, MaxCid=2, Mutant=m), MC_INV), workers=4,
                   expect_violation=True, timeout=900)
        viol = re.findall(r"Invariant (\w+) is violated", r["out"])
        log("selftest negative model %-16s %-26s -> %s" % (spec[:-6], m, "violates %s" % viol[0] if viol else "NO VIOLATION"))
        ok &= bool(viol)
    log("SELFTEST %s" % ("ok" if ok else "FAILED"))
    return 0 if ok else 2
