----------------------------- MODULE PeerIdRules -----------------------------
(***************************************************************************)
(* Peer ids (litep2p src/peer_id.rs), property C18, as explicit decision   *)
(* tables over abstract input classes.                                     *)
(*                                                                         *)
(* Derivation class  [klen, kind]                                          *)
(*   klen  length of the protobuf-encoded key: 0 | 1_41 | 42 | 43 | 44_100 *)
(*   kind  blob (arbitrary bytes) | ed25519 (a real key, 36 bytes encoded) *)
(*                                                                         *)
(* Parse class  [code, dlen, decl, vform, text]                            *)
(*   code  multihash code: identity | sha2_256 | otherknown | unassigned   *)
(*   dlen  declared digest length: 0 | 1_31 | 32 | 33_42 | 43_64 | 65plus  *)
(*   decl  bytes present vs declared: eq | short (fewer) | long (trailing) *)
(*   vform form of the code / length varints: minimal | nonminimal |       *)
(*         overflow (10 bytes, bits beyond 2^64 set, low bits spell the    *)
(*         value) | toolong (more than 10 bytes)                           *)
(*   text  form of the base58 text: valid | badalphabet | empty (the empty  *)
(*         input, as text and as bytes)                                     *)
(* Impl* transcribes litep2p; the property-level oracle for parsing is the *)
(* reference implementation (libp2p-identity), bound in the trace spec.    *)
(***************************************************************************)
EXTENDS Naturals, FiniteSets

KLens == {"0", "1_41", "42", "43", "44_100"}
Kinds == {"blob", "ed25519"}
DeriveClasses == {c \in [klen : KLens, kind : Kinds] : c.kind = "ed25519" => c.klen = "1_41"}

\* C18: identity multihash of the encoding when it is at most 42 bytes, SHA-256 otherwise
Derive(c) == IF c.klen \in {"0", "1_41", "42"} THEN "identity" ELSE "sha2_256"
\* digest length class of the derived multihash
DerivedDLen(c) ==
  IF Derive(c) = "sha2_256" THEN {"32"}
  ELSE CASE c.klen = "0" -> {"0"} [] c.klen = "1_41" -> {"1_31", "32", "33_42"} [] c.klen = "42" -> {"33_42"}

Codes == {"identity", "sha2_256", "otherknown", "unassigned"}
DLens == {"0", "1_31", "32", "33_42", "43_64", "65plus"}
Decls == {"eq", "short", "long"}
VForms == {"minimal", "nonminimal", "overflow", "toolong"}
Texts == {"valid", "badalphabet", "empty"}

ParseClasses ==
  {c \in [code : Codes, dlen : DLens, decl : Decls, vform : VForms, text : Texts] :
     /\ (c.decl = "short" => c.dlen # "0")              \* nothing can be missing from 0 bytes
     /\ (c.text = "empty" => c.code = "identity" /\ c.dlen = "0" /\ c.decl = "eq" /\ c.vform = "minimal")}

\* Impl: Multihash::<64>::from_bytes + PeerId::from_multihash
\* (the varint reader of the multihash crate drops bits beyond 2^64: `overflow` reads
\* like `minimal`)
ImplMultihashParses(c) ==
  /\ c.text # "empty"
  /\ c.vform \in {"minimal", "overflow"}
  /\ c.decl = "eq"
  /\ c.dlen # "65plus"
ImplParsesBytes(c) ==
  /\ ImplMultihashParses(c)
  /\ \/ c.code = "sha2_256"                                      \* any digest length up to 64
     \/ c.code = "identity" /\ c.dlen \in {"0", "1_31", "32", "33_42"}
ImplParsesText(c) == c.text = "valid" /\ ImplParsesBytes(c)

Verdict(b) == IF b THEN "accept" ELSE "reject"

\* how a parse class is reached: raw bytes, base58 text, /p2p multiaddress component
\* (binary form), serde human-readable (JSON string), serde binary (byte string)
Vias == {"bytes", "text", "multiaddr", "serde_text", "serde_bin"}
ImplVerdict(c, via) ==
  IF via \in {"text", "serde_text"} THEN Verdict(ImplParsesText(c)) ELSE Verdict(ImplParsesBytes(c))

\* ---- Prop: one observed parse.  real / ref in {accept, reject, panic};
\* same: both sides produced the same peer id bytes; rt: the accepted id survived the
\* conversions to bytes, text, multiaddress component and both serde forms and back
PropParse(real, ref, same, rt) ==
  /\ real \in {"accept", "reject"}
  /\ real = ref
  /\ real = "accept" => same /\ rt

\* ---- Prop: one observed derivation.  got: the multihash code class of the derived id;
\* bytesOk: equals the independently computed multihash; refOk: the reference derives /
\* accepts the same id; rt as above
PropDerive(c, got, bytesOk, refOk, rt) == got = Derive(c) /\ bytesOk /\ refOk /\ rt
=============================================================================
