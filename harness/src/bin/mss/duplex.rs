//! Scripted in-memory duplex for C03: two FIFO byte channels between side 0 (dialer) and
//! side 1 (listener).  Every `poll_read` / `poll_write` either follows the io script of a TLC
//! behaviour (unit counts, see `MultistreamImpl.tla`) or, once the script is exhausted or the
//! code took another path ("drift"), a seeded random policy (short reads / short writes /
//! injected `Pending`).  Wakers are not used: the driver polls by script / at random and
//! detects quiescence from "no io progress and nothing injected".
use futures::io::{AsyncRead, AsyncWrite};
use rand::{rngs::StdRng, Rng};
use std::{
    cell::RefCell,
    collections::VecDeque,
    io,
    pin::Pin,
    rc::Rc,
    task::{Context, Poll},
};

#[derive(Clone, Debug)]
pub struct Op {
    pub side: usize,
    /// RD / WR / FL
    pub kind: u8,
    pub n: usize,
}
pub const RD: u8 = 0;
pub const WR: u8 = 1;
/// one poll of the carrier's flush that moves n units from its private buffer to the wire
pub const FL: u8 = 2;
const KIND: [&str; 3] = ["read", "write", "flush"];

/// Incremental tagger: assigns a unit id to every byte written into one direction.
/// Frame mode: every varint length byte is a unit, the body is two units (first half /
/// second half).  Application bytes are one unit each.
#[derive(Default)]
struct Tagger {
    next_unit: u32,
    in_len: bool,
    len_acc: usize,
    len_shift: u32,
    body_left: usize,
    body_first_half_left: usize,
    fresh_half: bool,
}

impl Tagger {
    fn new() -> Self {
        Tagger { in_len: true, ..Default::default() }
    }
    fn new_unit(&mut self) -> u32 {
        self.next_unit += 1;
        self.next_unit
    }
    fn tag(&mut self, b: u8, app: bool) -> u32 {
        if app {
            return self.new_unit();
        }
        if self.in_len {
            self.len_acc |= ((b & 0x7f) as usize) << self.len_shift;
            self.len_shift += 7;
            let u = self.new_unit();
            if b & 0x80 == 0 {
                let n = self.len_acc;
                self.len_acc = 0;
                self.len_shift = 0;
                if n > 0 {
                    self.in_len = false;
                    self.body_left = n;
                    self.body_first_half_left = n / 2;
                    self.fresh_half = true;
                }
            }
            return u;
        }
        // body
        if self.fresh_half {
            self.fresh_half = false;
            self.new_unit();
        }
        let u = self.next_unit;
        self.body_left -= 1;
        if self.body_first_half_left > 0 {
            self.body_first_half_left -= 1;
            if self.body_first_half_left == 0 {
                self.fresh_half = true;
            }
        }
        if self.body_left == 0 {
            self.in_len = true;
            self.fresh_half = false;
        }
        u
    }
}

struct Dir {
    q: VecDeque<(u8, u32)>,
    /// carrier of the writing side buffers until flushed: `poll_write` appends here, `poll_flush`
    /// moves bytes to `q` (possibly over several polls)
    buffering: bool,
    pbuf: VecDeque<(u8, u32)>,
    tagger: Tagger,
    writer_gone: bool,
    reader_gone: bool,
}

#[derive(Clone, Copy, PartialEq, Debug)]
pub enum Mode {
    Script,
    Free,
}

pub struct Shared {
    dirs: [Dir; 2], // dirs[s] = bytes written by side s
    pub script: Vec<Op>,
    pub pos: usize,
    pub mode: Mode,
    pub rng: StdRng,
    pub p_pend: f64,
    pub drift: Option<String>,
    /// incremented on every byte-moving io call
    pub progress: u64,
    /// a `Pending` was injected (or a script turn was yielded) since the flag was cleared
    pub injected: bool,
    /// address range of the application payload currently being written by a side
    pub app_range: [(usize, usize); 2],
    pub log: Vec<String>,
    pub io_ops: u64,
    pended_entry: usize,
    /// VERIF_FAULT=eatbyte: the environment swallows the first application byte of the dialer (pipeline self-test)
    pub eat: bool,
}

pub type Sh = Rc<RefCell<Shared>>;

impl Shared {
    pub fn new(script: Vec<Op>, rng: StdRng, p_pend: f64, buffering: [bool; 2]) -> Sh {
        let mk = |b: bool| Dir { q: VecDeque::new(), buffering: b, pbuf: VecDeque::new(), tagger: Tagger::new(), writer_gone: false, reader_gone: false };
        let mode = if script.is_empty() { Mode::Free } else { Mode::Script };
        Rc::new(RefCell::new(Shared {
            dirs: [mk(buffering[0]), mk(buffering[1])],
            script,
            pos: 0,
            mode,
            rng,
            p_pend,
            drift: None,
            progress: 0,
            injected: false,
            app_range: [(0, 0); 2],
            log: vec![],
            io_ops: 0,
            pended_entry: usize::MAX,
            eat: false,
        }))
    }
    fn set_drift(&mut self, why: String) {
        if self.drift.is_none() {
            self.drift = Some(format!("at script op {}: {}", self.pos, why));
        }
        self.mode = Mode::Free;
    }
    /// side whose io the script expects next (None in free mode)
    pub fn script_turn(&mut self) -> Option<usize> {
        if self.mode == Mode::Script && self.pos >= self.script.len() {
            self.mode = Mode::Free;
        }
        if self.mode == Mode::Script {
            Some(self.script[self.pos].side)
        } else {
            None
        }
    }
    pub fn note_drift(&mut self, why: &str) {
        if self.mode == Mode::Script {
            self.set_drift(why.to_string());
        }
    }
    fn inject(&mut self) -> bool {
        if self.p_pend > 0.0 && self.rng.gen_bool(self.p_pend) {
            self.injected = true;
            true
        } else {
            false
        }
    }
    /// In script mode: is the next entry for `side` with direction `read`?  Ok(Some(n)) = serve
    /// n units, Ok(None) = yield (other side's turn / injected Pending), Err = drifted to free mode.
    fn script_entry(&mut self, side: usize, kind: u8) -> Result<Option<usize>, ()> {
        if self.pos >= self.script.len() {
            self.mode = Mode::Free;
            return Err(());
        }
        let op = self.script[self.pos].clone();
        if op.side != side {
            self.injected = true; // yield to the scheduler: the other side moves first
            return Ok(None);
        }
        if op.kind != kind {
            self.set_drift(format!("side {} did a {} where the model does a {}", side, KIND[kind as usize], KIND[op.kind as usize]));
            return Err(());
        }
        if self.pended_entry != self.pos && self.inject() {
            self.pended_entry = self.pos;
            return Ok(None);
        }
        Ok(Some(op.n))
    }
}

pub struct Endpoint {
    pub sh: Sh,
    pub side: usize,
}

impl Drop for Endpoint {
    fn drop(&mut self) {
        let mut sh = self.sh.borrow_mut();
        let s = self.side;
        sh.dirs[s].writer_gone = true;
        sh.dirs[1 - s].reader_gone = true;
        sh.progress += 1;
    }
}

impl AsyncRead for Endpoint {
    fn poll_read(self: Pin<&mut Self>, _cx: &mut Context<'_>, buf: &mut [u8]) -> Poll<io::Result<usize>> {
        let me = self.side;
        let mut guard = self.sh.borrow_mut();
        let sh = &mut *guard;
        sh.io_ops += 1;
        if buf.is_empty() {
            return Poll::Ready(Ok(0));
        }
        let from = 1 - me;
        if sh.mode == Mode::Script {
            match sh.script_entry(me, RD) {
                Ok(None) => return Poll::Pending,
                Ok(Some(0)) => {
                    if sh.dirs[from].q.is_empty() && sh.dirs[from].writer_gone {
                        sh.pos += 1;
                        sh.progress += 1;
                        return Poll::Ready(Ok(0));
                    }
                    sh.set_drift("model expects EOF, bytes or a live writer present".into());
                }
                Ok(Some(n)) => {
                    // bytes making up the first n units
                    let q = &sh.dirs[from].q;
                    let mut units = 0usize;
                    let mut bytes = 0usize;
                    let mut last = 0u32;
                    for (i, (_, u)) in q.iter().enumerate() {
                        if i == 0 || *u != last {
                            if units == n {
                                break;
                            }
                            units += 1;
                            last = *u;
                        }
                        bytes += 1;
                    }
                    if units == n && bytes <= buf.len() {
                        for slot in buf.iter_mut().take(bytes) {
                            *slot = sh.dirs[from].q.pop_front().unwrap().0;
                        }
                        sh.pos += 1;
                        sh.progress += 1;
                        return Poll::Ready(Ok(bytes));
                    }
                    sh.set_drift(format!("read of {} units impossible (have {} units / {} bytes, buffer {})", n, units, bytes, buf.len()));
                }
                Err(()) => {}
            }
        }
        // free mode
        let avail = sh.dirs[from].q.len();
        if avail == 0 {
            if sh.dirs[from].writer_gone {
                sh.progress += 1;
                return Poll::Ready(Ok(0));
            }
            return Poll::Pending; // genuinely blocked
        }
        if sh.inject() {
            return Poll::Pending;
        }
        let top = avail.min(buf.len());
        let k = match sh.rng.gen_range(0..4) {
            0 => 1,
            1 => top,
            _ => sh.rng.gen_range(1..=top),
        };
        for slot in buf.iter_mut().take(k) {
            *slot = sh.dirs[from].q.pop_front().unwrap().0;
        }
        sh.progress += 1;
        Poll::Ready(Ok(k))
    }
}

impl AsyncWrite for Endpoint {
    fn poll_write(self: Pin<&mut Self>, _cx: &mut Context<'_>, buf: &[u8]) -> Poll<io::Result<usize>> {
        let me = self.side;
        let mut guard = self.sh.borrow_mut();
        let sh = &mut *guard;
        sh.io_ops += 1;
        if buf.is_empty() {
            return Poll::Ready(Ok(0));
        }
        let p = buf.as_ptr() as usize;
        let app = p >= sh.app_range[me].0 && p < sh.app_range[me].1;
        let mut take: Option<usize> = None;
        if sh.mode == Mode::Script {
            match sh.script_entry(me, WR) {
                Ok(None) => return Poll::Pending,
                Ok(Some(0)) => {
                    if sh.dirs[me].reader_gone {
                        sh.pos += 1;
                        sh.progress += 1;
                        return Poll::Ready(Err(io::ErrorKind::BrokenPipe.into()));
                    }
                    sh.set_drift("model expects a write error, reader still present".into());
                }
                Ok(Some(n)) => {
                    // dry-run the tagger to find the byte length of the first n units of buf
                    let t = &sh.dirs[me].tagger;
                    let mut probe = Tagger { ..*t };
                    let mut units = 0usize;
                    let mut bytes = 0usize;
                    let mut last = probe.next_unit;
                    // a unit that was started by a previous write continues (cannot happen in
                    // lockstep: writes are whole units), so units are counted by id change
                    for b in buf {
                        let u = probe.tag(*b, app);
                        if u != last {
                            if units == n {
                                break;
                            }
                            units += 1;
                            last = u;
                        }
                        bytes += 1;
                    }
                    if units == n {
                        take = Some(bytes);
                        sh.pos += 1;
                    } else {
                        sh.set_drift(format!("write of {} units impossible (buffer holds {} units / {} bytes)", n, units, buf.len()));
                    }
                }
                Err(()) => {}
            }
        }
        // a buffering carrier accepts the bytes; a vanished reader shows at the flush
        if sh.dirs[me].reader_gone && !sh.dirs[me].buffering {
            sh.progress += 1;
            return Poll::Ready(Err(io::ErrorKind::BrokenPipe.into()));
        }
        let k = match take {
            Some(k) => k,
            None => {
                if sh.inject() {
                    return Poll::Pending;
                }
                match sh.rng.gen_range(0..4) {
                    0 => 1,
                    1 | 2 => buf.len(),
                    _ => sh.rng.gen_range(1..=buf.len()),
                }
            }
        };
        for b in &buf[..k] {
            let u = sh.dirs[me].tagger.tag(*b, app);
            if sh.eat && app && me == 0 {
                sh.eat = false;
                continue;
            }
            if sh.dirs[me].buffering {
                sh.dirs[me].pbuf.push_back((*b, u));
            } else {
                sh.dirs[me].q.push_back((*b, u));
            }
        }
        sh.progress += 1;
        Poll::Ready(Ok(k))
    }

    fn poll_flush(self: Pin<&mut Self>, _cx: &mut Context<'_>) -> Poll<io::Result<()>> {
        let me = self.side;
        let mut guard = self.sh.borrow_mut();
        let sh = &mut *guard;
        sh.io_ops += 1;
        if sh.dirs[me].pbuf.is_empty() {
            // nothing held back (always the case for a write-through carrier)
            if sh.inject() {
                return Poll::Pending;
            }
            return Poll::Ready(Ok(()));
        }
        let mut take: Option<usize> = None;
        if sh.mode == Mode::Script {
            match sh.script_entry(me, FL) {
                Ok(None) => return Poll::Pending,
                Ok(Some(0)) => {
                    if sh.dirs[me].reader_gone {
                        sh.pos += 1;
                        sh.progress += 1;
                        return Poll::Ready(Err(io::ErrorKind::BrokenPipe.into()));
                    }
                    sh.set_drift("model expects a flush error, reader still present".into());
                }
                Ok(Some(n)) => {
                    let mut units = 0usize;
                    let mut bytes = 0usize;
                    let mut last = 0u32;
                    for (i, (_, u)) in sh.dirs[me].pbuf.iter().enumerate() {
                        if i == 0 || *u != last {
                            if units == n {
                                break;
                            }
                            units += 1;
                            last = *u;
                        }
                        bytes += 1;
                    }
                    if units == n {
                        take = Some(bytes);
                        sh.pos += 1;
                    } else {
                        sh.set_drift(format!("flush of {} units impossible (carrier holds {} units)", n, units));
                    }
                }
                Err(()) => {}
            }
        }
        if sh.dirs[me].reader_gone {
            sh.progress += 1;
            return Poll::Ready(Err(io::ErrorKind::BrokenPipe.into()));
        }
        let k = match take {
            Some(k) => k,
            None => {
                if sh.inject() {
                    return Poll::Pending;
                }
                let len = sh.dirs[me].pbuf.len();
                match sh.rng.gen_range(0..4) {
                    0 => 1,
                    1 | 2 => len,
                    _ => sh.rng.gen_range(1..=len),
                }
            }
        };
        for _ in 0..k {
            let x = sh.dirs[me].pbuf.pop_front().unwrap();
            sh.dirs[me].q.push_back(x);
        }
        sh.progress += 1;
        if sh.dirs[me].pbuf.is_empty() {
            Poll::Ready(Ok(()))
        } else {
            // partial progress: the flush has to be polled again
            sh.injected = true;
            Poll::Pending
        }
    }

    fn poll_close(self: Pin<&mut Self>, _cx: &mut Context<'_>) -> Poll<io::Result<()>> {
        Poll::Ready(Ok(()))
    }
}
