//! Real-network part of the C08 harness: two real litep2p nodes (A = "p1", B = "p2") over
//! loopback TCP, public API only.  Each node runs two user protocols; both nodes register
//! `/c08/0`, only A registers `/c08/1` and only B `/c08/2`, so substreams A opens on `/c08/1`
//! fail their negotiation at the remote and must come back as open failures carrying the id
//! (`TcpConnection::handle_negotiated_substream`).  Every protocol task records, in program
//! order, what `open_substream` returned and every `TransportEvent` it got; one trace segment per
//! node.  The driver only waits and issues commands; deadlines are several times the configured
//! substream open timeout, and a run whose own 20 ms timer overshot badly (overloaded machine) or
//! whose nodes did not get connected is discarded, never judged.
use futures::StreamExt;
use litep2p::{
    codec::ProtocolCodec,
    config::ConfigBuilder,
    crypto::ed25519::Keypair,
    protocol::{Direction, TransportEvent, TransportService, UserProtocol},
    transport::tcp::config::Config as TcpConfig,
    types::protocol::ProtocolName,
    Litep2p, PeerId,
};
use multiaddr::{Multiaddr, Protocol};
use rand::{rngs::StdRng, Rng, SeedableRng};
use serde_json::{json, Value};
use std::{
    collections::HashMap,
    sync::{Arc, Mutex},
    time::{Duration, Instant},
};
use tokio::sync::{mpsc, oneshot};

const OPEN_TIMEOUT: Duration = Duration::from_secs(2);
const ANSWER_DEADLINE: Duration = Duration::from_secs(12);
const CONNECT_DEADLINE: Duration = Duration::from_secs(10);

pub static PANICS: Mutex<Vec<String>> = Mutex::new(Vec::new());

#[derive(Clone, Default)]
struct Log(Arc<Mutex<Vec<Value>>>);

impl Log {
    fn push(&self, v: Value) {
        self.0.lock().unwrap().push(v);
    }
    fn step(&self, s: Value, ret: Value) {
        self.push(json!({"e": "step", "s": s, "ret": ret, "panic": false, "view": 0}));
    }
    fn count(&self, f: impl Fn(&Value) -> bool) -> usize {
        self.0.lock().unwrap().iter().filter(|v| f(v)).count()
    }
    async fn wait(&self, deadline: Duration, pred: impl Fn(&[Value]) -> bool) -> bool {
        let end = Instant::now() + deadline;
        loop {
            if pred(&self.0.lock().unwrap()) {
                return true;
            }
            if Instant::now() >= end {
                return false;
            }
            tokio::time::sleep(Duration::from_millis(5)).await;
        }
    }
}

type Names = Arc<Mutex<HashMap<PeerId, String>>>;

enum PCmd {
    Open { peer: PeerId, resp: oneshot::Sender<()> },
    ForceClose { peer: PeerId, resp: oneshot::Sender<()> },
}

struct Proto {
    name: ProtocolName,
    q: usize,
    log: Log,
    names: Names,
    rx: mpsc::Receiver<PCmd>,
}

#[async_trait::async_trait]
impl UserProtocol for Proto {
    fn protocol(&self) -> ProtocolName {
        self.name.clone()
    }
    fn codec(&self) -> ProtocolCodec {
        ProtocolCodec::UnsignedVarint(Some(1024))
    }
    async fn run(mut self: Box<Self>, mut service: TransportService) -> litep2p::Result<()> {
        let pname = |names: &Names, p: &PeerId| names.lock().unwrap().get(p).cloned().unwrap_or_else(|| "?".into());
        let q = self.q;
        let mut held = Vec::new();
        loop {
            tokio::select! {
                ev = service.next() => {
                    let ret = match ev {
                        None => json!({"k": "terminated"}),
                        Some(TransportEvent::ConnectionEstablished { peer, endpoint }) =>
                            json!({"k": "est", "p": pname(&self.names, &peer), "c": endpoint.connection_id().verif_as_usize(),
                                   "dir": if endpoint.is_listener() { "in" } else { "out" }}),
                        Some(TransportEvent::ConnectionClosed { peer }) => json!({"k": "closed", "p": pname(&self.names, &peer)}),
                        Some(TransportEvent::SubstreamOpened { peer, direction, substream, .. }) => {
                            held.push(substream);
                            match direction {
                                Direction::Inbound => json!({"k": "opened", "p": pname(&self.names, &peer), "q": q, "dirn": "in", "id": -1}),
                                Direction::Outbound(id) =>
                                    json!({"k": "opened", "p": pname(&self.names, &peer), "q": q, "dirn": "out", "id": id.verif_as_usize()}),
                            }
                        }
                        Some(TransportEvent::SubstreamOpenFailure { substream, error }) =>
                            json!({"k": "failed", "id": substream.verif_as_usize(), "err": format!("{error:?}").chars().take(80).collect::<String>()}),
                        Some(TransportEvent::DialFailure { .. }) => json!({"k": "dialfailure"}),
                    };
                    if ret["k"] == "terminated" {
                        // the node is being shut down at the end of the scenario
                        return Ok(());
                    }
                    self.log.step(json!({"a": "nev", "q": q}), ret);
                }
                cmd = self.rx.recv() => match cmd {
                    None => return Ok(()),
                    Some(PCmd::Open { peer, resp }) => {
                        let ret = match service.open_substream(peer) {
                            Ok(id) => json!({"k": "ok", "id": id.verif_as_usize()}),
                            Err(e) => json!({"k": "err", "err": format!("{e:?}").chars().take(60).collect::<String>()}),
                        };
                        self.log.step(json!({"a": "nopen", "q": q, "p": pname(&self.names, &peer)}), ret);
                        let _ = resp.send(());
                    }
                    Some(PCmd::ForceClose { peer, resp }) => {
                        let r = service.force_close(peer);
                        self.log.step(json!({"a": "nfclose", "q": q, "p": pname(&self.names, &peer)}),
                                      json!({"k": if r.is_ok() { "ok" } else { "err" }}));
                        let _ = resp.send(());
                    }
                },
            }
        }
    }
}

enum AppCmd {
    Dial(Multiaddr),
}

struct Node {
    peer: PeerId,
    addr: Multiaddr,
    log: Log,
    protos: Vec<mpsc::Sender<PCmd>>,
    app: mpsc::Sender<AppCmd>,
    task: tokio::task::JoinHandle<()>,
}

impl Node {
    fn new(protocols: [&str; 2], names: Names) -> Option<Node> {
        let log = Log::default();
        let mut builder = ConfigBuilder::new()
            .with_keypair(Keypair::generate())
            .with_keep_alive_timeout(Duration::from_secs(120))
            .with_tcp(TcpConfig {
                listen_addresses: vec!["/ip4/127.0.0.1/tcp/0".parse().unwrap()],
                substream_open_timeout: OPEN_TIMEOUT,
                ..Default::default()
            });
        let mut protos = vec![];
        for (q, name) in protocols.iter().enumerate() {
            let (tx, rx) = mpsc::channel(64);
            protos.push(tx);
            builder = builder.with_user_protocol(Box::new(Proto {
                name: ProtocolName::from(name.to_string()),
                q,
                log: log.clone(),
                names: names.clone(),
                rx,
            }));
        }
        let mut litep2p = Litep2p::new(builder.build()).ok()?;
        let peer = *litep2p.local_peer_id();
        let addr = litep2p.listen_addresses().next()?.clone();
        let addr = if matches!(addr.iter().last(), Some(Protocol::P2p(_))) { addr } else { addr.with(Protocol::P2p(peer.into())) };
        let (app, mut app_rx) = mpsc::channel(16);
        let task = tokio::spawn(async move {
            loop {
                tokio::select! {
                    ev = litep2p.next_event() => if ev.is_none() { return; },
                    cmd = app_rx.recv() => match cmd {
                        None => return,
                        Some(AppCmd::Dial(a)) => { let _ = litep2p.dial_address(a).await; }
                    },
                }
            }
        });
        Some(Node { peer, addr, log, protos, app, task })
    }
    async fn open(&self, q: usize, peer: PeerId) {
        let (tx, rx) = oneshot::channel();
        if self.protos[q].send(PCmd::Open { peer, resp: tx }).await.is_ok() {
            let _ = rx.await;
        }
    }
    async fn force_close(&self, q: usize, peer: PeerId) {
        let (tx, rx) = oneshot::channel();
        if self.protos[q].send(PCmd::ForceClose { peer, resp: tx }).await.is_ok() {
            let _ = rx.await;
        }
    }
}

fn is_ev(v: &Value, q: usize, k: &str) -> bool {
    v["s"]["a"] == "nev" && v["s"]["q"] == q && v["ret"]["k"] == k
}

/// accepted requests that have no answer yet
fn unanswered(lines: &[Value], from: usize) -> usize {
    let mut open = std::collections::HashSet::new();
    for v in lines.iter().skip(from) {
        if v["s"]["a"] == "nopen" && v["ret"]["k"] == "ok" {
            open.insert(v["ret"]["id"].as_i64().unwrap());
        }
        if v["s"]["a"] == "nev" && (v["ret"]["k"] == "failed" || (v["ret"]["k"] == "opened" && v["ret"]["dirn"] == "out")) {
            open.remove(&v["ret"]["id"].as_i64().unwrap());
        }
    }
    open.len()
}

struct Outcome {
    segments: Vec<Vec<Value>>,
    discarded: Option<&'static str>,
    opens: usize,
    overlapping: bool,
}

async fn scenario(rng: &mut StdRng) -> Outcome {
    let names: Names = Default::default();
    let (Some(a), Some(b)) = (Node::new(["/c08/0", "/c08/1"], names.clone()), Node::new(["/c08/0", "/c08/2"], names.clone())) else {
        return Outcome { segments: vec![], discarded: Some("node setup"), opens: 0, overlapping: false };
    };
    names.lock().unwrap().insert(a.peer, "p1".into());
    names.lock().unwrap().insert(b.peer, "p2".into());
    // load probe
    let worst = Arc::new(Mutex::new(0f64));
    let w2 = worst.clone();
    let probe = tokio::spawn(async move {
        loop {
            let t = Instant::now();
            tokio::time::sleep(Duration::from_millis(20)).await;
            let over = t.elapsed().as_secs_f64() * 1000.0 - 20.0;
            let mut g = w2.lock().unwrap();
            if over > *g {
                *g = over;
            }
        }
    });
    let mut discarded = None;
    let mut opens = 0usize;
    let cycles = rng.gen_range(1..=2);
    let mut overlapping = false;
    'run: for cycle in 0..cycles {
        let est_before = [a.log.count(|v| is_ev(v, 0, "est")), b.log.count(|v| is_ev(v, 0, "est"))];
        // connect: A dials, B dials, or both at once (two overlapping connections)
        let mode = rng.gen_range(0..4);
        if mode != 1 {
            let _ = a.app.send(AppCmd::Dial(b.addr.clone())).await;
        }
        if mode == 1 || mode >= 2 {
            let _ = b.app.send(AppCmd::Dial(a.addr.clone())).await;
        }
        overlapping |= mode >= 2;
        let ok_a = a.log.wait(CONNECT_DEADLINE, |l| (0..2).all(|q| l.iter().filter(|v| is_ev(v, q, "est")).count() > est_before[0])).await;
        let ok_b = b.log.wait(CONNECT_DEADLINE, |l| (0..2).all(|q| l.iter().filter(|v| is_ev(v, q, "est")).count() > est_before[1])).await;
        if !(ok_a && ok_b) {
            discarded = Some("not connected");
            break 'run;
        }
        // open requests from both sides, in random order: supported protocol /c08/0 (opened at both
        // ends), unsupported /c08/1 (A) and /c08/2 (B): negotiation fails at the remote
        let (from_a, from_b) = (a.log.0.lock().unwrap().len(), b.log.0.lock().unwrap().len());
        let n = rng.gen_range(2..=6);
        for _ in 0..n {
            let (node, peer) = if rng.gen_bool(0.7) { (&a, b.peer) } else { (&b, a.peer) };
            node.open(rng.gen_range(0..2), peer).await;
            opens += 1;
            if rng.gen_bool(0.3) {
                tokio::time::sleep(Duration::from_millis(rng.gen_range(0..15))).await;
            }
        }
        // nothing is terminated while we wait for the answers
        let done_a = a.log.wait(ANSWER_DEADLINE, |l| unanswered(l, from_a) == 0).await;
        let done_b = b.log.wait(ANSWER_DEADLINE, |l| unanswered(l, from_b) == 0).await;
        if *worst.lock().unwrap() > 1500.0 {
            discarded = Some("overloaded");
            break 'run;
        }
        let _ = (done_a, done_b);
        // "answered exactly once unless its connection terminates first" is judged only while the
        // nodes are linked by ONE connection: with two overlapping connections one of them can end
        // without the protocols being told, and which one carried a request is not observable here
        if !overlapping {
            a.log.push(json!({"e": "nquiesce"}));
            b.log.push(json!({"e": "nquiesce"}));
        }
        // terminate: force_close from one side (seen as a remote close by the other), racing with
        // further open requests; or leave the connection alone in the last cycle
        let term = rng.gen_range(0..3);
        if term == 2 && cycle + 1 == cycles {
            break;
        }
        let closed_before = [a.log.count(|v| is_ev(v, 0, "closed")), b.log.count(|v| is_ev(v, 0, "closed"))];
        a.log.step(json!({"a": "nterm", "p": "p2"}), json!({"k": "ok"}));
        b.log.step(json!({"a": "nterm", "p": "p1"}), json!({"k": "ok"}));
        if term == 0 {
            a.force_close(rng.gen_range(0..2), b.peer).await;
        } else {
            b.force_close(rng.gen_range(0..2), a.peer).await;
        }
        for _ in 0..rng.gen_range(0..3) {
            a.open(rng.gen_range(0..2), b.peer).await;
            opens += 1;
        }
        let c_a = a.log.wait(CONNECT_DEADLINE, |l| (0..2).all(|q| l.iter().filter(|v| is_ev(v, q, "closed")).count() > closed_before[0])).await;
        let c_b = b.log.wait(CONNECT_DEADLINE, |l| (0..2).all(|q| l.iter().filter(|v| is_ev(v, q, "closed")).count() > closed_before[1])).await;
        if !(c_a && c_b) {
            // whether and when a closed connection is reported is C07; stop here without judging more
            break;
        }
    }
    probe.abort();
    a.task.abort();
    b.task.abort();
    tokio::time::sleep(Duration::from_millis(20)).await;
    let segs = vec![a.log.0.lock().unwrap().clone(), b.log.0.lock().unwrap().clone()];
    Outcome { segments: segs, discarded, opens, overlapping }
}

pub fn run_net(n: usize, seed: u64, b0: usize) -> (Vec<String>, Value) {
    let rt = tokio::runtime::Builder::new_multi_thread().worker_threads(4).enable_all().build().expect("runtime");
    let mut rng = StdRng::seed_from_u64(seed ^ 0xC08);
    let mut lines = vec![];
    let (mut runs, mut discarded, mut opens, mut overlapping, mut attempts) = (0usize, 0usize, 0usize, 0usize, 0usize);
    while runs < n && attempts < 3 * n + 3 {
        attempts += 1;
        let before = PANICS.lock().unwrap().len();
        let out = rt.block_on(scenario(&mut rng));
        if out.discarded.is_some() {
            discarded += 1;
            continue;
        }
        let panics: Vec<String> = PANICS.lock().unwrap()[before..].to_vec();
        for (i, seg) in out.segments.iter().enumerate() {
            lines.push(json!({"e": "reset", "b": b0 + runs, "src": "net", "node": if i == 0 { "A" } else { "B" }, "ka": [true, true]}).to_string());
            for v in seg {
                lines.push(v.to_string());
            }
            if i == 0 && !panics.is_empty() {
                lines.push(json!({"e": "step", "s": {"a": "nev", "q": 0}, "ret": {"k": "panic", "msg": panics[0].chars().take(160).collect::<String>()},
                                  "panic": true, "view": 0}).to_string());
            }
        }
        runs += 1;
        opens += out.opens;
        overlapping += out.overlapping as usize;
    }
    (lines, json!({"net_runs": runs, "net_discarded": discarded, "net_opens": opens, "net_simultaneous_dials": overlapping}))
}
