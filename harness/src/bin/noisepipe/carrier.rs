//! Scripted in-memory carrier between two `NoiseSocket`s.
//!
//! Direction A->B is *scripted* after the handshake: the writer side accepts bytes only while
//! it has `wcap` room (else `Pending`), complete length-prefixed frames are parsed off the raw
//! byte stream, the single-frame attack of the scenario is applied and the result is appended to
//! the reader-side stream, which the reader side hands out following a chunk script
//! (`(c, n)`: n chunks of at most c bytes; c = 0: one `Pending`).  Direction B->A and both
//! directions during the handshake are plain pipes.
use futures::io::{AsyncRead, AsyncWrite};
use std::{
    collections::VecDeque,
    io,
    pin::Pin,
    sync::{Arc, Mutex},
    task::{Context, Poll, Waker},
};

#[derive(Clone, Debug, Default)]
pub struct Plan {
    pub kind: String,
    pub i: usize,
    pub x: usize,
    /// byte offset (body/tag) and bit for `body`
    pub y: usize,
}

#[derive(Default)]
pub struct Dir {
    pub scripted: bool,
    // plain pipe
    pub pipe: VecDeque<u8>,
    pub waker: Option<Waker>,
    // writer side
    pub wcap: usize,
    pub per_call_max: usize,
    pub raw: Vec<u8>,
    pub parse_pos: usize,
    pub nframes: usize,
    /// end offsets (in `raw`) of the complete frames the writer produced
    pub frame_ends: Vec<usize>,
    pub new_frames: Vec<usize>,
    pub w_inner_pending: bool,
    pub wout: usize,
    // attack
    pub plan: Plan,
    pub held: Option<Vec<u8>>,
    pub copy: Option<Vec<u8>>,
    pub cut_done: bool,
    // reader side
    pub rstream: Vec<u8>,
    pub rpos: usize,
    pub rchunks: VecDeque<(usize, usize)>,
    pub closed: bool,
    pub r_inner_pending: bool,
    pub inner_reads: usize,
}

impl Dir {
    pub fn scripted_bytes(&self) -> usize {
        self.rchunks.iter().map(|(c, n)| c * n).sum()
    }
    pub fn unscripted(&self) -> usize {
        self.rstream.len() - self.rpos - self.scripted_bytes()
    }
    fn release(&mut self, frame: Vec<u8>) {
        if !self.cut_done {
            self.rstream.extend_from_slice(&frame);
        }
    }
    /// A complete frame (header + body) left the writer: apply the attack, release to the reader.
    fn on_frame(&mut self, mut f: Vec<u8>) {
        self.nframes += 1;
        let j = self.nframes;
        let al = f.len() - 2;
        self.new_frames.push(al);
        let p = self.plan.clone();
        match p.kind.as_str() {
            "body" if j == p.i => {
                let off = 2 + p.y % al;
                f[off] ^= 1 << (p.y % 8);
                self.release(f);
            }
            "hdr" if j == p.i => {
                let nl = (al + p.x) % 65536;
                f[0] = (nl >> 8) as u8;
                f[1] = (nl & 0xff) as u8;
                self.release(f);
            }
            "trunc" if j == p.i => {
                let cut = p.x.max(1).min(al);
                f.truncate(2 + al - cut);
                self.release(f);
            }
            "drop" if j == p.i => {}
            "cut" if j == p.i => {
                let keep = p.x.min(2 + al - 1);
                f.truncate(keep);
                self.release(f);
                self.cut_done = true;
            }
            "swap" if j == p.i => self.held = Some(f),
            "swap" if j == p.i + 1 => {
                self.release(f);
                let h = self.held.take().expect("held frame");
                self.release(h);
            }
            "replay" if j == p.i || j == p.i + p.x => {
                if j == p.i {
                    self.copy = Some(f.clone());
                }
                self.release(f);
                if j == p.i + p.x {
                    let c = self.copy.clone().expect("copy");
                    self.release(c);
                }
            }
            _ => self.release(f),
        }
    }
    fn parse(&mut self) {
        loop {
            let rest = &self.raw[self.parse_pos..];
            if rest.len() < 2 {
                return;
            }
            let al = ((rest[0] as usize) << 8) | rest[1] as usize;
            if rest.len() < 2 + al {
                return;
            }
            let f = rest[..2 + al].to_vec();
            self.parse_pos += 2 + al;
            self.frame_ends.push(self.parse_pos);
            self.on_frame(f);
        }
    }
    /// First frame (writer's numbering, 1-based) whose bytes the reader does not see unchanged:
    /// position of the first difference between the stream as written and as released to the
    /// reader; 0 if the attack changed nothing; number of frames + 1 for bytes appended at the end.
    pub fn first_affected_frame(&self) -> usize {
        if self.plan.kind == "none" {
            return 0;
        }
        let a = &self.raw[..self.parse_pos];
        let b = &self.rstream;
        let n = a.len().min(b.len());
        let p = (0..n).find(|&i| a[i] != b[i]).unwrap_or(n);
        if p == a.len() && p == b.len() {
            return 0;
        }
        self.frame_ends.iter().position(|e| *e > p).map(|j| j + 1).unwrap_or(self.frame_ends.len() + 1)
    }
    /// bytes of an incomplete frame sitting on the wire
    pub fn partial(&self) -> usize {
        self.raw.len() - self.parse_pos
    }
}

#[derive(Default)]
pub struct Shared {
    pub ab: Dir,
    pub ba: Dir,
}

pub struct End {
    pub sh: Arc<Mutex<Shared>>,
    pub is_a: bool,
}

pub fn pair() -> (End, End, Arc<Mutex<Shared>>) {
    let sh = Arc::new(Mutex::new(Shared::default()));
    (End { sh: sh.clone(), is_a: true }, End { sh: sh.clone(), is_a: false }, sh)
}

impl AsyncWrite for End {
    fn poll_write(self: Pin<&mut Self>, _cx: &mut Context<'_>, buf: &[u8]) -> Poll<io::Result<usize>> {
        let mut g = self.sh.lock().unwrap();
        let d = if self.is_a { &mut g.ab } else { &mut g.ba };
        if !d.scripted {
            d.pipe.extend(buf.iter().copied());
            if let Some(w) = d.waker.take() {
                w.wake();
            }
            return Poll::Ready(Ok(buf.len()));
        }
        if buf.is_empty() {
            return Poll::Ready(Ok(0));
        }
        if d.wcap == 0 {
            d.w_inner_pending = true;
            return Poll::Pending;
        }
        let mut k = buf.len().min(d.wcap);
        if d.per_call_max > 0 {
            k = k.min(d.per_call_max);
        }
        d.raw.extend_from_slice(&buf[..k]);
        d.wcap -= k;
        d.wout += k;
        d.parse();
        Poll::Ready(Ok(k))
    }
    fn poll_flush(self: Pin<&mut Self>, _cx: &mut Context<'_>) -> Poll<io::Result<()>> {
        Poll::Ready(Ok(()))
    }
    fn poll_close(self: Pin<&mut Self>, _cx: &mut Context<'_>) -> Poll<io::Result<()>> {
        Poll::Ready(Ok(()))
    }
}

impl AsyncRead for End {
    fn poll_read(self: Pin<&mut Self>, cx: &mut Context<'_>, buf: &mut [u8]) -> Poll<io::Result<usize>> {
        let mut g = self.sh.lock().unwrap();
        // A reads what B wrote and vice versa
        let d = if self.is_a { &mut g.ba } else { &mut g.ab };
        if !d.scripted {
            if d.pipe.is_empty() {
                d.waker = Some(cx.waker().clone());
                return Poll::Pending;
            }
            let k = buf.len().min(d.pipe.len());
            for b in buf.iter_mut().take(k) {
                *b = d.pipe.pop_front().unwrap();
            }
            return Poll::Ready(Ok(k));
        }
        d.inner_reads += 1;
        if buf.is_empty() {
            return Poll::Ready(Ok(0));
        }
        match d.rchunks.front().copied() {
            None => {
                if d.closed {
                    Poll::Ready(Ok(0))
                } else {
                    d.r_inner_pending = true;
                    Poll::Pending
                }
            }
            Some((0, n)) => {
                if n > 1 {
                    d.rchunks[0].1 = n - 1;
                } else {
                    d.rchunks.pop_front();
                }
                d.r_inner_pending = true;
                Poll::Pending
            }
            Some((c, n)) => {
                let k = c.min(buf.len());
                assert!(d.rstream.len() - d.rpos >= k, "chunk script exceeds the stream (harness bug)");
                buf[..k].copy_from_slice(&d.rstream[d.rpos..d.rpos + k]);
                d.rpos += k;
                if n > 1 {
                    d.rchunks[0].1 = n - 1;
                } else {
                    d.rchunks.pop_front();
                }
                if k < c {
                    d.rchunks.push_front((c - k, 1));
                }
                Poll::Ready(Ok(k))
            }
        }
    }
}
