----------------------------- MODULE MultistreamMsg -----------------------------
(***************************************************************************)
(* C03, Impl layer of the message-based variant (WebRTC data channels):    *)
(* `WebRtcDialerState::{propose, register_response, propose_next_fallback}`*)
(* against `webrtc_listener_negotiate(supported, payload, header_received)`*)
(* driven as in transport/webrtc/connection.rs (header_received becomes    *)
(* TRUE after every round that did not fail; an error closes the channel). *)
(* A message is a sequence of multistream frames ("H", "N" or a name).     *)
(* The channel may deliver a multi-frame message in one piece or split at  *)
(* every frame boundary ("every grouping of header / protocol messages").  *)
(***************************************************************************)
EXTENDS Multistream, TLC, Json

CONSTANTS Names, MaxList, Record, Mut   \* Mut: "none" | "nohdrflag" | "nofallback"

VARIABLES cfg, d, l, chan, ev, mon, hist
vars == <<cfg, d, l, chan, ev, mon, hist>>

Lists(n) == UNION {{q \in [1..k -> Names] : \A i, j \in 1..k : i # j => q[i] # q[j]} : k \in 1..n}
Cfgs == [dlist : Lists(MaxList), lset : SUBSET Names, lazy : {FALSE}, dpay : {<<>>}, lpay : {<<>>}]

IsName(f) == f \notin {"H", "N"}
\* all ways to cut message msg (a sequence of frames) into consecutive non-empty messages
Groupings(msg) ==
  IF Len(msg) <= 1 THEN {<<msg>>}
  ELSE IF Len(msg) = 2 THEN {<<msg>>, <<<<msg[1]>>, <<msg[2]>>>>}
  ELSE {<<msg>>}

Done(s, ok, name) == [k |-> "done", s |-> s, ok |-> ok, p |-> name]

Apply(d2, l2, c2, e, h) ==
  /\ d' = d2 /\ l' = l2 /\ chan' = c2 /\ ev' = e
  /\ mon' = UpdEvent(mon, e)
  /\ hist' = IF Record THEN Append(hist, h) ELSE hist
  /\ UNCHANGED cfg

\* dialer: propose(main, fallbacks): header + first name in one message
Propose ==
  /\ d.st = "init"
  /\ \E g \in Groupings(<<"H", cfg.dlist[1]>>) :
       Apply([d EXCEPT !.st = "WaitingResponse", !.idx = 1], l,
             [chan EXCEPT !.dl = @ \o g], NoEvent, [a |-> "propose", g |-> Len(g)])

\* listener: webrtc_listener_negotiate on the next message
ListenerRecv ==
  /\ l.st = "run" /\ chan.dl # <<>>
  /\ LET msg == chan.dl[1]
         rest == [chan EXCEPT !.dl = Tail(@)]
         hr == IF Mut = "nohdrflag" THEN FALSE ELSE l.hr
         fail == Apply(d, [l EXCEPT !.st = "fail"], [rest EXCEPT !.dl = <<>>], Done("l", FALSE, ""), [a |-> "lrecv", g |-> 1])
         Answer(name, hdrHere, used) ==
           IF Len(msg) > used THEN fail       \* trailing data
           ELSE LET pre == IF hdrHere THEN <<"H">> ELSE <<>> IN
                IF name \in cfg.lset
                  THEN \E g \in Groupings(pre \o <<name>>) :
                         Apply(d, [l EXCEPT !.st = "ok", !.proto = name], [rest EXCEPT !.ld = @ \o g],
                               Done("l", TRUE, name), [a |-> "lrecv", g |-> Len(g)])
                  ELSE \E g \in Groupings(pre \o <<"N">>) :
                         Apply(d, [l EXCEPT !.hr = TRUE], [rest EXCEPT !.ld = @ \o g], NoEvent, [a |-> "lrecv", g |-> Len(g)])
     IN IF msg[1] = "H" /\ ~hr
          THEN IF Len(msg) = 1
                 THEN Apply(d, [l EXCEPT !.hr = TRUE], [rest EXCEPT !.ld = Append(@, <<"H">>)], NoEvent, [a |-> "lrecv", g |-> 1])
                 ELSE IF IsName(msg[2]) THEN Answer(msg[2], TRUE, 2) ELSE fail
          ELSE IF IsName(msg[1]) /\ hr THEN Answer(msg[1], FALSE, 1)
          ELSE fail

\* dialer: register_response on the next message, then propose_next_fallback on Rejected
RECURSIVE Register(_, _, _)
Register(st, msg, i) ==   \* returns <<result, state>>
  IF i > Len(msg) THEN (IF st = "WaitingProtocol" THEN <<"NotReady", st>> ELSE <<"Err", st>>)
  ELSE LET f == msg[i] IN
       IF st = "WaitingResponse"
         THEN IF f = "H" THEN Register("WaitingProtocol", msg, i + 1) ELSE <<"Err", st>>
         ELSE IF f = "N" THEN <<"Rejected", st>>
              ELSE IF IsName(f) THEN (IF f = cfg.dlist[d.idx] THEN <<"Succeeded", st>> ELSE <<"Err", st>>)
              ELSE <<"Err", st>>

DialerRecv ==
  /\ d.st \in {"WaitingResponse", "WaitingProtocol"} /\ chan.ld # <<>>
  /\ LET msg == chan.ld[1]
         rest == [chan EXCEPT !.ld = Tail(@)]
         r == Register(d.st, msg, 1)
         h == [a |-> "drecv", g |-> 1]
     IN CASE r[1] = "NotReady" -> Apply([d EXCEPT !.st = r[2]], l, rest, NoEvent, h)
          [] r[1] = "Succeeded" -> Apply([d EXCEPT !.st = "ok", !.proto = cfg.dlist[d.idx]], l, rest, Done("d", TRUE, cfg.dlist[d.idx]), h)
          [] r[1] = "Rejected" ->
               IF d.idx < Len(cfg.dlist) /\ Mut # "nofallback"
                 THEN Apply([d EXCEPT !.st = r[2], !.idx = @ + 1], l,
                            [rest EXCEPT !.dl = Append(@, <<cfg.dlist[d.idx + 1]>>)], NoEvent, h)
                 ELSE Apply([d EXCEPT !.st = "fail"], l, rest, Done("d", FALSE, ""), h)
          [] OTHER -> Apply([d EXCEPT !.st = "fail"], l, rest, Done("d", FALSE, ""), h)

\* the channel is closed by a side that failed; the peer observes it and gives up
DialerSeesClose ==
  /\ d.st \in {"WaitingResponse", "WaitingProtocol"} /\ chan.ld = <<>> /\ l.st = "fail"
  /\ Apply([d EXCEPT !.st = "fail"], l, chan, Done("d", FALSE, ""), [a |-> "dclose", g |-> 0])
ListenerSeesClose ==
  /\ l.st = "run" /\ chan.dl = <<>> /\ d.st = "fail"
  /\ Apply(d, [l EXCEPT !.st = "fail"], chan, Done("l", FALSE, ""), [a |-> "lclose", g |-> 0])

Quiescent ==
  /\ d.st \in {"ok", "fail"} \/ (d.st # "init" /\ chan.ld = <<>> /\ l.st # "fail")
  /\ l.st \in {"ok", "fail"} \/ (chan.dl = <<>> /\ d.st # "fail")

Init ==
  /\ cfg \in Cfgs
  /\ d = [st |-> "init", idx |-> 0, proto |-> ""]
  /\ l = [st |-> "run", hr |-> FALSE, proto |-> ""]
  /\ chan = [dl |-> <<>>, ld |-> <<>>]
  /\ ev = NoEvent /\ mon = PropInit /\ hist = <<>>

Next == Propose \/ ListenerRecv \/ DialerRecv \/ DialerSeesClose \/ ListenerSeesClose
          \/ (Quiescent /\ UNCHANGED vars)
Spec == Init /\ [][Next]_vars
FairSpec == Spec /\ WF_vars(Propose \/ ListenerRecv \/ DialerRecv \/ DialerSeesClose \/ ListenerSeesClose)

StepOK == [][OkEvent(cfg, mon, ev')]_vars
QuiesceOK == Quiescent => PropQuiesce(cfg, mon)
Terminates == <>[]Quiescent
View == <<cfg, d, l, chan>>
Emit == PrintT(<<"B", ToJson([dlist |-> cfg.dlist, lset |-> cfg.lset, ops |-> hist'])>>)
=============================================================================
