----------------------------- MODULE NotifTrace -----------------------------
(* Trace validation of per-endpoint logs of real litep2p nodes against the   *)
(* property monitor of Notif.tla (C11).  One segment = the log of one         *)
(* endpoint of one network: {"e":"reset",..} commands / events / environment  *)
(* facts in the order the scenario driver issued / pulled them, closed by     *)
(* {"e":"quiesce","stable":b}.  A broken rule is printed as <<"BAD", line,    *)
(* reason>>, forgiven, and validation continues.                              *)
EXTENDS Notif, Json, IOUtils

Rec == ndJsonDeserialize(IOEnv.TRACE)

VARIABLES l, mon
tvars == <<l, mon>>

TInit == l = 1 /\ mon = MonInit({}, FALSE)

ToSet(s) == {s[i] : i \in DOMAIN s}

Apply(M, r) ==
  CASE r.e = "reset" -> MonInit(ToSet(r.peers), r.auto)
    [] M.dead -> M
    [] r.e = "open" -> MonOpen(M, r.p, r.r)
    [] r.e = "close" -> MonClose(M, r.p, r.r)
    [] r.e = "val" -> MonVal(M, r.p, r.v, r.r)
    [] r.e = "send" -> MonSend(M, r.p, r.m, r.r, r.sz = "over")
    [] r.e = "ev" -> MonEvent(M, r.p, r.k)
    [] r.e = "conn" -> MonEnv(M, r.p, r.k)
    [] r.e = "panic" -> MonPanic(M)
    [] r.e = "quiesce" -> MonQuiesce(M, r.stable)
    [] OTHER -> M

TNext ==
  /\ l <= Len(Rec)
  /\ l' = l + 1
  /\ LET m == Apply(mon, Rec[l]) IN
       /\ mon' = Forgive(m)
       /\ (m.bad # "" => PrintT(<<"BAD", l, m.bad>>))

TSpec == TInit /\ [][TNext]_tvars

Accepted ==
  LET d == TLCGet("stats").diameter IN
  IF d - 1 = Len(Rec) THEN PrintT(<<"TRACE_OK", Len(Rec)>>)
  ELSE PrintT(<<"TRACE_REJECTED_AT", d>>) /\ FALSE
=============================================================================
