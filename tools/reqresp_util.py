"""Scenario construction and trace analysis for C13 (ReqResp.tla, ReqRespMC.tla, ReqRespTrace.tla,
harness bin reqresp)."""
import json
import random

HDR = 19          # smallest request payload that can carry its nonce and the responder's script
SILENCE = "silence: a request never got a terminal event"


def L(a, b, via="direct", **kw):
    return dict({"from": a, "to": b, "via": via}, **kw)


def R(k, to=2, size=64, dial=True, pol="answer", rsize=32, **kw):
    return dict(k=k, to=to, size=size, dial=dial, pol=pol, rsize=rsize, **kw)


def base(sid, seed, **kw):
    d = dict(id=sid, seed=seed, src="shape", timeout_ms=400, conn_ms=1000, sub_ms=1000, max_size=1024, perturb=0,
             nodes=[{}, {}], links=[L(1, 2), L(2, 1)], steps=[], epilogue="", linger_ms=150)
    d.update(kw)
    return d


# ----------------------------------------------------------------------------- fixed shapes

def shape_scenarios(seed):
    """Deterministic list of small dialogues every run executes (each also under schedule perturbation)."""
    out = []

    def add(name, **kw):
        for pert in (0, 2):
            out.append(base(0, seed + len(out), src="shape:" + name, perturb=pert, **kw))

    con = {"a": "connect", "from": 1, "to": 2}
    # one request, every responder behaviour, connected and dial-on-demand
    for pol in ("answer", "reject", "stall", "kill"):
        add("connected-" + pol, steps=[con, {"a": "burst", "t": 40, "o": 1, "reqs": [R(1, dial=False, pol=pol)]}])
        add("dial-" + pol, steps=[{"a": "burst", "o": 1, "reqs": [R(1, pol=pol)]}])
    # bursts to a connected peer
    for k in (2, 5):
        add("connected-burst%d" % k, epilogue="kill",
            steps=[con, {"a": "burst", "t": 40, "o": 1, "reqs": [R(i + 1, dial=False) for i in range(k)]}])
    # bursts to a peer that has to be dialed first (two requests while the peer is still being dialed)
    for k in (2, 5):
        add("dial-burst%d" % k, steps=[{"a": "burst", "o": 1, "reqs": [R(i + 1) for i in range(k)]}])
    add("dial-then-second-request-later", steps=[{"a": "burst", "o": 1, "reqs": [R(1)]}, {"a": "burst", "t": 1, "o": 1, "reqs": [R(2)]}])
    add("dial-two-peers", nodes=[{}, {}, {}], links=[L(1, 2), L(1, 3)],
        steps=[{"a": "burst", "o": 1, "reqs": [R(1, to=2), R(2, to=3)]}])
    # payload sizes 0, 1, max, max+1 in both directions
    add("sizes-request", epilogue="kill",
        steps=[con, {"a": "burst", "t": 40, "o": 1, "reqs": [R(1, size=0, dial=False), R(2, size=1, dial=False),
                                                         R(3, size=1024, dial=False), R(4, size=1025, dial=False)]}])
    add("sizes-response", steps=[con, {"a": "burst", "t": 40, "o": 1, "reqs": [
        R(1, rsize=0, dial=False), R(2, rsize=1, dial=False), R(3, rsize=1024, dial=False), R(4, rsize=1025, dial=False)]}])
    add("sizes-big", max_size=150000, timeout_ms=1000, steps=[con, {"a": "burst", "t": 40, "o": 1, "reqs": [
        R(1, size=150000, rsize=150000, dial=False), R(2, size=150001, dial=False), R(3, size=70000, rsize=150001, dial=False)]}])
    # peers that cannot be reached
    add("closed-port", links=[L(1, 2, "closed")], steps=[{"a": "burst", "o": 1, "reqs": [R(1)]}])
    add("blackhole", links=[L(1, 2, "blackhole")], steps=[{"a": "burst", "o": 1, "reqs": [R(1)]}])
    add("no-address", links=[], steps=[{"a": "burst", "o": 1, "reqs": [R(1), R(2, dial=False)]}])
    # the dial fails at once (no known address), the request is told so - and then the peer becomes reachable or
    # a dial to it fails by another route: nothing more may happen to the failed request
    add("no-address-then-peer-dials-us", links=[L(2, 1)], epilogue="kill",
        steps=[{"a": "burst", "o": 1, "reqs": [R(1), R(2, pol="stall")]}, {"a": "connect", "t": 50, "from": 2, "to": 1},
               {"a": "burst", "t": 100, "o": 1, "reqs": [R(3, dial=False)]}])
    add("no-address-then-application-dials", links=[L(1, 2, late=True), L(2, 1)], epilogue="kill",
        steps=[{"a": "burst", "o": 1, "reqs": [R(1), R(2, rdelay=100)]}, {"a": "connect", "t": 50, "from": 1, "to": 2},
               {"a": "burst", "t": 100, "o": 1, "reqs": [R(3)]}])
    add("no-address-then-dial-failure", links=[L(1, 2, "closed", late=True)],
        steps=[{"a": "burst", "o": 1, "reqs": [R(1), R(2)]}, {"a": "dial", "t": 50, "from": 1, "to": 2}, {"a": "sleep", "t": 600}])
    add("no-address-then-blackholed-dial-then-request", links=[L(1, 2, "blackhole", late=True)],
        steps=[{"a": "burst", "o": 1, "reqs": [R(1)]}, {"a": "dial", "t": 20, "from": 1, "to": 2},
               {"a": "burst", "t": 100, "o": 1, "reqs": [R(2)]}])
    # requests issued while the application's own dial is being concluded: some meet "already connected" at the
    # manager before the protocol has processed ConnectionEstablished
    for gap in (0, 1, 3):
        add("requests-racing-connection-establishment-%d" % gap, epilogue="kill",
            steps=[{"a": "dial", "from": 1, "to": 2}] +
                  [{"a": "burst", "t": gap if i else 2, "o": 1, "reqs": [R(i + 1, rdelay=20 if i % 2 else 0)]} for i in range(8)])
    add("ghost-and-self", nodes=[{}, {}, {"kind": "ghost"}], links=[L(1, 2), L(1, 3, "closed")],
        steps=[{"a": "burst", "o": 1, "reqs": [R(1, to=3), R(2, to=1), R(3, to=2, dial=False)]}])
    # connection limit reached: the manager refuses the dial the transport handle accepted
    add("limit-refused-dial", nodes=[{"max_out": 1}, {}, {}], links=[L(1, 2), L(1, 3)],
        steps=[con, {"a": "burst", "t": 40, "o": 1, "reqs": [R(1, to=3)]}])
    add("limit-two-dials-one-slot", nodes=[{"max_out": 1}, {}, {}], links=[L(1, 2), L(1, 3)],
        steps=[{"a": "burst", "o": 1, "reqs": [R(1, to=2), R(2, to=3)]}])
    add("limit-zero", nodes=[{"max_out": 0}, {}, {}], links=[L(1, 2), L(1, 3)],
        steps=[{"a": "burst", "o": 1, "reqs": [R(1, to=3), R(2, to=2)]}])
    add("responder-refuses-connection", nodes=[{}, {"max_in": 0}], steps=[{"a": "burst", "o": 1, "reqs": [R(1)]}])
    # both sides request at once while not connected (simultaneous dial)
    add("simultaneous", steps=[{"a": "burst", "o": 1, "reqs": [R(1, to=2)]}, {"a": "burst", "o": 2, "reqs": [R(2, to=1)]}])
    # cancellations at different moments
    for d in (0, 2, 30, 200):
        add("cancel-after-%d" % d, epilogue="kill", steps=[con, {"a": "burst", "t": 40, "o": 1, "reqs": [
            R(1, dial=False, pol="stall"), R(2, dial=False, rdelay=25)]}, {"a": "cancel", "o": 1, "k": 1, "t": d},
            {"a": "cancel", "o": 1, "k": 2, "t": 0}])
    add("cancel-while-dialing", steps=[{"a": "burst", "o": 1, "reqs": [R(1)]}, {"a": "cancel", "o": 1, "k": 1}])
    # bound on concurrent inbound requests
    add("bound-1-of-5", nodes=[{}, {"maxc": 1}], epilogue="kill",
        steps=[con, {"a": "burst", "t": 40, "o": 1, "reqs": [R(i + 1, dial=False, rdelay=60) for i in range(5)]}])
    add("bound-2-stalled", nodes=[{}, {"maxc": 2}],
        steps=[con, {"a": "burst", "t": 40, "o": 1, "reqs": [R(1, dial=False, pol="stall"), R(2, dial=False, pol="stall"),
                                                         R(3, dial=False), R(4, dial=False, pol="reject")]},
               {"a": "burst", "t": 1000, "o": 1, "reqs": [R(5, dial=False)]}])
    # the bound is global: several requesters at once against one responder with a small bound whose
    # user sits on its answers (node 4 responds, nodes 1-3 request)
    for n in (1, 2):
        for pol in ("stall", "slow"):
            rq = lambda k, **kw: (R(k, to=4, dial=False, pol="stall", **kw) if pol == "stall"
                                  else R(k, to=4, dial=False, rdelay=250, **kw))
            add("bound-%d-three-requesters-%s" % (n, pol), nodes=[{}, {}, {}, {"maxc": n}], timeout_ms=600,
                links=[L(1, 4), L(2, 4), L(3, 4)], epilogue="kill",
                steps=[{"a": "connect", "from": 1, "to": 4}, {"a": "connect", "from": 2, "to": 4}, {"a": "connect", "from": 3, "to": 4},
                       {"a": "burst", "t": 40, "o": 1, "reqs": [rq(1), rq(2), rq(3)]},
                       {"a": "burst", "o": 2, "reqs": [rq(4), rq(5), rq(6)]},
                       {"a": "burst", "o": 3, "reqs": [rq(7), rq(8), rq(9)]}])
        # requester 1's payloads are held back by the proxy after its substreams were opened, requester 2
        # fills the responder's slots meanwhile, then the held payloads arrive
        for off in (120, 300, 700, 1500, 3000):
            add("bound-%d-payload-delayed-%d" % (n, off), nodes=[{}, {}, {"maxc": n}], timeout_ms=1000, max_size=4096,
                links=[L(1, 3, "proxy"), L(2, 3)],
                steps=[{"a": "connect", "from": 1, "to": 3}, {"a": "connect", "from": 2, "to": 3},
                       {"a": "freeze", "t": 40, "from": 1, "to": 3, "dir": "up", "after": off},
                       {"a": "burst", "o": 1, "reqs": [R(i + 1, to=3, size=4000, dial=False, pol="stall") for i in range(n)]},
                       {"a": "burst", "t": 120, "o": 2, "reqs": [R(10 + i, to=3, dial=False, pol="stall") for i in range(n)]},
                       {"a": "thaw", "t": 120, "from": 1, "to": 3}])
    # the proxy cuts the connection at byte offsets during the request / during the response
    for off in (1, 20, 60, 300):
        add("cut-request-%d" % off, links=[L(1, 2, "proxy")],
            steps=[con, {"a": "cut", "t": 40, "from": 1, "to": 2, "dir": "up", "after": off},
                   {"a": "burst", "o": 1, "reqs": [R(1, size=400, dial=False), R(2, size=400, dial=False)]}])
        add("cut-response-%d" % off, links=[L(1, 2, "proxy")],
            steps=[con, {"a": "burst", "t": 40, "o": 1, "reqs": [R(1, dial=False, pol="cut", cut_after=off, rsize=400),
                                                             R(2, dial=False, rsize=400, rdelay=5)]}])
    for off in (10, 100, 400, 900):
        add("cut-handshake-%d" % off, links=[L(1, 2, "proxy", cut0_dir="down", cut0_after=off)],
            steps=[{"a": "burst", "o": 1, "reqs": [R(1)]}])
    add("cutnow-on-request", links=[L(1, 2, "proxy")], steps=[{"a": "burst", "o": 1, "reqs": [R(1, pol="cutnow"), ]},
                                                              {"a": "burst", "t": 300, "o": 1, "reqs": [R(2)]}])
    # substream open failures: the remote does not speak the protocol / the link freezes
    add("unsupported-protocol", nodes=[{}, {"proto": "other"}], steps=[{"a": "burst", "o": 1, "reqs": [R(1), R(2, dial=False)]},
                                                                       {"a": "burst", "t": 300, "o": 1, "reqs": [R(3), R(4, dial=False)]}])
    add("substream-open-timeout", links=[L(1, 2, "proxy")],
        steps=[con, {"a": "freeze", "t": 40, "from": 1, "to": 2}, {"a": "burst", "o": 1, "reqs": [R(1, dial=False), R(2)]},
               {"a": "cancel", "t": 100, "o": 1, "k": 2}])
    add("freeze-then-thaw", links=[L(1, 2, "proxy")], timeout_ms=300,
        steps=[con, {"a": "burst", "t": 40, "o": 1, "reqs": [R(1, dial=False, rdelay=100), R(2, dial=False, rdelay=100)]},
               {"a": "freeze", "t": 20, "from": 1, "to": 2}, {"a": "thaw", "t": 900, "from": 1, "to": 2},
               {"a": "burst", "t": 50, "o": 1, "reqs": [R(3)]}])
    # the remote accepts the connection and its streams but its litep2p tasks are not scheduled any more
    # (works on every transport): substream-open timeout, silence during the response, recovery
    add("frozen-node-substream-open-timeout",
        steps=[con, {"a": "freeze_node", "t": 40, "o": 2}, {"a": "burst", "t": 10, "o": 1, "reqs": [R(1, dial=False), R(2)]},
               {"a": "cancel", "t": 100, "o": 1, "k": 2}, {"a": "sleep", "t": 1400}])
    add("frozen-node-then-thawed", timeout_ms=300,
        steps=[con, {"a": "burst", "t": 40, "o": 1, "reqs": [R(1, dial=False, rdelay=150), R(2, dial=False, rdelay=150)]},
               {"a": "freeze_node", "t": 30, "o": 2}, {"a": "thaw_node", "t": 1500, "o": 2},
               {"a": "burst", "t": 100, "o": 1, "reqs": [R(3)]}])
    # the open must be concluded by the substream-open timeout itself: the connection outlives it (long
    # keep-alive, remote scheduled again afterwards), so no ConnectionClosed can stand in for the missing outcome
    # (QUIC drops a connection that is idle for connection_open_timeout, hence the long one; every request goes
    # to a connected peer, so one request is bounded by substream-open timeout + 2 x request timeout; the verdict
    # falls before the 10 s default idle timeout of the QUIC listener side ends the connection)
    add("frozen-node-open-timeout-connection-survives", keep_alive_ms=60000, conn_ms=20000, bound_ms=2000,
        steps=[con, {"a": "freeze_node", "t": 40, "o": 2}, {"a": "burst", "t": 10, "o": 1, "reqs": [R(1, dial=False), R(2)]},
               {"a": "thaw_node", "t": 1600, "o": 2}, {"a": "burst", "t": 200, "o": 1, "reqs": [R(3, dial=False)]}])
    add("frozen-node-dial", steps=[{"a": "freeze_node", "o": 2}, {"a": "burst", "t": 10, "o": 1, "reqs": [R(1), R(2)]},
                                   {"a": "sleep", "t": 2400}])
    add("killed-while-stalling", steps=[con, {"a": "burst", "t": 40, "o": 1, "reqs": [R(1, dial=False, pol="stall"), R(2, dial=False, rdelay=300)]},
                                        {"a": "kill", "t": 100, "o": 2}])
    add("killed-while-dialing", steps=[{"a": "burst", "o": 1, "reqs": [R(1), R(2)]}, {"a": "kill", "t": 1, "o": 2}])
    # another peer's connection closes while a request's substream is still being opened (node 1 requests, node 2 is
    # the peer whose connection closes, node 3 the healthy peer whose substream negotiation is held up)
    three = dict(nodes=[{}, {}, {}], links=[L(1, 2), L(1, 3)], sub_ms=3000, keep_alive_ms=60000, timeout_ms=600)
    c12, c13_ = {"a": "connect", "from": 1, "to": 2}, {"a": "connect", "from": 1, "to": 3}
    for hold in (150, 400):
        # the healthy peer is frozen (no task of it is scheduled), the other peer is dropped, the healthy one is released
        add("other-peer-closes-while-opening-kill-%d" % hold, epilogue="kill", **three,
            steps=[c12, c13_, {"a": "freeze_node", "t": 40, "o": 3},
                   {"a": "burst", "t": 10, "o": 1, "reqs": [R(1, to=3, dial=False), R(2, to=3)]},
                   {"a": "kill", "t": hold // 3, "o": 2}, {"a": "thaw_node", "t": hold, "o": 3},
                   {"a": "burst", "t": 300, "o": 1, "reqs": [R(3, to=3, dial=False)]}])
        # ... the other peer's keep-alive expires instead (its side closes the idle connection)
        add("other-peer-closes-while-opening-keepalive-%d" % hold, epilogue="kill",
            **dict(three, nodes=[{}, {"keep_alive_ms": 250}, {}]),
            steps=[c13_, c12, {"a": "freeze_node", "t": 100, "o": 3},
                   {"a": "burst", "t": 10, "o": 1, "reqs": [R(1, to=3, dial=False), R(2, to=3)]},
                   {"a": "thaw_node", "t": 300 + hold, "o": 3},
                   {"a": "burst", "t": 300, "o": 1, "reqs": [R(3, to=3, dial=False)]}])
        # ... the bytes towards the healthy peer are held by the proxy in front of it (tcp / ws)
        add("other-peer-closes-while-opening-proxy-%d" % hold, epilogue="kill", **dict(three, links=[L(1, 2), L(1, 3, "proxy")]),
            steps=[c12, c13_, {"a": "freeze", "t": 40, "from": 1, "to": 3},
                   {"a": "burst", "t": 10, "o": 1, "reqs": [R(1, to=3, dial=False), R(2, to=3)]},
                   {"a": "kill", "t": hold // 3, "o": 2}, {"a": "thaw", "t": hold, "from": 1, "to": 3},
                   {"a": "burst", "t": 300, "o": 1, "reqs": [R(3, to=3, dial=False)]}])
        # the mirror: the peer closes while a request to that very peer is opening - it fails exactly once, the
        # request to the healthy peer is served
        add("same-peer-closes-while-opening-%d" % hold, epilogue="kill", **three,
            steps=[c12, c13_, {"a": "freeze_node", "t": 40, "o": 2},
                   {"a": "burst", "t": 10, "o": 1, "reqs": [R(1, to=2, dial=False), R(2, to=3, dial=False, rdelay=hold), R(3, to=2)]},
                   {"a": "kill", "t": hold // 2, "o": 2}, {"a": "burst", "t": hold, "o": 1, "reqs": [R(4, to=3, dial=False)]}])
    # the requester's protocol loop is held while BOTH a request to the healthy peer 3 completes (with a failure
    # or with its response) and the connection of peer 2 closes; when it runs again both are ready in one poll and
    # the close is handled first.  Every request to peer 3 still gets exactly one terminal event, peer 3 stays connected.
    hold3 = dict(nodes=[{}, {}, {}], links=[L(1, 2), L(1, 3)], keep_alive_ms=60000, timeout_ms=1500)
    cases = {
        "reject": [R(1, to=3, dial=False, pol="reject", rdelay=120)],
        "oversize-answer": [R(1, to=3, dial=False, rsize=1025, rdelay=120)],
        "response": [R(1, to=3, dial=False, rdelay=120)],
        "several": [R(1, to=3, dial=False, pol="reject", rdelay=100), R(2, to=3, dial=False, rdelay=120),
                    R(3, to=3, dial=False, rsize=1025, rdelay=140), R(4, to=2, dial=False, pol="stall")],
    }
    for name, reqs in cases.items():
        add("other-peer-closes-while-failure-ready-%s" % name, epilogue="kill", **hold3,
            steps=[c12, c13_, {"a": "burst", "t": 40, "o": 1, "reqs": reqs}, {"a": "freeze_proto", "t": 60, "o": 1},
                   {"a": "kill", "t": 120, "o": 2}, {"a": "thaw_proto", "t": 200, "o": 1},
                   {"a": "burst", "t": 200, "o": 1, "reqs": [R(9, to=3, dial=False)]}])
    add("other-peer-closes-while-failure-ready-timeout", epilogue="kill", **dict(hold3, timeout_ms=250),
        steps=[c12, c13_, {"a": "burst", "t": 40, "o": 1, "reqs": [R(1, to=3, dial=False, pol="stall"), R(2, to=3, dial=False, pol="stall")]},
               {"a": "freeze_proto", "t": 60, "o": 1}, {"a": "kill", "t": 200, "o": 2}, {"a": "thaw_proto", "t": 300, "o": 1},
               {"a": "burst", "t": 200, "o": 1, "reqs": [R(9, to=3, dial=False)]}])
    # the other peer's link is cut by the proxy instead of the node being dropped (tcp / ws)
    add("other-peer-closes-while-failure-ready-cut", epilogue="kill", **dict(hold3, links=[L(1, 2, "proxy"), L(1, 3)]),
        steps=[c12, c13_, {"a": "burst", "t": 40, "o": 1, "reqs": [R(1, to=3, dial=False, pol="reject", rdelay=120), R(2, to=3, dial=False, rdelay=120)]},
               {"a": "freeze_proto", "t": 60, "o": 1}, {"a": "cut", "t": 120, "from": 1, "to": 2, "dir": "up", "after": 0},
               {"a": "thaw_proto", "t": 200, "o": 1}, {"a": "burst", "t": 200, "o": 1, "reqs": [R(9, to=3, dial=False)]}])
    # the failing request's own link is cut (tcp / ws): both connections close while the loop is held
    add("both-peers-close-while-held", epilogue="kill", **dict(hold3, links=[L(1, 2), L(1, 3, "proxy")]),
        steps=[c12, c13_, {"a": "burst", "t": 40, "o": 1, "reqs": [R(1, to=3, dial=False, rdelay=300), R(2, to=2, dial=False, pol="stall")]},
               {"a": "freeze_proto", "t": 60, "o": 1}, {"a": "cut", "t": 80, "from": 1, "to": 3, "dir": "up", "after": 0},
               {"a": "kill", "t": 40, "o": 2}, {"a": "thaw_proto", "t": 200, "o": 1}])
    # a Dial request issued in the window in which the protocol has already processed ConnectionClosed while the
    # manager (the application loop, held here) still says "connected": the dial is refused with AlreadyConnected, no
    # dial is started and nothing will ever report on it - the request has to fail at once.  No reconnect follows.
    for hold in (100, 300, 700):
        add("dial-request-in-close-window-kill-%d" % hold, keep_alive_ms=60000,
            steps=[con, {"a": "freeze_mgr", "t": 40, "o": 1}, {"a": "kill", "t": 10, "o": 2},
                   {"a": "burst", "t": hold, "o": 1, "reqs": [R(1), R(2, dial=False), R(3)]},
                   {"a": "thaw_mgr", "t": 100, "o": 1}, {"a": "sleep", "t": 200}])
        add("dial-request-in-close-window-keepalive-%d" % hold, keep_alive_ms=60000, nodes=[{}, {"keep_alive_ms": 200}],
            steps=[con, {"a": "freeze_mgr", "t": 40, "o": 1},
                   {"a": "burst", "t": 350 + hold, "o": 1, "reqs": [R(1), R(2)]},
                   {"a": "thaw_mgr", "t": 100, "o": 1}, {"a": "sleep", "t": 200}])
    # where the exchange stalls: the substream is open, the request is larger than what the yamux window (256 KiB)
    # lets in flight, and the proxy holds the bytes towards the responder after N bytes while the connection stays
    # up (tcp / ws): the write phase cannot complete and has to end in a timeout
    for off in (2000, 100000, 400000):
        add("request-write-stalls-after-%d" % off, links=[L(1, 2, "proxy"), L(2, 1)], max_size=2200000, timeout_ms=500, keep_alive_ms=60000,
            steps=[con, {"a": "freeze", "t": 40, "from": 1, "to": 2, "dir": "up", "after": off},
                   {"a": "burst", "t": 5, "o": 1, "reqs": [R(1, dial=False, size=1500000), R(2, dial=False, size=2000000)]},
                   {"a": "sleep", "t": 300}])
    add("request-write-stalls-cancel", links=[L(1, 2, "proxy"), L(2, 1)], max_size=2200000, timeout_ms=500, keep_alive_ms=60000,
        steps=[con, {"a": "freeze", "t": 40, "from": 1, "to": 2, "dir": "up", "after": 50000},
               {"a": "burst", "t": 5, "o": 1, "reqs": [R(1, dial=False, size=1500000), R(2, dial=False, size=1500000)]},
               {"a": "cancel", "t": 150, "o": 1, "k": 1}, {"a": "sleep", "t": 300}])
    add("request-write-stalls-then-thaw", links=[L(1, 2, "proxy"), L(2, 1)], max_size=2200000, timeout_ms=800, keep_alive_ms=60000,
        steps=[con, {"a": "freeze", "t": 40, "from": 1, "to": 2, "dir": "up", "after": 100000},
               {"a": "burst", "t": 5, "o": 1, "reqs": [R(1, dial=False, size=1500000, rsize=1000000)]},
               {"a": "thaw", "t": 250, "from": 1, "to": 2}])
    # short keep-alive: the connection is closed under the protocol's feet, later requests redial
    add("keepalive-redial", keep_alive_ms=200,
        steps=[{"a": "burst", "o": 1, "reqs": [R(1)]}, {"a": "burst", "t": 700, "o": 1, "reqs": [R(2)]},
               {"a": "burst", "t": 190, "o": 1, "reqs": [R(3, dial=False)]}])
    for i, s in enumerate(out):
        s["id"] = 100000 + i
    return out


# ----------------------------------------------------------------------------- seeded random scripts

def flood_scenarios(seed, n=4200):
    """More failing requests than the handle's event channel holds (4096) while the user does not poll it: the
    protocol has to wait for room, every request still gets its terminal event (seeded C13h: try_send drops them).
    One flood fails at the handle->protocol step (peer not connected, DialOptions::Reject), the other waits behind
    one dial that fails (all queued requests are failed in one loop)."""
    return [base(900001, seed + 1, src="shape:flood-reject-unconnected", links=[],
                 steps=[{"a": "burst", "o": 1, "reqs": [R(i + 1, dial=False) for i in range(n)]}]),
            base(900002, seed + 2, src="shape:flood-behind-blackholed-dial", links=[L(1, 2, "blackhole")],
                 steps=[{"a": "burst", "o": 1, "reqs": [R(i + 1) for i in range(n)]}])]


def random_bound_scenario(sid, rnd, tr="tcp"):
    """several requesters against one responder with a small bound whose user sits on its answers"""
    nreq = rnd.choice([2, 3, 3])
    bound = rnd.choice([1, 1, 2])
    resp = nreq + 1
    timeout = rnd.choice([600, 800, 1000])
    nodes = [{} for _ in range(nreq)] + [{"maxc": bound}]
    delayed = rnd.random() < 0.5 and tr != "quic"
    links = [L(i, resp, "proxy" if (delayed and i == 1) or (rnd.random() < 0.2 and tr != "quic") else "direct") for i in range(1, nreq + 1)]
    steps = [{"a": "connect", "from": i, "to": resp} for i in range(1, nreq + 1)]
    order = list(range(1, nreq + 1))
    if not delayed:
        rnd.shuffle(order)
    k = 0
    first = True
    for o in order:
        if delayed and o == 1:
            steps.append({"a": "freeze", "t": 40, "from": 1, "to": resp, "dir": "up", "after": rnd.choice([100, 200, 400, 900, 2000, 3500])})
        reqs = []
        for _ in range(rnd.choice([1, 2, 3])):
            k += 1
            pol = rnd.choice(["stall", "stall", "slow", "reject-slow"])
            r = R(k, to=resp, dial=False, size=4000 if (delayed and o == 1) else rnd.choice([HDR, 64, 900]),
                  pol={"stall": "stall", "slow": "answer", "reject-slow": "reject"}[pol], rsize=rnd.choice([8, 32, 300]))
            if pol != "stall":
                r["rdelay"] = rnd.choice([150, 250, 400])
            reqs.append(r)
        t = 40 if first and not delayed else (rnd.choice([80, 150]) if delayed and o == 2 else rnd.choice([0, 0, 0, 1, 3]))
        steps.append({"a": "burst", "t": t, "o": o, "reqs": reqs})
        first = False
    if delayed:
        steps.append({"a": "thaw", "t": rnd.choice([80, 150, 250]), "from": 1, "to": resp})
    return dict(id=sid, seed=rnd.randrange(1 << 30), src="rand-bound", transport=tr, timeout_ms=timeout, conn_ms=1000, sub_ms=1000, max_size=4096,
                perturb=rnd.choice([0, 1, 2, 3]), nodes=nodes, links=links, steps=steps,
                epilogue=rnd.choice(["", "kill"]), linger_ms=150)


def random_other_peer_scenario(sid, rnd, tr="tcp"):
    """requests whose substreams are being opened towards a held-up peer while connections of other peers close"""
    n = rnd.choice([3, 3, 4])
    held = rnd.randrange(2, n + 1)
    hold = rnd.choice([100, 200, 350, 500])
    nodes = [{} for _ in range(n)]
    links = [L(1, p) for p in range(2, n + 1)]
    steps = [{"a": "connect", "from": 1, "to": p} for p in range(2, n + 1)]
    hold_proto = rnd.random() < 0.5
    if not hold_proto:
        steps.append({"a": "freeze_node", "t": 40, "o": held})
    k, reqs = 0, []
    for _ in range(rnd.choice([1, 2, 3])):
        k += 1
        r = R(k, to=held, dial=rnd.random() < 0.5, size=rnd.choice([HDR, 64, 600]), rsize=rnd.choice([8, 32, 300]))
        if hold_proto:
            r.update(dial=False, pol=rnd.choice(["reject", "answer", "answer", "stall"]), rdelay=rnd.choice([60, 100, 150]),
                     rsize=rnd.choice([8, 300, 1025]))
        reqs.append(r)
    if rnd.random() < 0.5:
        k += 1
        other = rnd.choice([p for p in range(2, n + 1) if p != held])
        reqs.append(R(k, to=other, dial=False, pol=rnd.choice(["answer", "stall", "kill"]), rdelay=rnd.choice([0, 50, 200])))
    rnd.shuffle(reqs)
    steps.append({"a": "burst", "t": 40 if hold_proto else 10, "o": 1, "reqs": reqs})
    if hold_proto:
        steps.append({"a": "freeze_proto", "t": rnd.choice([30, 60]), "o": 1})
    spent = 0
    for p in range(2, n + 1):
        if p != held and rnd.random() < 0.8:
            t = rnd.choice([0, 10, 40, 100])
            spent += t
            steps.append({"a": "kill", "t": t, "o": p})
    steps.append({"a": "thaw_proto" if hold_proto else "thaw_node", "t": max(hold - spent, 10), "o": 1 if hold_proto else held})
    k += 1
    steps.append({"a": "burst", "t": rnd.choice([50, 300]), "o": 1, "reqs": [R(k, to=held, dial=rnd.random() < 0.5)]})
    return dict(id=sid, seed=rnd.randrange(1 << 30), src="rand-other-peer", transport=tr, timeout_ms=rnd.choice([500, 800]),
                conn_ms=1500, sub_ms=3000, max_size=1024, keep_alive_ms=60000, perturb=rnd.choice([0, 1, 2, 3]),
                nodes=nodes, links=links, steps=steps, epilogue=rnd.choice(["", "kill"]), linger_ms=150)



def random_scenario(sid, rnd, tr="tcp"):
    quic = tr == "quic"
    if rnd.random() < 0.12:
        return random_bound_scenario(sid, rnd, tr)
    if rnd.random() < 0.08:
        return random_other_peer_scenario(sid, rnd, tr)
    timeout = rnd.choice([300, 400, 500, 800, 1000])
    max_size = rnd.choice([256, 1024, 1024, 4096, 70000])
    nresp = rnd.choice([1, 1, 2])
    nodes = [{}]
    for _ in range(nresp):
        nodes.append({"maxc": rnd.choice([None, None, 1, 2])})
    if rnd.random() < 0.12:
        nodes[0]["max_out"] = 1
    if rnd.random() < 0.06:
        nodes[1]["proto"] = "other"
    if rnd.random() < 0.1:
        nodes.append({"kind": "ghost"})
    n = len(nodes)
    real = [i + 1 for i, x in enumerate(nodes) if x.get("kind") != "ghost"]
    links = []
    for p in range(2, n + 1):
        if nodes[p - 1].get("kind") == "ghost":
            links.append(L(1, p, "closed"))
            continue
        via = rnd.choice(["direct", "direct", "proxy", "proxy", "proxy", "closed", "blackhole"])
        if quic and via == "proxy":
            via = "direct"
        lk = L(1, p, via)
        if rnd.random() < 0.12:
            lk["late"] = True
        if via == "proxy" and rnd.random() < 0.15:
            lk["cut0_dir"] = rnd.choice(["up", "down"])
            lk["cut0_after"] = rnd.choice([1, 30, 100, 250, 500, 1000, 1500])
        links.append(lk)
        links.append(L(p, 1, "direct" if quic else rnd.choice(["direct", "proxy"])))
    steps = []
    for lk in list(links):
        if lk["from"] == 1 and lk["via"] in ("direct", "proxy") and "cut0_dir" not in lk and rnd.random() < 0.5:
            if rnd.random() < 0.8:
                steps.append({"a": "connect", "from": 1, "to": lk["to"]})
            else:
                steps.append({"a": "connect", "from": lk["to"], "to": 1})
    gap = lambda: rnd.choice([0, 0, 0, 1, 3, 10, 40, 200])
    k = 0
    tiny_used = set()
    issued = []
    targets = list(range(2, n + 1))
    for _ in range(rnd.choice([1, 1, 2, 3])):
        o = 1 if rnd.random() < 0.85 or len(real) < 2 else rnd.choice(real[1:])
        burst = rnd.choice([1, 2, 2, 5])
        same = rnd.random() < 0.7
        to0 = rnd.choice([t for t in targets + [1] if t != o] or [2])
        reqs = []
        for _ in range(burst):
            if k >= 9:
                break
            k += 1
            to = to0 if same else rnd.choice([t for t in list(range(1, n + 1)) if t != o] or [2])
            size = rnd.choice([0, 1, HDR, 40, 64, 200, max_size, max_size, max_size + 1, rnd.randrange(HDR, max_size + 1)])
            if size < HDR:
                if (o, to, size) in tiny_used:
                    size = 64
                tiny_used.add((o, to, size))
            pol = rnd.choice(["answer"] * 6 + ["reject", "stall", "stall", "kill", "cut", "cut", "cutnow"])
            if quic and pol in ("cut", "cutnow"):
                pol = rnd.choice(["kill", "stall", "reject"])
            r = R(k, to=to, size=size, dial=rnd.random() < 0.7, pol=pol,
                  rsize=rnd.choice([0, 1, 8, 32, 300, max_size, max_size + 1]),
                  rdelay=rnd.choice([0, 0, 0, 0, 5, 20, timeout // 2, int(timeout * 1.6)]))
            if pol == "cut":
                r["cut_after"] = rnd.choice([1, 5, 20, 60, 200, r["rsize"] // 2 + 1])
            if rnd.random() < 0.15:
                r["try"] = True
            reqs.append(r)
            issued.append((o, k))
        # a cut armed just before the burst lands inside the request bytes
        prox = [lk for lk in links if lk["from"] == o and lk["via"] == "proxy"]
        if prox and rnd.random() < 0.15:
            lk = rnd.choice(prox)
            steps.append({"a": "cut", "t": gap(), "from": o, "to": lk["to"], "dir": rnd.choice(["up", "up", "down"]),
                          "after": rnd.choice([0, 1, 10, 40, 100, 300, 1000])})
            steps.append({"a": "burst", "t": 0, "o": o, "reqs": reqs})
        else:
            steps.append({"a": "burst", "t": gap(), "o": o, "reqs": reqs})
        if prox and rnd.random() < 0.12:
            lk = rnd.choice(prox)
            steps.append({"a": "freeze", "t": rnd.choice([0, 0, 2, 20, 100]), "from": o, "to": lk["to"]})
            if rnd.random() < 0.5:
                steps.append({"a": "thaw", "t": rnd.choice([50, 300, timeout + 100, 2 * timeout + 900]), "from": o, "to": lk["to"]})
        for (oo, kk) in issued:
            if rnd.random() < 0.15:
                steps.append({"a": "cancel", "t": rnd.choice([0, 0, 1, 5, 20, 100, timeout // 2, timeout + 50]), "o": oo, "k": kk})
        late = [lk for lk in links if lk.get("late")]
        if late and rnd.random() < 0.7:
            lk = rnd.choice(late)
            if rnd.random() < 0.5 and lk["via"] in ("direct", "proxy"):
                steps.append({"a": "connect", "t": gap(), "from": lk["to"], "to": 1})
            else:
                steps.append({"a": "dial", "t": gap(), "from": 1, "to": lk["to"]})
        if rnd.random() < 0.06 and len(real) > 1:
            steps.append({"a": "freeze_mgr", "t": gap(), "o": 1})
            steps.append({"a": "kill", "t": rnd.choice([0, 10]), "o": rnd.choice(real[1:])})
            k += 1
            steps.append({"a": "burst", "t": rnd.choice([50, 200, 500]), "o": 1,
                          "reqs": [R(k, to=rnd.choice(targets), dial=True)]})
            issued.append((1, k))
            steps.append({"a": "thaw_mgr", "t": rnd.choice([50, 300]), "o": 1})
        if rnd.random() < 0.08 and len(real) > 1:
            steps.append({"a": "kill", "t": gap(), "o": rnd.choice(real[1:])})
        if rnd.random() < 0.08 and len(real) > 1:
            fz = rnd.choice(real[1:])
            steps.append({"a": "freeze_node", "t": gap(), "o": fz})
            if rnd.random() < 0.6:
                steps.append({"a": "thaw_node", "t": rnd.choice([100, timeout + 100, 2 * timeout + 900, 1800]), "o": fz})
    return dict(id=sid, seed=rnd.randrange(1 << 30), src="rand", transport=tr, timeout_ms=timeout, conn_ms=rnd.choice([800, 1500]),
                sub_ms=rnd.choice([800, 1500]), max_size=max_size, keep_alive_ms=rnd.choice([5000, 5000, 60000, 60000, 250]),
                perturb=rnd.choice([0, 1, 2, 2, 3]), nodes=nodes, links=links, steps=steps,
                epilogue=rnd.choice(["", "kill", "kill", "cut"]), linger_ms=rnd.choice([150, 150, 300, 2 * timeout + 200]))


def random_scenarios(seed, n, first_id=200000, tr="tcp"):
    rnd = random.Random(seed * 7 + {"tcp": 0, "ws": 1, "quic": 2}[tr])
    return [random_scenario(first_id + i, rnd, tr) for i in range(n)]


# ----------------------------------------------------------------------------- transports

TR_OFFSET = {"tcp": 0, "ws": 1000000, "quic": 2000000}


def needs_proxy(sc):
    """does the script depend on the byte proxy (cut / freeze at byte offsets)?"""
    if any(st["a"] in ("cut", "freeze", "thaw") for st in sc["steps"]):
        return True
    if any("cut0_dir" in l for l in sc["links"]):
        return True
    return any(q.get("pol") in ("cut", "cutnow") for st in sc["steps"] for q in st.get("reqs", []))


def on_transport(scs, tr):
    """The same scripts on another transport.  ws is TCP underneath, the byte proxy keeps working.  QUIC runs
    over UDP: scripts that need the proxy are not run there (returned by name), proxied links become direct."""
    out, skipped = [], []
    for sc in scs:
        if tr == "quic" and needs_proxy(sc):
            skipped.append(sc["src"])
            continue
        c = json.loads(json.dumps(sc))
        c["transport"] = tr
        c["id"] = sc["id"] + TR_OFFSET[tr]
        out.append(c)
    return out, sorted(set(skipped))


# ----------------------------------------------------------------------------- TLC behaviours -> scripts

def from_hist(h, rnd, sid, tr="tcp"):
    """Turn the stimulus history of one behaviour of ReqRespMC (user commands, responder behaviours,
    connection faults) into a script for real nodes.  Only the order of user-level steps can be
    imposed on a real network; the responder behaviours travel inside the requests."""
    peers = sorted({x["p"] for x in h if "p" in x})
    if not peers:
        return None
    pol, first = {}, {}
    for x in h:
        a = x["a"]
        if a in ("answer", "reject", "timeout") and x["r"] not in pol:
            pol[x["r"]] = {"answer": "answer", "reject": "reject", "timeout": "stall"}[a]
        if a in ("dialfail", "dialok", "connect") and x["p"] not in first:
            first[x["p"]] = a
    late = {x["r"] for x in h if x["a"] == "answer"} & {r for r, p in pol.items() if p == "stall"}
    nnodes = max(peers + [2])
    nodes = [{}] + [{"maxc": 1} for _ in range(nnodes - 1)]
    links = []
    for p in range(2, nnodes + 1):
        links.append(L(1, p, "closed" if first.get(p) == "dialfail" else ("direct" if tr == "quic" else "proxy")))
        links.append(L(p, 1, "direct" if tr == "quic" else "proxy"))
    timeout = rnd.choice([300, 400, 600])
    steps = []
    for hi, x in enumerate(h):
        a = x["a"]
        if a == "issue":
            r = x["r"]
            req = R(r + 1, to=x["p"], size=rnd.choice([HDR, 64, 300]), dial=(x["d"] == "dial"), pol=pol.get(r, "answer"),
                    rsize=rnd.choice([8, 32, 200]))
            if r in late:
                req["pol"], req["rdelay"] = "answer", int(timeout * 2.6)
            if steps and steps[-1]["a"] == "burst" and steps[-1]["o"] == 1:
                steps[-1]["reqs"].append(req)
            else:
                steps.append({"a": "burst", "t": rnd.choice([0, 0, 0, 2, 20]), "o": 1, "reqs": [req]})
        elif a == "cancel":
            steps.append({"a": "cancel", "t": rnd.choice([0, 0, 2, 20, 150]), "o": 1, "k": x["r"] + 1})
        elif a == "connect":
            p = x["p"]
            if first.get(p) == "dialfail" or rnd.random() < 0.3:
                steps.append({"a": "connect", "from": p, "to": 1})
            else:
                steps.append({"a": "connect", "from": 1, "to": p})
        elif a == "close":
            p = x["p"]
            t = rnd.choice([0, 2, 20, 100])
            if tr == "quic":
                # no proxy under QUIC: the connection is lost by dropping the remote node, which only fits
                # when the behaviour does not use that peer afterwards
                later = h[hi + 1:]
                if not any(y.get("p") == p and y["a"] in ("issue", "connect", "dialok") for y in later):
                    steps.append({"a": "kill", "t": t, "o": p})
                continue
            steps.append({"a": "cut", "t": t, "from": 1, "to": p, "dir": "up", "after": 0})
            steps.append({"a": "cut", "t": 0, "from": p, "to": 1, "dir": "up", "after": 0})
    if not any(s["a"] == "burst" for s in steps):
        return None
    return dict(id=sid, seed=rnd.randrange(1 << 30), src="tlc", transport=tr, timeout_ms=timeout, conn_ms=1000, sub_ms=1000, max_size=1024,
                perturb=rnd.choice([0, 1, 2, 3]), nodes=nodes, links=links, steps=steps,
                epilogue=rnd.choice(["", "kill"]), linger_ms=150)


def tlc_scenarios(behs, seed, limit, first_id=300000, tr="tcp"):
    rnd = random.Random(seed * 7 + {"tcp": 0, "ws": 1, "quic": 2}[tr])
    seen, out = set(), []
    order = list(range(len(behs)))
    rnd.shuffle(order)
    for i in order:
        sc = from_hist(behs[i]["h"], rnd, first_id + len(out), tr)
        if sc is None:
            continue
        key = json.dumps([[(s["a"], s.get("o"), s.get("from"), s.get("to"), s.get("k"),
                            [(q["k"], q["to"], q["dial"], q["pol"], q.get("rdelay", 0) > 0) for q in s.get("reqs", [])])
                           for s in sc["steps"]], [l["via"] for l in sc["links"]]])
        if key in seen:
            continue
        seen.add(key)
        out.append(sc)
        if len(out) >= limit:
            break
    return out, len(seen)


# ----------------------------------------------------------------------------- analysis of rejected segments

def ledger(seg, upto):
    """Replay the monitor's ledger in Python over seg[1:upto] (for naming the root cause of a silence)."""
    req, rid, dead = {}, {}, set()
    conn, panics = [], []
    for i, ln in enumerate(seg[1:upto], 2):
        e = json.loads(ln)
        k = e.get("e")
        o = e.get("o")
        if k == "kill":
            dead.add(o)
            for r in req.values():
                if r["o"] == o and r["st"] in ("pre", "open"):
                    r["st"] = "void"
            continue
        if k == "panic":
            panics.append(e)
            continue
        if k == "conn":
            conn.append((i, e))
            continue
        if o in dead:
            continue
        if k == "issue":
            req[e["n"]] = dict(n=e["n"], o=o, to=e["to"], dial=e["dial"], pol=e.get("pol", ""), size=e["size"], line=i,
                               st="pre", canc=False, seen=False, rid=-1)
        elif k == "issued" and e["n"] in req:
            if e["ok"]:
                req[e["n"]].update(st="open", rid=e["rid"], issued_line=i)
                rid[(o, e["rid"])] = e["n"]
            else:
                req[e["n"]]["st"] = "void"
        elif k == "cancel" and (o, e["rid"]) in rid:
            req[rid[(o, e["rid"])]]["canc"] = True
        elif k in ("resp", "fail") and (o, e["rid"]) in rid:
            r = req[rid[(o, e["rid"])]]
            if r["st"] == "open":
                r["st"] = k
        elif k == "recv" and e.get("n", -1) in req:
            req[e["n"]]["seen"] = True
        elif k == "quiesce":
            for r in req.values():
                if r["st"] == "open" and not r["canc"]:
                    r["st"] = "reported"
    return req, conn, panics


def classify(seg, idx, reason):
    """Stable signature(s) for a rejected execution."""
    if reason != SILENCE:
        return [reason.replace(" ", "-").replace(":", "")]
    req, conn, panics = ledger(seg, idx - 1)
    hdr = json.loads(seg[0])
    sigs = set()
    for r in req.values():
        if r["st"] != "open" or r["canc"]:
            continue
        later = [q for q in req.values() if q["o"] == r["o"] and q["to"] == r["to"] and q["dial"] and q["line"] > r["line"]]
        est_between = lambda q: any(r["line"] < i < q["line"] and c["o"] == r["o"] and c["k"] == "est" and c["peer"] == r["to"]
                                    for i, c in conn)
        chain = sorted([q for q in later if not est_between(q)], key=lambda q: q["line"])
        limited = hdr["nodes"][r["o"] - 1].get("max_out", -1) >= 0
        remote_est = any(i > r["line"] and c["o"] == r["to"] and c["k"] == "est" and c["peer"] == r["o"] for i, c in conn)
        local_est = any(i > r["line"] and c["o"] == r["o"] and c["k"] == "est" and c["peer"] == r["to"] for i, c in conn)
        if panics:
            sigs.add("request-lost-after-panic")
        elif r["dial"] and not r["seen"] and limited and remote_est and not local_est:
            # the dialed connection was negotiated (the remote saw it) but the local manager refused it
            # because the outgoing-connection limit had been reached meanwhile; no DialFailure is reported
            # (C05 finding outbound-established-rejected-by-limit), so the request waits forever
            sigs.add("dial-negotiated-then-refused-by-outgoing-limit")
        elif r["dial"] and not r["seen"] and chain and (chain[-1]["st"] != "open" or chain[-1]["canc"] or chain[-1]["seen"]):
            # D9: pending_dials has one slot per peer; a later request issued while the peer was still
            # being dialed replaced this one.  The last request of that window is the one the slot
            # still holds when the dial concludes, so it must have got its outcome (or reached the
            # responder); if it is lost as well something else is going on.
            sigs.add("pending-dial-overwritten-by-later-request")
        else:
            sigs.add("request-lost-%s-%s" % ("dial" if r["dial"] else "nodial", "seen" if r["seen"] else "unseen"))
    return sorted(sigs) or ["silence"]


# ----------------------------------------------------------------------------- late responses (C04 clause at connection level)

C04_RULE = "response reported sent but lost on a link without fault"
LATE_SIG = "response-reported-sent-but-lost-at-idle-close"


def late_response_scenarios(seed, quick=True):
    """Responder with keep-alive T answers a request at 0.5 T / 1.5 T / 3.5 T (before / after its connection handles
    were downgraded for inactivity), with and without feedback, small / 64 KiB / 1 MiB responses, on every transport.
    No fault is injected, the requester waits long enough: the response must arrive."""
    out = []
    for tr in ("tcp", "ws", "quic"):
        for T in (400, 1000):
            for mult in (0.5, 1.5, 3.5):
                for fb in (False, True):
                    for rsize in (32, 65536, 1048576):
                        reps = 1 if quick else 3
                        for rep in range(reps):
                            delay = int(T * mult)
                            sc = dict(id=400000 + len(out), seed=seed * 1000 + len(out), src="late-response", transport=tr,
                                      timeout_ms=4 * T + 1500, conn_ms=6000, sub_ms=2000, max_size=1100000, keep_alive_ms=60000,
                                      perturb=0 if rep == 0 else 2, c04=True,
                                      nodes=[{}, {"keep_alive_ms": T}], links=[L(1, 2), L(2, 1)],
                                      steps=[{"a": "connect", "from": 1, "to": 2},
                                             {"a": "burst", "t": 50, "o": 1,
                                              "reqs": [R(1, dial=False, rsize=rsize, rdelay=delay, fb=fb)]}],
                                      epilogue="", linger_ms=100, late=dict(T=T, mult=mult, fb=fb, rsize=rsize))
                            out.append(sc)
    return out


def late_response_part(ctx, quick=None):
    """Run only the late-response family on real nodes and judge the last clause of C04 lifted to the connection:
    a response whose send was reported complete at the responder (send_response returned / feedback said sent) while
    the requester was still waiting, on a link without injected fault, must be delivered byte-identically.

    Returns (violations, coverage): violations = list of dict(sig, what, replay_obj) ready for vlib.conclude
    (sig = 'response-reported-sent-but-lost-at-idle-close@<transport>' for responses lost after the keep-alive
    downgrade, '<monitor rule>@<transport>' for anything else the ReqResp monitor objects to); coverage = dict with
    measured counts per transport."""
    import vlib
    quick = ctx.quick() if quick is None else quick
    scs = late_response_scenarios(ctx.seed, quick)
    vlib.cargo_build(ctx, ["reqresp"])
    vlib.write_jsonl(ctx.path("late.jsonl"), [{k: v for k, v in s.items() if k != "late"} for s in scs])
    summ, _ = vlib.harness(ctx, "reqresp", ["--scenarios", ctx.path("late.jsonl"), "--out", ctx.path("late.ndjson"),
                                            "--conc", 120, "--workers", 8], timeout=900)
    lines = vlib.read_lines(ctx.path("late.ndjson"))
    by_id = {s["id"]: s for s in scs}
    nseg, nev, rejects = vlib.validate_all(ctx, "ReqRespTrace.tla", "ReqRespTrace.cfg", lines, tag="late")
    cov = {"executions": nseg, "events": nev, "discarded": summ["discarded"], "max_lag_ms": summ["max_lag_ms"], "per_transport": {}}
    outcome = {}
    for seg in vlib.split_segments(lines, lambda ln: '"e":"reset"' in ln):
        hdr = json.loads(seg[0])
        sc = by_id.get(hdr["id"], {})
        evs = [json.loads(x) for x in seg[1:]]
        got = "delivered" if any(e["e"] == "resp" for e in evs) else ("failed" if any(e["e"] == "fail" for e in evs) else "none")
        t = cov["per_transport"].setdefault(hdr["transport"], {"executions": 0, "delivered": 0, "lost": 0, "by_case": {}})
        t["executions"] += 1
        t["delivered"] += got == "delivered"
        t["lost"] += got != "delivered"
        la = sc.get("late", {})
        key = "answer at %.1f T%s" % (la.get("mult", 0), " with feedback" if la.get("fb") else "")
        c = t["by_case"].setdefault(key, [0, 0])
        c[0] += got == "delivered"
        c[1] += 1
        outcome[hdr["id"]] = got
    violations = []
    for r in rejects:
        seg, idx = r
        hdr = json.loads(seg[0])
        sc = by_id.get(hdr["id"], {})
        bad = json.loads(seg[idx - 1])
        if r.reason.startswith("harness:") or r.reason == "unconsumed":
            raise vlib.ToolError("the recorded trace is malformed (%s) at %s" % (r.reason, seg[idx - 1][:300]))
        if r.reason == C04_RULE and bad.get("k") == "Timeout":
            cov["not_judged_requester_timed_out"] = cov.get("not_judged_requester_timed_out", 0) + 1
            continue
        la = sc.get("late", {})
        if r.reason == C04_RULE and la.get("mult", 0) > 1:
            sig = "%s@%s" % (LATE_SIG, hdr["transport"])
        else:
            sig = "%s@%s" % (r.reason.replace(" ", "-").replace(":", ""), hdr["transport"])
        violations.append({"sig": sig,
                           "what": "%s: keep-alive %s ms at the responder, answered after %s ms%s, %s bytes: %s" % (
                               r.reason, la.get("T"), int(la.get("T", 0) * la.get("mult", 0)),
                               " (feedback reported the response as sent)" if la.get("fb") else "", la.get("rsize"), seg[idx - 1][:200]),
                           "replay_obj": {"property": "C04", "reason": r.reason, "signature": sig,
                                          "scenario": {k: v for k, v in sc.items() if k != "late"}, "case": la,
                                          "segment": [json.loads(x) for x in seg[:idx]]}})
    return violations, cov
