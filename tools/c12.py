"""C12 - notifications arrive in order, without loss or duplication, while open."""
import json
import random
from vlib import *
import notif_util as nu

ASSUME = [
    "payloads carry (mode, sender, sender's open period, sequence number) + position-coded padding; the ledger relates the sender's "
    "accepted sequence to the receiver's delivered sequence only (no ordering between the two endpoints' logs is assumed)",
    "a notification is 'accepted' when the send call returned Ok while the sender's handle had a sink for the peer; a synchronous send "
    "that returns Ok(()) without a sink (NotificationHandle::send_sync_notification with an unknown peer) sends nothing and is not counted",
    "NoLoss is judged only for streams still open on both sides at a stable quiescence after the receiver drained its handle",
    "deliveries that spill into the receiver's next open period are tolerated as long as the per-period prefix rule holds",
    "TLC bounds: capacities {1,2} for the sync / async / user-side channels and the substream, bursts <= 4-5, one close/reopen",
]
KNOWN_STALE = "stale-notifications-delivered-after-reopen"


def stream_consts(s=1, a=1, n=1, wire=1, send=4, reopen=1, mut="none", fixed=False, known=True, sink=2, sizes=("small", "over")):
    return {"S": s, "A": a, "N": n, "WireCap": wire, "SinkCap": sink, "MaxSend": send, "MaxReopen": reopen, "Mut": mut, "Fixed": fixed,
            "KnownStale": known, "Sizes": set(sizes)}


MC_LINES = ["SPECIFICATION Spec", "INVARIANTS LedgerOK NoLoss Bounded", "VIEW View", "CHECK_DEADLOCK FALSE"]


def model_check(ctx):
    runs = [("cap1", stream_consts()), ("cap2", stream_consts(2, 2, 2, 2)), ("mixed", stream_consts(1, 2, 2, 1)),
            ("cap2-repaired", stream_consts(2, 2, 2, 2, fixed=True, known=False)),
            # frames that need two writes (partial write, remainder parked) behind / in front of other frames
            ("partial-writes", stream_consts(2, 2, 2, 2, send=3, reopen=1, sizes=("small", "big"))),
            ("partial-writes-wire1", stream_consts(1, 2, 2, 1, send=3, reopen=0, sizes=("small", "big"), sink=1)),
            ("sizes-all", stream_consts(2, 2, 2, 2, send=4, reopen=0, sizes=("small", "big", "over"))),
            ("empty-notifications", stream_consts(2, 2, 2, 2, send=4, reopen=1, sizes=("small", "empty")))]
    if not ctx.quick():
        runs += [("partial-writes-send4", stream_consts(2, 2, 2, 2, send=4, reopen=1, sizes=("small", "big"), sink=3))]
        runs += [("cap2-send5", stream_consts(2, 2, 2, 2, send=5)), ("s2a1n1w2", stream_consts(2, 1, 1, 2, send=5)),
                 ("s1a2n2w2-repaired", stream_consts(1, 2, 2, 2, send=5, fixed=True, known=False))]
    out = []
    for name, consts in runs:
        r = tlc_mc(ctx, "NotifStreamMC.tla", write_cfg(ctx, "smc_%s.cfg" % name, consts, MC_LINES), workers=6, timeout=3000)
        if not r["ok"]:
            raise ToolError("NotifStreamMC violates an invariant outside the tagged finding in config %s:\n%s" % (name, r.get("error", r["out"][-3000:])))
        out.append({k: r[k] for k in ("transitions", "distinct", "depth", "wall_s") if k in r})
        out[-1]["cfg"] = name
        log("MC %s: %s" % (name, out[-1]))
    return out


def generate(ctx):
    gl = ["SPECIFICATION Spec", "VIEW View", "ACTION_CONSTRAINT Emit", "CHECK_DEADLOCK FALSE"]
    rng = random.Random(ctx.seed)
    scripts, stats = [], []
    for name, consts in [("gen1", stream_consts(1, 1, 1, 1, send=3)), ("gen2", stream_consts(2, 1, 1, 1, send=4)),
                         ("gen-big", stream_consts(2, 2, 2, 2, send=3, reopen=0, sizes=("small", "big")))]:
        behs, g = tlc_generate(ctx, "NotifStreamMC.tla", write_cfg(ctx, "s%s.cfg" % name, consts, gl), timeout=3000)
        keyed = {}
        for b in behs:
            keyed.setdefault(tuple((s["a"], s.get("sz")) for s in b), b)
        keys = sorted(keyed, key=lambda k: (-len(k), str(k)))
        longest = [k for k in keys if len(k) >= len(keys[0]) - 1]
        rng.shuffle(longest)
        chosen = longest[:(20 if ctx.quick() else 150)]
        for k in chosen:
            scripts.append(nu.script_from_stream_behaviour(keyed[k], len(scripts), ctx.seed, consts))
        g.update(cfg=name, command_sequences=len(keyed), chosen=len(chosen))
        stats.append(g)
        log("GEN %s" % g)
    return scripts, stats


def classify(seg, idx, reason):
    prev = [json.loads(x) for x in seg[1:idx - 1]]
    ev = json.loads(seg[idx - 1])
    if reason in ("notification skipped within an open period", "notifications delivered out of order", "notification delivered twice"):
        # deliveries of the receiver before this one: did it see the stream closed (and reopened) in between?
        rcv = [d for d in prev if d["e"] in ("d", "rc", "ro")]
        if any(d["e"] == "rc" for d in rcv):
            return KNOWN_STALE
    return reason.replace(" ", "-")


def validate(ctx, lines):
    segs, info = nu.direction_traces(lines)
    nseg, nev, rejects = validate_all(ctx, "NotifStreamTrace.tla", "NotifStreamTrace.cfg", segs)
    return segs, info, nseg, nev, rejects


def collect(ctx, rejects):
    violations, seen = [], set()
    for r in rejects:
        seg, idx = r
        hdr = json.loads(seg[0])
        sig = classify(seg, idx, r.reason)
        key = (hdr["sc"], hdr["from"], hdr["to"], sig)
        if key in seen:
            continue   # one report per direction and signature
        seen.add(key)
        lo = max(1, idx - 12)
        violations.append({"sig": sig, "what": "%s, %s->%s of scenario %s: %s" % (r.reason, hdr["from"], hdr["to"], hdr["sc"], seg[idx - 1][:200]),
                           "replay_obj": {"property": "C12", "reason": r.reason, "signature": sig, "scenario": hdr["sc"],
                                          "script": getattr(ctx, "scripts_by_id", {}).get(hdr["sc"]),
                                          "segment_head": json.loads(seg[0]), "before": [json.loads(x) for x in seg[lo:idx]],
                                          "segment": [json.loads(x) for x in seg[:idx]] if idx < 3000 else None}})
    return violations


def check(ctx):
    mc = model_check(ctx)
    tlc_scripts, gstats = generate(ctx)
    build_s = cargo_build(ctx, ["notif"])
    nrand = 60 if ctx.quick() else 2400
    scripts, skipped = nu.transport_plan(ctx, nu.stream_families(ctx.seed, ctx.tier), tlc_scripts,
                                         lambda i: nu.stream_random_script(random.Random(ctx.seed * 1000033 + i), i, ctx.seed), nrand)
    ctx.scripts_by_id = {s["id"]: s for s in scripts}
    lines, summs = nu.run_batches(ctx, scripts, "s", build_s)
    segs, info, nseg, nev, rejects = validate(ctx, lines)
    violations = collect(ctx, rejects)
    nu.save_known_repros(ctx, violations)
    cov = evidence(mc, gstats, summs, segs, info, nseg, nev, scripts)
    cov["families_not_run_per_transport"] = skipped
    cov["discarded_runs"] = nu.discarded_runs(ctx, lines)
    return conclude(ctx, "model_checking", cov, violations, ASSUME)


def evidence(mc, gstats, summs, segs, info, nseg, nev, scripts):
    res, sizes, distinct, waited = {}, {}, set(), 0
    per_tr, pt = {}, None
    cur = []
    full_end = 0
    for ln in segs:
        d = json.loads(ln)
        if d["e"] == "reset":
            if cur:
                distinct.add(hash(tuple(cur)))
            cur = [(d["sync"], d["async"], d["max"])]
            pt = per_tr.setdefault(d.get("tr", "tcp"), {"directions": 0, "send_results": {}, "deliveries": 0, "judged_no_loss": 0, "async_waited": 0})
            pt["directions"] += 1
        elif d["e"] == "s":
            k = "%s:%s" % (d["m"], d["r"])
            res[k] = res.get(k, 0) + 1
            pt["send_results"][k] = pt["send_results"].get(k, 0) + 1
            if d["m"] == "a" and d["r"] == "ok" and d["w"] >= 100:
                waited += 1
                pt["async_waited"] += 1
            cls = "over" if d["len"] > 1024 or False else ("tiny" if d["len"] < nu.HDR else "id")
            sizes[cls] = sizes.get(cls, 0) + 1
            cur.append((d["m"], d["r"], d["len"]))
        elif d["e"] == "d":
            cur.append(("d", d["m"], d["per"], d["n"]))
            pt["deliveries"] += 1
        elif d["e"] == "end":
            full_end += 1 if d["open"] else 0
            pt["judged_no_loss"] += 1 if d["open"] else 0
            cur.append(("end", d["open"]))
    if cur:
        distinct.add(hash(tuple(cur)))
    needed = ["s:ok", "s:clogged", "a:ok", "a:err"]
    missing = [k for k in needed if not res.get(k)]
    for t in nu.TRANSPORTS:
        q = per_tr.get(t, {})
        missing += ["%s/%s" % (t, k) for k in needed if not q.get("send_results", {}).get(k)]
        missing += ["%s/%s" % (t, k) for k in ("deliveries", "judged_no_loss", "async_waited") if not q.get(k)]
    if missing or not info["deliveries"] or not full_end or not waited:
        raise ToolError("data-plane cases never exercised on real nodes: %s deliveries=%s judged_noloss=%s async_waited=%s"
                        % (missing, info["deliveries"], full_end, waited))
    samples = [json.loads(x) for x in segs[:8]]
    return {
        "states": sum(m["distinct"] for m in mc),
        "transitions": sum(m["transitions"] for m in mc),
        "traces_validated_against_impl": nseg,
        "events_validated": nev,
        "samples": samples,
        "evaluations": len(scripts),
        "distinct_nontrivial": len(distinct),
        "rule": "a case is one direction (sender -> receiver) of one scenario executed on a real litep2p network: the sender's send calls "
                "with results and period boundaries, then the receiver's deliveries; validated by TLC against the ledger of NotifStream.tla; "
                "distinct = distinct (configuration, send results, delivery sequence) tuples with at least one send or delivery",
        "model_runs": mc,
        "generation": gstats,
        "harness": summs,
        "send_results": res,
        "per_transport": per_tr,
        "async_sends_that_waited_100ms_for_capacity": waited,
        "directions": info,
        "streams_judged_for_no_loss": full_end,
        "exhaustive": False,
    }


def replay(ctx, path):
    obj = json.load(open(path))
    rc = 0
    if obj.get("segment"):
        for x in obj["segment"]:      # executions recorded before the hold generation existed
            if x.get("e") == "s":
                x.setdefault("hg", 0)
        seg = [json.dumps(x, separators=(",", ":")) for x in obj["segment"]]
        _, _, rej = validate_all(ctx, "NotifStreamTrace.tla", "NotifStreamTrace.cfg", seg)
        log("replay of recorded segment: %s" % ("rejected: %s" % rej[0].reason if rej else "accepted"))
        rc = 1 if rej else 0
    if obj.get("script"):
        cargo_build(ctx, ["notif"])
        scripts = []
        for i in range(8):
            s = json.loads(json.dumps(obj["script"]))
            s["id"] = "%s-re%d" % (s["id"], i)
            scripts.append(s)
        summ, lines = nu.run_scripts(ctx, scripts, "replay", threads=8)
        _, _, _, _, rej2 = validate(ctx, lines)
        log("re-execution of the scenario on real nodes (8 runs): %d rejected %s" % (len(rej2), sorted({r.reason for r in rej2})))
        rc = rc or (1 if rej2 else 0)
    return rc


def selftest(ctx):
    ok = True
    cargo_build(ctx, ["notif"])
    scripts = [s for s in nu.stream_families(ctx.seed, "quick") if s["id"].startswith(("sfam-burst", "sfam-stall", "sfam-close-reopen"))][:9]
    summ, lines = nu.run_scripts(ctx, scripts, "self", threads=9)
    segs, info, nseg, nev, rej = validate(ctx, lines)
    log("selftest good traces: %d directions, %s, %d rejects" % (nseg, info, len(rej)))
    ok &= not rej and info["deliveries"] > 20

    def mutate(name, fn, expect):
        nonlocal ok
        out = fn([json.loads(x) for x in segs])
        _, _, rj = validate_all(ctx, "NotifStreamTrace.tla", "NotifStreamTrace.cfg", [json.dumps(x, separators=(",", ":")) for x in out], tag=name)
        got = sorted({r.reason for r in rj})
        good = expect in got
        log("selftest binding %-22s -> %s %s" % (name, got[:3], "OK" if good else "FAILED"))
        ok &= good

    def first(ds, pred):
        return next(i for i, d in enumerate(ds) if pred(d))

    def dup(ds):
        i = first(ds, lambda d: d["e"] == "d" and d["idn"])
        return ds[:i + 1] + [ds[i]] + ds[i + 1:]

    def swap(ds):
        i = first(ds, lambda d: d["e"] == "d" and d["idn"] and ds[ds.index(d) + 1]["e"] == "d" and ds[ds.index(d) + 1]["m"] == d["m"] and ds[ds.index(d) + 1]["idn"])
        ds = list(ds)
        ds[i], ds[i + 1] = ds[i + 1], ds[i]
        return ds

    def drop_mid(ds):
        i = first(ds, lambda d: d["e"] == "d" and d["idn"] and d["n"] == 2)
        return ds[:i] + ds[i + 1:]

    def drop_last(ds):
        # last delivery of a direction that ends open on both sides
        ends = [i for i, d in enumerate(ds) if d["e"] == "end" and d["open"]]
        for e in ends:
            j = e - 1
            while j > 0 and ds[j]["e"] != "d":
                j -= 1
            if ds[j]["e"] == "d" and ds[j]["idn"] and not any(x["e"] in ("rc", "reset") for x in ds[j:e]):
                return ds[:j] + ds[j + 1:]
        return ds

    def oversize(ds):
        i = first(ds, lambda d: d["e"] == "d")
        ds = list(ds)
        ds[i] = dict(ds[i], len=10 ** 6)
        return ds

    def unknown(ds):
        i = first(ds, lambda d: d["e"] == "d" and d["idn"])
        ds = list(ds)
        ds[i] = dict(ds[i], n=99999)
        return ds

    def spurious_clog(ds):
        i = first(ds, lambda d: d["e"] == "s" and d["m"] == "s" and d["r"] == "ok" and d["n"] == 1)
        ds = list(ds)
        ds[i] = dict(ds[i], r="clogged")
        return ds

    mutate("duplicate-delivery", dup, "notification delivered twice")
    mutate("swapped-deliveries", swap, "notifications delivered out of order")
    mutate("dropped-middle", drop_mid, "notification skipped within an open period")
    mutate("dropped-last", drop_last, "accepted notification lost although the stream stayed open")
    mutate("oversize-delivered", oversize, "notification larger than the maximum delivered")
    mutate("unknown-delivered", unknown, "delivered a notification that was never accepted")
    mutate("clog-below-capacity", spurious_clog, "clogged although the synchronous channel cannot be full")
    # (b) negative model configurations: seeded defects / unknown tag must break an invariant
    for name, consts in [("drop_parked", stream_consts(1, 1, 1, 1, mut="drop_parked", sink=1)), ("dup_write", stream_consts(2, 2, 2, 3, mut="dup_write", sink=3)),
                         ("skip_empty", stream_consts(2, 2, 2, 2, send=3, reopen=0, sizes=("small", "empty"), mut="skip_empty")),
                         ("requeue_back", stream_consts(2, 2, 2, 2, send=3, reopen=0, sizes=("small", "big"), mut="requeue_back")),
                         ("stale-untagged", stream_consts(2, 2, 2, 2, known=False))]:
        r = tlc_mc(ctx, "NotifStreamMC.tla", write_cfg(ctx, "neg_%s.cfg" % name, consts, MC_LINES), workers=4, timeout=600, expect_violation=True)
        log("selftest negative model %-16s -> %s" % (name, "invariant violated OK" if not r["ok"] else "FAILED"))
        ok &= not r["ok"]
    # (c) a fault injected in the harness: a received sequence number is misreported
    summ, l2 = nu.run_scripts_env(ctx, scripts, "fault", {"VERIF_FAULT": "recv_seq"}, threads=9)
    _, _, _, _, rj = validate(ctx, l2)
    log("selftest harness fault (sequence number 3 reported as 2) -> %d rejects %s" % (len(rj), "OK" if rj else "FAILED"))
    ok &= bool(rj)
    log("SELFTEST %s" % ("passed" if ok else "FAILED"))
    return 0 if ok else 2
