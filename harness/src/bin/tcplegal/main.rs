//! tcplegal: does the real `TcpTransport` keep the Transport interface (spec/TransportIface.tla)?
//!
//! A real `TcpTransport` (built through `TransportBuilder::new` with the `TransportHandle` of a real
//! `TransportManager`, hook `litep2p::verif::tcp::TcpHarness`) is driven call by call with schedules
//! (TLC-derived and seeded random ones, both written by tools/tcplegal.py) against remote
//! endpoints this binary controls over real loopback sockets:
//!   healthy  - real `Litep2p` nodes (public API) that accept connections
//!   dialers  - real `Litep2p` nodes that dial the transport under test (inbound connections)
//!   refused  - a bound, non-listening port
//!   blackhole- a listener that accepts and never answers
//!   garbage  - listeners that close at once / send junk / negotiate `/noise` and then send junk
//!   wrongid  - a healthy node's socket address claimed for another identity
//!   nop2p    - a healthy node's socket address without `/p2p`
//! Every call (with its result), every event of the transport's stream and the read-only
//! projection of the bookkeeping maps are recorded as NDJSON for TLC (TransportIfaceTrace).
mod env;
mod probe;

use env::Env;
use litep2p::{
    crypto::ed25519::Keypair,
    verif::{tcp::{Bookkeeping, TcpEvent, TcpSetup}, transports::TransportHarness},
    PeerId,
};
use multiaddr::{Multiaddr, Protocol};
use rand::{rngs::StdRng, Rng, SeedableRng};
use serde_json::{json, Value};
use std::{
    collections::{HashMap, HashSet},
    sync::{
        atomic::{AtomicU64, Ordering},
        Arc,
    },
    time::{Duration, Instant},
};
use vharness::*;

fn strip_p2p(a: &Multiaddr) -> (Multiaddr, String) {
    let mut want = String::new();
    let mut out = Multiaddr::empty();
    for p in a.iter() {
        match p {
            Protocol::P2p(h) => {
                want = PeerId::from_multihash(h).map(|p| p.to_string()).unwrap_or_default();
                break;
            }
            other => out.push(other),
        }
    }
    (out, want)
}

fn bk_json(b: &Bookkeeping) -> Value {
    json!({
        "pending_dials": b.pending_dials, "pending_inbound": b.pending_inbound, "opened": b.opened,
        "pending_open": b.pending_open,
        "cancel_futures": b.cancel_futures.iter().map(|x| x.0).collect::<Vec<_>>(),
        "aborted": b.cancel_futures.iter().filter(|x| x.1).map(|x| x.0).collect::<Vec<_>>(),
        "pending_connections": b.pending_connections, "pending_raw_connections": b.pending_raw_connections,
    })
}

/// The driver's own view of what is outstanding; used only to decide how long to wait.
#[derive(Default)]
struct Ledger {
    st: HashMap<usize, &'static str>,
    connects: usize,
    pins: usize,
    last_connect: Option<Instant>,
}

impl Ledger {
    fn outstanding(&self, bk: &Bookkeeping) -> bool {
        // (an accepted inbound handshake is visible as a future in pending_connections; a remote's connection that has
        // not reached the listener 2 s after it was made is not waited for any longer)
        self.st.values().any(|s| matches!(*s, "dialing" | "opening" | "negotiating"))
            || (self.pins < self.connects && self.last_connect.map(|t| t.elapsed() < Duration::from_secs(2)).unwrap_or(false))
            || !bk.cancel_futures.is_empty()
            || bk.pending_connections > 0
            || bk.pending_raw_connections > 0
    }
}

/// The waker the transport's stream is polled with.
struct WakeFlag {
    flag: std::sync::atomic::AtomicBool,
    notify: tokio::sync::Notify,
}

impl std::task::Wake for WakeFlag {
    fn wake(self: Arc<Self>) {
        self.flag.store(true, Ordering::SeqCst);
        self.notify.notify_one();
    }
}

struct Exec<'a> {
    h: TransportHarness,
    tr: String,
    env: &'a Env,
    rng: StdRng,
    lines: Vec<String>,
    refs: HashMap<String, usize>,
    inbound: Vec<usize>,
    ledger: Ledger,
    policy: Value,
    last_activity: Instant,
    accepts: Vec<tokio::task::JoinHandle<Result<(), String>>>,
    fault: String,
    cancelled_opening: Vec<usize>,
    listen: Multiaddr,
    local: PeerId,
    held: Vec<tokio::task::JoinHandle<()>>,
    stats: HashMap<&'static str, u64>,
    /// events received per connection id / already matched by an `expect` step
    seen: HashMap<usize, Vec<String>>,
    matched: HashMap<usize, usize>,
    inbound_matched: usize,
    /// a command was issued (or an event returned) since the stream last returned `Pending`
    dirty: bool,
    wake: Arc<WakeFlag>,
}

impl<'a> Exec<'a> {
    fn bump(&mut self, k: &'static str) {
        *self.stats.entry(k).or_insert(0) += 1;
    }

    fn log(&mut self, mut v: Value) {
        let mut bk = bk_json(&self.h.bookkeeping());
        if self.fault == "leak_pending_dials" && v["e"] == "quiesce" {
            bk["pending_dials"] = json!([0]);
        }
        v["bk"] = bk;
        self.lines.push(v.to_string());
        self.last_activity = Instant::now();
    }

    /// `/ws` or `/quic-v1` tail of a TCP-shaped dead endpoint for the transport under test.
    fn shaped(&self, tcp_base: &Multiaddr) -> Multiaddr {
        match self.tr.as_str() {
            "ws" => tcp_base.clone().with(Protocol::Ws("/".into())),
            _ => tcp_base.clone(),
        }
    }

    fn concretise(&mut self, spec: &Value) -> Multiaddr {
        let n = spec["n"].as_u64().unwrap_or(0) as usize;
        let ghost = || Protocol::P2p(PeerId::random().into());
        let tr = self.tr.clone();
        let quic = tr == "quic";
        match spec["kind"].as_str().unwrap_or("healthy") {
            "healthy" => self.env.healthy_addr(&tr, n),
            "nop2p" => strip_p2p(&self.env.healthy_addr(&tr, n)).0,
            "wrongid" => strip_p2p(&self.env.healthy_addr(&tr, n)).0.with(ghost()),
            "dns" => {
                // a healthy node behind a name (resolved through the hosts file or not at all: the lookup is bounded by T)
                let full = self.env.healthy_addr(&tr, n);
                let mut out = Multiaddr::empty();
                for p in full.iter() {
                    out.push(match p {
                        Protocol::Ip4(_) => Protocol::Dns4("localhost".into()),
                        other => other,
                    });
                }
                out
            }
            "dns_bad" => format!("/dns4/no-such-host-{n}.invalid{}", match tr.as_str() { "ws" => "/tcp/4001/ws", "quic" => "/udp/4001/quic-v1", _ => "/tcp/4001" })
                .parse::<Multiaddr>()
                .unwrap()
                .with(ghost()),
            // QUIC has no refusal: a closed or unread UDP port is only ever a timeout
            "refused" | "blackhole" if quic => self.env.udp_dead.clone().with(ghost()),
            "garbage" if quic => self.env.udp_garbage.clone().with(ghost()),
            "refused" => self.shaped(&self.env.refused).with(ghost()),
            "blackhole" => self.shaped(&self.env.blackhole).with(ghost()),
            "garbage" => self.shaped(&self.env.garbage[n % self.env.garbage.len()]).with(ghost()),
            "bad" => match tr.as_str() {
                "ws" => ["/ip4/127.0.0.1/udp/4001", "/ip4/127.0.0.1/tcp/4001", "/ip4/127.0.0.1", "/p2p/12D3KooWT2ouvz5uMmCvHJGzAGRHiqDts5hzXR7NdoQ27pGdzp9Q"][n % 4],
                "quic" => ["/ip4/127.0.0.1/tcp/4001", "/ip4/127.0.0.1/tcp/4001/ws", "/ip4/127.0.0.1", "/p2p/12D3KooWT2ouvz5uMmCvHJGzAGRHiqDts5hzXR7NdoQ27pGdzp9Q"][n % 4],
                _ => ["/ip4/127.0.0.1/udp/4001", "/ip4/127.0.0.1/tcp/4001/ws", "/ip4/127.0.0.1", "/p2p/12D3KooWT2ouvz5uMmCvHJGzAGRHiqDts5hzXR7NdoQ27pGdzp9Q"][n % 4],
            }
            .parse()
            .unwrap(),
            other => panic!("address kind {other}"),
        }
    }

    fn cid_of(&mut self, step: &Value) -> usize {
        let r = step["ref"].as_str().unwrap_or("?").to_string();
        if let Some(c) = self.refs.get(&r) {
            return *c;
        }
        if let Some(k) = r.strip_prefix('i').and_then(|k| k.parse::<usize>().ok()) {
            if let Some(c) = self.inbound.get(k) {
                return *c;
            }
        }
        // an id the transport was never asked about
        1_000_000 + self.rng.gen_range(0..1000)
    }

    fn ret(r: &Result<(), String>) -> &'static str {
        if r.is_ok() {
            "ok"
        } else {
            "err"
        }
    }

    fn call(&mut self, op: &str, cid: usize) {
        let (ret, err): (&str, String) = match op {
            "cancel" => {
                self.h.cancel(cid);
                if self.ledger.st.get(&cid) == Some(&"opening") {
                    self.ledger.st.insert(cid, "cancelled");
                    self.cancelled_opening.push(cid);
                }
                ("ok", String::new())
            }
            "negotiate" => {
                let r = self.h.negotiate(cid);
                if r.is_ok() {
                    self.ledger.st.insert(cid, "negotiating");
                }
                (Self::ret(&r), r.err().unwrap_or_default())
            }
            "accept" => match self.h.accept(cid) {
                Ok(fut) => {
                    self.ledger.st.insert(cid, "accepted");
                    self.accepts.push(tokio::spawn(fut));
                    ("ok", String::new())
                }
                Err(e) => ("err", e),
            },
            "reject" => {
                let r = self.h.reject(cid);
                if r.is_ok() {
                    self.ledger.st.insert(cid, "rejected");
                }
                (Self::ret(&r), r.err().unwrap_or_default())
            }
            "accept_pending" => {
                let r = self.h.accept_pending(cid);
                if r.is_ok() {
                    self.ledger.st.insert(cid, "in_neg");
                }
                (Self::ret(&r), r.err().unwrap_or_default())
            }
            "reject_pending" => {
                let r = self.h.reject_pending(cid);
                if r.is_ok() {
                    self.ledger.st.insert(cid, "in_rejected");
                }
                (Self::ret(&r), r.err().unwrap_or_default())
            }
            other => panic!("op {other}"),
        };
        self.bump("calls");
        self.dirty = true;
        let mut v = json!({"e": "call", "c": op, "cid": cid, "ret": ret});
        if !err.is_empty() {
            v["err"] = json!(err.chars().take(60).collect::<String>());
        }
        self.log(v);
    }

    fn dial_open(&mut self, op: &str, step: &Value) {
        let specs: Vec<Value> = if op == "open" { step["addrs"].as_array().cloned().unwrap_or_default() } else { vec![step["addr"].clone()] };
        let addrs: Vec<Multiaddr> = specs.iter().map(|s| self.concretise(s)).collect();
        let cid = self.h.next_connection_id();
        if let Some(r) = step["ref"].as_str() {
            self.refs.insert(r.to_string(), cid);
        }
        let (socks, wants): (Vec<String>, Vec<String>) = addrs
            .iter()
            .zip(&specs)
            .map(|(a, s)| if s["kind"] == "bad" { (a.to_string(), String::new()) } else { let (s, w) = strip_p2p(a); (s.to_string(), w) })
            .unzip();
        let r = if op == "open" { self.h.open(cid, addrs.clone()) } else { self.h.dial(cid, addrs[0].clone()) };
        self.ledger.st.insert(cid, if r.is_err() { "refused" } else if op == "open" { "opening" } else { "dialing" });
        self.bump("calls");
        self.dirty = true;
        self.log(json!({"e": "call", "c": op, "cid": cid, "ret": Self::ret(&r),
            "addrs": addrs.iter().map(|a| a.to_string()).collect::<Vec<_>>(), "socks": socks, "wants": wants,
            "kinds": specs.iter().map(|s| s["kind"].clone()).collect::<Vec<_>>()}));
    }

    fn connect(&mut self, kind: &str, n: usize) {
        let quic = self.tr == "quic";
        // QUIC: only a real node ever gets as far as the listener; junk datagrams are dropped by quinn
        let kind = if quic && !kind.starts_with("node") { "garbage" } else { kind };
        if !(quic && kind == "garbage") {
            self.ledger.connects += 1;
            self.ledger.last_connect = Some(Instant::now());
        }
        self.bump("connects");
        self.log(json!({"e": "connect", "kind": kind}));
        let (sock, _) = strip_p2p(&self.listen);
        let target = env::socket_of(&sock);
        match kind {
            "node" => self.env.dialer_dial(n, self.listen.clone().with(Protocol::P2p(self.local.into()))),
            "node_wrongid" => self.env.dialer_dial(n, self.listen.clone().with(Protocol::P2p(PeerId::random().into()))),
            _ if quic => {
                self.held.push(tokio::spawn(async move {
                    if let Ok(s) = tokio::net::UdpSocket::bind("127.0.0.1:0").await {
                        let _ = s.send_to(b"\xc3\x00\x00\x00\x01\x08junkjunk\x00 no quic initial", target).await;
                        let _ = s.send_to(&[0u8; 1200], target).await;
                    }
                }));
            }
            _ => {
                let kind = kind.to_string();
                self.held.push(tokio::spawn(async move {
                    use tokio::io::AsyncWriteExt;
                    if let Ok(mut s) = tokio::net::TcpStream::connect(target).await {
                        match kind.as_str() {
                            "close" => {}
                            "garbage" => {
                                let _ = s.write_all(b"\xff\xfe\xfd garbage that is no multistream-select header\n").await;
                                tokio::time::sleep(Duration::from_millis(200)).await;
                            }
                            _ => tokio::time::sleep(Duration::from_secs(20)).await, // silent
                        }
                    }
                }));
            }
        }
    }

    fn on_event(&mut self, ev: TcpEvent) -> Option<usize> {
        self.bump("events");
        let errs = |v: &Vec<(Multiaddr, String)>| v.iter().map(|(a, _)| a.to_string()).collect::<Vec<_>>();
        let errtxt = |v: &Vec<(Multiaddr, String)>| v.iter().map(|(_, e)| e.chars().take(40).collect::<String>()).collect::<Vec<_>>();
        let (cid, line) = match &ev {
            TcpEvent::Established { peer, cid, listener, address } => {
                self.bump(if *listener { "ev_est_in" } else { "ev_est_out" });
                (*cid, json!({"e": "ev", "k": "est", "cid": cid, "dir": if *listener { "in" } else { "out" }, "peer": peer.to_string(), "addr": address.to_string()}))
            }
            TcpEvent::DialFailure { cid, address, error } => {
                self.bump("ev_dial_failure");
                (*cid, json!({"e": "ev", "k": "dial_failure", "cid": cid, "addr": address.to_string(), "err": error.chars().take(60).collect::<String>()}))
            }
            TcpEvent::Opened { cid, address, errors } => {
                self.bump("ev_opened");
                (*cid, json!({"e": "ev", "k": "opened", "cid": cid, "addr": address.to_string(), "errs": errs(errors), "errtxt": errtxt(errors)}))
            }
            TcpEvent::OpenFailure { cid, errors } => {
                self.bump("ev_open_failure");
                (*cid, json!({"e": "ev", "k": "open_failure", "cid": cid, "errs": errs(errors), "errtxt": errtxt(errors)}))
            }
            TcpEvent::PendingInbound { cid } => {
                self.bump("ev_pending_inbound");
                (*cid, json!({"e": "ev", "k": "pending_inbound", "cid": cid}))
            }
            TcpEvent::Closed { peer, cid } => (*cid, json!({"e": "ev", "k": "closed", "cid": cid, "peer": peer.to_string()})),
            TcpEvent::Terminated => (usize::MAX, json!({"e": "ev", "k": "terminated", "cid": -1})),
        };
        if self.fault == "drop_dial_failure" && line["k"] == "dial_failure" {
            // misreport: swallow the event (the check must notice the silence)
            self.ledger.st.insert(cid, "failed");
            return Some(cid);
        }
        self.log(line);
        self.seen.entry(cid).or_default().push(self.lines.last().map(|l| serde_json::from_str::<Value>(l).unwrap()["k"].as_str().unwrap_or("").to_string()).unwrap_or_default());
        match ev {
            TcpEvent::Established { cid, .. } => {
                self.ledger.st.insert(cid, "announced");
                match self.pick("on_est", &["accept", "reject", "none"]) {
                    "accept" => self.call("accept", cid),
                    "reject" => self.call("reject", cid),
                    _ => {}
                }
            }
            TcpEvent::DialFailure { cid, .. } | TcpEvent::OpenFailure { cid, .. } => {
                self.ledger.st.insert(cid, "failed");
            }
            TcpEvent::Opened { cid, .. } => {
                self.ledger.st.insert(cid, "opened");
                match self.pick("on_opened", &["negotiate", "cancel_negotiate", "none"]) {
                    "negotiate" => self.call("negotiate", cid),
                    "cancel_negotiate" => {
                        self.call("cancel", cid);
                        self.call("negotiate", cid)
                    }
                    _ => {}
                }
            }
            TcpEvent::PendingInbound { cid } => {
                self.ledger.pins += 1;
                self.inbound.push(cid);
                self.ledger.st.insert(cid, "pin");
                match self.pick("on_inbound", &["accept", "reject", "none"]) {
                    "accept" => self.call("accept_pending", cid),
                    "reject" => self.call("reject_pending", cid),
                    _ => {}
                }
            }
            _ => {}
        }
        Some(cid)
    }

    /// Policy entry: a fixed choice, or "random" = seeded choice per event.
    fn pick(&mut self, key: &str, options: &[&'static str]) -> &'static str {
        let p = self.policy[key].as_str().unwrap_or("none").to_string();
        if p == "random" {
            return options[self.rng.gen_range(0..options.len())];
        }
        options.iter().copied().find(|o| *o == p).unwrap_or("none")
    }

    /// Run the polling task for up to `d`; stop early when `until` says so.
    ///
    /// The transport's stream is polled the way the manager's task polls it: after a command, or
    /// when the waker the stream was last polled with has fired -- then repeatedly until it
    /// returns `Pending` (the manager goes back to its transports after every event). It is
    /// NEVER re-polled just because time passed: a lost wake-up (an outcome that is ready but
    /// never announced) must stay lost so that the quiescence rule can judge it.
    async fn pump(&mut self, d: Duration, until: impl Fn(&Self, usize) -> bool) -> bool {
        let end = Instant::now() + d;
        loop {
            if self.dirty || self.wake.flag.swap(false, Ordering::SeqCst) {
                self.dirty = false;
                self.bump("poll_rounds");
                loop {
                    let waker = std::task::Waker::from(self.wake.clone());
                    let mut cx = std::task::Context::from_waker(&waker);
                    let polled = {
                        let fut = self.h.next_event();
                        futures::pin_mut!(fut);
                        futures::Future::poll(fut, &mut cx)
                    };
                    match polled {
                        std::task::Poll::Pending => break,
                        std::task::Poll::Ready(ev) => {
                            let term = ev == TcpEvent::Terminated;
                            let hit = self.on_event(ev).map(|cid| until(self, cid)).unwrap_or(false);
                            if hit || term {
                                // the stream returned an event: the polling task is still awake
                                self.dirty = !term;
                                return hit;
                            }
                        }
                    }
                }
            }
            let now = Instant::now();
            if now >= end {
                return false;
            }
            if tokio::time::timeout(end - now, self.wake.notify.notified()).await.is_err() {
                return false;
            }
        }
    }

    async fn step(&mut self, step: &Value) {
        match step["op"].as_str().unwrap_or("") {
            op @ ("dial" | "open") => self.dial_open(op, step),
            op @ ("cancel" | "negotiate" | "accept" | "reject" | "accept_pending" | "reject_pending") => {
                let cid = self.cid_of(step);
                self.call(op, cid);
                if self.fault == "event_after_cancel" && op == "cancel" && self.cancelled_opening.contains(&cid) {
                    // misreport: pretend the cancelled open surfaced
                    self.log(json!({"e": "ev", "k": "open_failure", "cid": cid, "errs": []}));
                }
            }
            "connect" => self.connect(step["kind"].as_str().unwrap_or("silent"), step["n"].as_u64().unwrap_or(0) as usize),
            "wait" => {
                self.pump(Duration::from_millis(step["ms"].as_u64().unwrap_or(10)), |_, _| false).await;
            }
            // the application is busy: nobody polls the transport (completions pile up inside it)
            "sleep" | "hold" => {
                tokio::time::sleep(Duration::from_millis(step["ms"].as_u64().unwrap_or(10))).await;
                if self.fault == "lose_wake_after_hold" {
                    // emulates a stream that had something ready but did not keep its task awake: if the driver ever
                    // re-polled just because time passes, the selftest would not see the resulting silence
                    self.wake.flag.store(false, Ordering::SeqCst);
                    self.dirty = false;
                }
            }
            "expect" => {
                let ms = Duration::from_millis(step["ms"].as_u64().unwrap_or(1000));
                // an event that arrived earlier (while another one was awaited) satisfies the expectation too
                let hit = if step["inbound"].as_bool().unwrap_or(false) {
                    let n = self.inbound_matched;
                    let hit = self.inbound.len() > n || self.pump(ms, move |s, _| s.inbound.len() > n).await;
                    if hit {
                        self.inbound_matched += 1;
                    }
                    hit
                } else {
                    let cid = self.cid_of(step);
                    let have = |s: &Self| s.seen.get(&cid).map(|v| v.len()).unwrap_or(0) > s.matched.get(&cid).copied().unwrap_or(0);
                    let hit = have(self) || self.pump(ms, move |_, c| c == cid).await;
                    if hit {
                        let i = *self.matched.get(&cid).unwrap_or(&0);
                        if step["want"].as_str() == self.seen.get(&cid).and_then(|v| v.get(i)).map(|x| x.as_str()) {
                            self.bump("expect_as_planned");
                        }
                        *self.matched.entry(cid).or_insert(0) += 1;
                    }
                    hit
                };
                self.bump(if hit { "expect_hit" } else { "expect_miss" });
                if !hit && std::env::var("TCPLEGAL_DEBUG").is_ok() {
                    eprintln!("MISS {} {}", self.lines[0], step);
                }
            }
            other => panic!("unknown step {other}"),
        }
    }
}

struct Outcome {
    lines: Vec<String>,
    stats: HashMap<&'static str, u64>,
    lagged: bool,
    settled: bool,
}

async fn run_exec(env: &Env, sched: &Value, seed: u64, fault: &str) -> Outcome {
    let cfg = &sched["cfg"];
    let t_ms = cfg["timeout_ms"].as_u64().unwrap_or(250);
    let tr = cfg["transport"].as_str().unwrap_or("tcp").to_string();
    let setup = TcpSetup {
        listen_addresses: vec![match tr.as_str() { "ws" => "/ip4/127.0.0.1/tcp/0/ws", "quic" => "/ip4/127.0.0.1/udp/0/quic-v1", _ => "/ip4/127.0.0.1/tcp/0" }.parse().unwrap()],
        reuse_port: cfg["reuse_port"].as_bool().unwrap_or(false),
        connection_open_timeout: Duration::from_millis(t_ms),
        substream_open_timeout: Duration::from_millis(t_ms),
        max_parallel_dials: cfg["parallel"].as_u64().unwrap_or(8) as usize,
        protocols: 1,
    };
    let h = TransportHarness::new(&tr, Keypair::generate(), setup).expect("transport under test");
    let listen = h.listen_addresses().into_iter().next().expect("listen address");
    let local = h.local_peer_id();
    // timer-lag probe: the judgement of deadlines is only valid while timers fire on time
    let lag = Arc::new(AtomicU64::new(0));
    let lag2 = lag.clone();
    let probe = tokio::spawn(async move {
        loop {
            let t = Instant::now();
            tokio::time::sleep(Duration::from_millis(20)).await;
            let over = t.elapsed().as_millis() as u64;
            lag2.fetch_max(over.saturating_sub(20), Ordering::Relaxed);
        }
    });
    let id = sched["id"].as_u64().unwrap_or(0);
    let mut x = Exec {
        h, tr, env, rng: StdRng::seed_from_u64(seed ^ id.wrapping_mul(0x9e3779b97f4a7c15)), lines: vec![], refs: HashMap::new(), inbound: vec![],
        ledger: Ledger::default(), policy: cfg["policy"].clone(), last_activity: Instant::now(), accepts: vec![], fault: fault.to_string(),
        cancelled_opening: vec![], listen, local, held: vec![], stats: HashMap::new(), seen: HashMap::new(), matched: HashMap::new(), inbound_matched: 0, dirty: true,
        wake: Arc::new(WakeFlag { flag: std::sync::atomic::AtomicBool::new(false), notify: tokio::sync::Notify::new() }),
    };
    x.lines.push(json!({"e": "reset", "id": id, "src": sched["src"], "cfg": cfg, "seed": seed}).to_string());
    for step in sched["steps"].as_array().cloned().unwrap_or_default() {
        x.step(&step).await;
    }
    // quiescence: nothing outstanding in the driver's ledger and the transport idle, or -- when something that must
    // conclude has not -- three times the longest bound on any operation (dial: connect T + negotiation T; open:
    // deadline 2 T; inbound negotiation T) plus half a second without any call or event
    // bound_ms = the longest time any single operation may take on this transport (TCP/WS: connect T + negotiation T,
    // open deadline 2 T; QUIC: lookup T + quinn's handshake timeout max(T, 3 x initial PTO = 3 s))
    let bound_ms = cfg["bound_ms"].as_u64().unwrap_or(2 * t_ms);
    let deadline = Duration::from_millis(3 * bound_ms + 500);
    let idle_min = Duration::from_millis(120);
    let settled;
    let started = Instant::now();
    // The idle clock only counts time during which this task demonstrably ran (at most 150 ms per 60 ms round): if
    // the whole process is stalled for seconds (loaded machine, memory pressure) the transport's timers are late by as
    // much, and wall-clock idleness would judge operations that never had their time. A round that took longer than the
    // operation bound additionally marks the execution as lagged (discarded, re-run).
    let mut idle = Duration::ZERO;
    let mut prev = Instant::now();
    let mut seen = x.last_activity;
    let mut stalled = false;
    loop {
        x.pump(Duration::from_millis(60), |_, _| true).await;
        let now = Instant::now();
        let gap = now - prev;
        prev = now;
        if gap > Duration::from_millis(bound_ms) {
            stalled = true;
        }
        if x.last_activity != seen {
            seen = x.last_activity;
            idle = Duration::ZERO;
        } else {
            idle += gap.min(Duration::from_millis(150));
        }
        let out = x.ledger.outstanding(&x.h.bookkeeping());
        if !out && idle >= idle_min {
            settled = true;
            break;
        }
        if idle >= deadline {
            settled = true; // judged: whatever is still outstanding had three times its bound
            break;
        }
        if started.elapsed() > 20 * deadline {
            settled = false; // events keep arriving (remotes keep connecting): no quiescence point, not judged
            break;
        }
    }
    let _ = x.h.drain_reports();
    x.log(json!({"e": "quiesce"}));
    // diagnosis only (after the judged part of the trace): had anything still been outstanding, does one forced re-poll
    // produce its outcome at once? yes = the outcome was ready and the stream's task had not been woken (lost wake-up),
    // no = the operation really has not concluded
    if x.ledger.outstanding(&x.h.bookkeeping()) {
        let before = x.lines.len();
        x.dirty = true;
        x.pump(Duration::from_millis(50), |_, _| false).await;
        let late = x.lines.split_off(before);
        x.stats.insert("stuck_executions", 1);
        x.stats.insert("stuck_resolved_by_forced_repoll", if late.is_empty() { 0 } else { 1 });
        if std::env::var("TCPLEGAL_DEBUG").is_ok() {
            eprintln!("STUCK {} late={:?}", x.lines[0], late);
        }
    }
    probe.abort();
    for hnd in x.held.drain(..) {
        hnd.abort();
    }
    let mut acc_ok = 0;
    for a in x.accepts.drain(..) {
        if let Ok(Ok(Ok(()))) = tokio::time::timeout(Duration::from_millis(500), a).await {
            acc_ok += 1;
        }
    }
    x.stats.insert("accept_futures_ok", acc_ok);
    let lagged = stalled || lag.load(Ordering::Relaxed) > bound_ms;
    Outcome { lines: std::mem::take(&mut x.lines), stats: std::mem::take(&mut x.stats), lagged, settled }
}

fn main() {
    let args = Args::parse();
    let seed = args.u64("seed", 1);
    let conc = args.u64("conc", 24) as usize;
    let fault = std::env::var("VERIF_FAULT").unwrap_or_default();
    let out = args.str("out", "trace.ndjson");
    let rt = tokio::runtime::Builder::new_multi_thread().worker_threads(args.u64("threads", 6) as usize).enable_all().build().unwrap();
    if args.get("probe-quic-direction").is_some() {
        rt.block_on(probe::run());
        println!("SUMMARY {{}}");
        std::process::exit(0);
    }
    let scheds = read_jsonl(&args.str("schedules", "schedules.jsonl"));
    let (lines, summary) = rt.block_on(async move {
        use futures::StreamExt;
        let env = Arc::new(Env::new(args.u64("healthy", 4) as usize, args.u64("dialers", 4) as usize).await);
        let mut lines: Vec<String> = vec![];
        let mut total: HashMap<&'static str, u64> = HashMap::new();
        let mut pendings: Vec<Value> = scheds;
        let (mut discarded, mut rerun_ok, mut judged) = (0u64, 0u64, 0u64);
        let mut seen_ids = HashSet::new();
        for round in 0..2 {
            let c = if round == 0 { conc } else { 4 };
            let todo = std::mem::take(&mut pendings);
            if todo.is_empty() {
                break;
            }
            let fault = fault.clone();
            let results: Vec<(Value, Outcome)> = futures::stream::iter(todo.into_iter().map(|s| {
                let env = env.clone();
                let fault = fault.clone();
                async move {
                    let o = tokio::spawn(async move {
                        let o = run_exec(&env, &s, seed, &fault).await;
                        (s, o)
                    })
                    .await
                    .expect("execution task");
                    o
                }
            }))
            .buffer_unordered(c)
            .collect()
            .await;
            for (s, o) in results {
                if o.lagged || !o.settled {
                    // timing assumption not met: never judged; re-run once with less concurrency
                    if round == 0 {
                        pendings.push(s);
                    } else {
                        discarded += 1;
                    }
                    continue;
                }
                if round == 1 {
                    rerun_ok += 1;
                }
                judged += 1;
                seen_ids.insert(s["id"].as_u64().unwrap_or(0));
                for (k, v) in o.stats {
                    *total.entry(k).or_insert(0) += v;
                }
                lines.extend(o.lines);
            }
        }
        let mut summary = json!({"executions": judged, "discarded_timing": discarded, "rerun_after_lag": rerun_ok, "lines": lines.len()});
        for (k, v) in total {
            summary[k] = json!(v);
        }
        (lines, summary)
    });
    write_lines(&out, &lines);
    println!("SUMMARY {}", summary);
    // remote nodes and held sockets die with the process
    std::process::exit(0);
}
