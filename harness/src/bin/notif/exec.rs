//! Seeded schedule-perturbing executor handed to `litep2p::config::ConfigBuilder::with_executor`.
//!
//! Every future litep2p spawns is wrapped: before a poll the wrapper may yield, sleep a few ms or
//! (rarely) stall for a long time, all drawn from a per-task seeded RNG.  Tasks are classified by
//! the context they are spawned from (`Proto` = the notification protocol loop, the first task
//! spawned by `Litep2p::new`; `Conn` = notification connection handlers, spawned from inside the
//! protocol loop; `Other` = transport connection loops).  A class of tasks of one node can be held
//! completely by the scenario (`stall` step): an adversarial but legal scheduler.
//! Panics inside a wrapped task are caught and recorded: they are data for the monitor.
use futures::FutureExt;
use litep2p::executor::Executor;
use rand::{rngs::StdRng, Rng, SeedableRng};
use std::{
    cell::Cell,
    future::Future,
    panic::AssertUnwindSafe,
    pin::Pin,
    sync::{
        atomic::{AtomicBool, AtomicU64, AtomicUsize, Ordering},
        Arc, Mutex,
    },
    task::{Context, Poll},
    time::Duration,
};

#[derive(Copy, Clone, Debug, PartialEq, Eq)]
pub enum Class {
    Proto,
    Conn,
    Other,
}

thread_local! {
    static CURRENT: Cell<Option<Class>> = const { Cell::new(None) };
    /// location of the last panic on this thread (set by the panic hook)
    pub static LAST_PANIC: std::cell::RefCell<String> = const { std::cell::RefCell::new(String::new()) };
}

/// Panic hook: silent, remembers where the panic happened.
pub fn install_panic_hook() {
    std::panic::set_hook(Box::new(|info| {
        let loc = info.location().map(|l| format!("{}:{}", l.file(), l.line())).unwrap_or_default();
        LAST_PANIC.with(|c| *c.borrow_mut() = loc);
    }));
}

pub struct Shared {
    pub seed: u64,
    /// 0 = no perturbation, 1 = yields + short sleeps, 2 = + rare long stalls
    pub level: u8,
    pub spawned: AtomicUsize,
    pub hold_conn: AtomicBool,
    pub hold_proto: AtomicBool,
    pub panics: Mutex<Vec<(String, String)>>,
    pub conn_tasks: AtomicUsize,
    pub polls: AtomicU64,
}

pub struct PerturbExecutor(pub Arc<Shared>);

impl PerturbExecutor {
    pub fn new(seed: u64, level: u8) -> (Arc<dyn Executor>, Arc<Shared>) {
        let sh = Arc::new(Shared {
            seed,
            level,
            spawned: AtomicUsize::new(0),
            hold_conn: AtomicBool::new(false),
            hold_proto: AtomicBool::new(false),
            panics: Mutex::new(Vec::new()),
            conn_tasks: AtomicUsize::new(0),
            polls: AtomicU64::new(0),
        });
        (Arc::new(PerturbExecutor(sh.clone())), sh)
    }
}

struct Perturbed {
    inner: Pin<Box<dyn Future<Output = ()> + Send>>,
    rng: StdRng,
    class: Class,
    sh: Arc<Shared>,
    delay: Option<Pin<Box<tokio::time::Sleep>>>,
    skip: u32,
}

impl Future for Perturbed {
    type Output = ();
    fn poll(mut self: Pin<&mut Self>, cx: &mut Context<'_>) -> Poll<()> {
        let this = &mut *self;
        loop {
            if let Some(d) = this.delay.as_mut() {
                match d.as_mut().poll(cx) {
                    Poll::Pending => return Poll::Pending,
                    Poll::Ready(()) => this.delay = None,
                }
            }
            let held = match this.class {
                Class::Conn => this.sh.hold_conn.load(Ordering::SeqCst),
                Class::Proto => this.sh.hold_proto.load(Ordering::SeqCst),
                Class::Other => false,
            };
            if held {
                this.delay = Some(Box::pin(tokio::time::sleep(Duration::from_millis(3))));
                continue;
            }
            break;
        }
        if this.sh.level > 0 {
            if this.skip > 0 {
                this.skip -= 1;
                cx.waker().wake_by_ref();
                return Poll::Pending;
            }
            let r: u32 = this.rng.gen_range(0..1000);
            let (p_yield, p_sleep, p_stall) = match this.sh.level {
                1 => (150, 40, 0),
                _ => (200, 80, 6),
            };
            if r < p_stall {
                let ms = this.rng.gen_range(60..350);
                this.delay = Some(Box::pin(tokio::time::sleep(Duration::from_millis(ms))));
                cx.waker().wake_by_ref();
                return Poll::Pending;
            } else if r < p_stall + p_sleep {
                let ms = this.rng.gen_range(1..15);
                this.delay = Some(Box::pin(tokio::time::sleep(Duration::from_millis(ms))));
                cx.waker().wake_by_ref();
                return Poll::Pending;
            } else if r < p_stall + p_sleep + p_yield {
                this.skip = this.rng.gen_range(0..3);
                cx.waker().wake_by_ref();
                return Poll::Pending;
            }
        }
        this.sh.polls.fetch_add(1, Ordering::Relaxed);
        let prev = CURRENT.with(|c| c.replace(Some(this.class)));
        let r = std::panic::catch_unwind(AssertUnwindSafe(|| this.inner.as_mut().poll(cx)));
        CURRENT.with(|c| c.set(prev));
        match r {
            Ok(p) => p,
            Err(e) => {
                let msg = if let Some(s) = e.downcast_ref::<&str>() {
                    s.to_string()
                } else if let Some(s) = e.downcast_ref::<String>() {
                    s.clone()
                } else {
                    "panic".to_string()
                };
                let loc = LAST_PANIC.with(|c| c.borrow().clone());
                let loc = loc.rsplit("/repo/").next().unwrap_or("").to_string();
                this.sh.panics.lock().unwrap().push((format!("{:?}", this.class), format!("{loc} {msg}")));
                Poll::Ready(())
            }
        }
    }
}

impl Executor for PerturbExecutor {
    fn run(&self, future: Pin<Box<dyn Future<Output = ()> + Send>>) {
        let n = self.0.spawned.fetch_add(1, Ordering::SeqCst);
        let class = match CURRENT.with(|c| c.get()) {
            Some(Class::Proto) => Class::Conn,
            Some(_) => Class::Other,
            None => {
                if n == 0 {
                    Class::Proto
                } else {
                    Class::Other
                }
            }
        };
        if class == Class::Conn {
            self.0.conn_tasks.fetch_add(1, Ordering::SeqCst);
        }
        let p = Perturbed {
            inner: future,
            rng: StdRng::seed_from_u64(self.0.seed ^ ((n as u64 + 1).wrapping_mul(0x9E37_79B9_7F4A_7C15))),
            class,
            sh: self.0.clone(),
            delay: None,
            skip: 0,
        };
        tokio::spawn(p.map(|_| ()));
    }

    fn run_with_name(&self, _: &'static str, future: Pin<Box<dyn Future<Output = ()> + Send>>) {
        self.run(future)
    }
}
