//! C18: the real litep2p `PeerId` next to the reference `libp2p_identity::PeerId`.
//! Every abstract class enumerated by TLC from `PeerIdRules.tla` is concretised with seeded
//! byte strings; derivation, parsing through every entry point (bytes, base58 text,
//! multiaddress, serde text/binary) and all round trips are recorded as NDJSON for validation
//! against `PeerIdRulesTrace.tla`. Panics are data.
#[path = "wire_common/mod.rs"]
mod wire;

use litep2p::{
    crypto::{ed25519, PublicKey},
    PeerId,
};
use multiaddr::{Multiaddr, Protocol};
use rand::{rngs::StdRng, seq::SliceRandom, Rng};
use serde::{Deserialize, Serialize};
use serde_json::{json, Value};
use std::str::FromStr;
use vharness::*;
use wire::*;

type Ref = libp2p_identity::PeerId;
type SErr = serde::de::value::Error;

fn fault(name: &str) -> bool {
    std::env::var("VERIF_FAULT").map(|f| f == name).unwrap_or(false)
}

// ---------------------------------------------------------------- a trivial binary serde format
struct BinSer;
macro_rules! unsupported {
    ($($f:ident($t:ty)),*) => { $(fn $f(self, _v: $t) -> Result<Vec<u8>, SErr> { Err(serde::ser::Error::custom("unsupported")) })* };
}
impl serde::Serializer for BinSer {
    type Ok = Vec<u8>;
    type Error = SErr;
    type SerializeSeq = serde::ser::Impossible<Vec<u8>, SErr>;
    type SerializeTuple = serde::ser::Impossible<Vec<u8>, SErr>;
    type SerializeTupleStruct = serde::ser::Impossible<Vec<u8>, SErr>;
    type SerializeTupleVariant = serde::ser::Impossible<Vec<u8>, SErr>;
    type SerializeMap = serde::ser::Impossible<Vec<u8>, SErr>;
    type SerializeStruct = serde::ser::Impossible<Vec<u8>, SErr>;
    type SerializeStructVariant = serde::ser::Impossible<Vec<u8>, SErr>;
    fn is_human_readable(&self) -> bool {
        false
    }
    fn serialize_bytes(self, v: &[u8]) -> Result<Vec<u8>, SErr> {
        Ok(v.to_vec())
    }
    unsupported!(serialize_bool(bool), serialize_i8(i8), serialize_i16(i16), serialize_i32(i32), serialize_i64(i64),
                 serialize_u8(u8), serialize_u16(u16), serialize_u32(u32), serialize_u64(u64), serialize_f32(f32),
                 serialize_f64(f64), serialize_char(char), serialize_str(&str), serialize_unit_struct(&'static str));
    fn serialize_none(self) -> Result<Vec<u8>, SErr> {
        Err(serde::ser::Error::custom("unsupported"))
    }
    fn serialize_some<T: ?Sized + Serialize>(self, _: &T) -> Result<Vec<u8>, SErr> {
        Err(serde::ser::Error::custom("unsupported"))
    }
    fn serialize_unit(self) -> Result<Vec<u8>, SErr> {
        Err(serde::ser::Error::custom("unsupported"))
    }
    fn serialize_unit_variant(self, _: &'static str, _: u32, _: &'static str) -> Result<Vec<u8>, SErr> {
        Err(serde::ser::Error::custom("unsupported"))
    }
    fn serialize_newtype_struct<T: ?Sized + Serialize>(self, _: &'static str, _: &T) -> Result<Vec<u8>, SErr> {
        Err(serde::ser::Error::custom("unsupported"))
    }
    fn serialize_newtype_variant<T: ?Sized + Serialize>(self, _: &'static str, _: u32, _: &'static str, _: &T) -> Result<Vec<u8>, SErr> {
        Err(serde::ser::Error::custom("unsupported"))
    }
    fn serialize_seq(self, _: Option<usize>) -> Result<Self::SerializeSeq, SErr> {
        Err(serde::ser::Error::custom("unsupported"))
    }
    fn serialize_tuple(self, _: usize) -> Result<Self::SerializeTuple, SErr> {
        Err(serde::ser::Error::custom("unsupported"))
    }
    fn serialize_tuple_struct(self, _: &'static str, _: usize) -> Result<Self::SerializeTupleStruct, SErr> {
        Err(serde::ser::Error::custom("unsupported"))
    }
    fn serialize_tuple_variant(self, _: &'static str, _: u32, _: &'static str, _: usize) -> Result<Self::SerializeTupleVariant, SErr> {
        Err(serde::ser::Error::custom("unsupported"))
    }
    fn serialize_map(self, _: Option<usize>) -> Result<Self::SerializeMap, SErr> {
        Err(serde::ser::Error::custom("unsupported"))
    }
    fn serialize_struct(self, _: &'static str, _: usize) -> Result<Self::SerializeStruct, SErr> {
        Err(serde::ser::Error::custom("unsupported"))
    }
    fn serialize_struct_variant(self, _: &'static str, _: u32, _: &'static str, _: usize) -> Result<Self::SerializeStructVariant, SErr> {
        Err(serde::ser::Error::custom("unsupported"))
    }
}

struct BinDe<'a>(&'a [u8]);
impl<'de, 'a> serde::Deserializer<'de> for BinDe<'a> {
    type Error = SErr;
    fn is_human_readable(&self) -> bool {
        false
    }
    fn deserialize_any<V: serde::de::Visitor<'de>>(self, v: V) -> Result<V::Value, SErr> {
        v.visit_bytes(self.0)
    }
    serde::forward_to_deserialize_any! {
        bool i8 i16 i32 i64 i128 u8 u16 u32 u64 u128 f32 f64 char str string bytes byte_buf option unit
        unit_struct newtype_struct seq tuple tuple_struct map struct enum identifier ignored_any
    }
}

// ---------------------------------------------------------------- round trips
/// Every conversion of an accepted id and back; the first failing leg is named.
fn round_trips(p: &PeerId) -> Result<(), String> {
    let bytes = p.to_bytes();
    if PeerId::from_bytes(&bytes).ok().as_ref() != Some(p) {
        return Err("bytes".into());
    }
    if PeerId::try_from(bytes.clone()).ok().as_ref() != Some(p) {
        return Err("try_from_vec".into());
    }
    let text = p.to_base58();
    if text != p.to_string() || PeerId::from_str(&text).ok().as_ref() != Some(p) {
        return Err("base58".into());
    }
    // the infallible conversion into the multiaddress peer id type
    let mp: multiaddr::PeerId = (*p).into();
    if mp.to_bytes() != bytes {
        return Err("multiaddr-peer-id-bytes".into());
    }
    if p.to_multiaddr_peer_id().ok() != Some(mp) {
        return Err("to_multiaddr_peer_id".into());
    }
    let addr = Multiaddr::empty().with(Protocol::Ip4([127, 0, 0, 1].into())).with(Protocol::Tcp(4001)).with(Protocol::P2p(mp));
    if PeerId::try_from_multiaddr(&addr).as_ref() != Some(p) {
        return Err("multiaddr".into());
    }
    let reparsed: Multiaddr = addr.to_string().parse().map_err(|_| "multiaddr-text".to_string())?;
    if PeerId::try_from_multiaddr(&reparsed).as_ref() != Some(p) {
        return Err("multiaddr-text".into());
    }
    let rebin = Multiaddr::try_from(addr.to_vec()).map_err(|_| "multiaddr-bytes".to_string())?;
    if PeerId::try_from_multiaddr(&rebin).as_ref() != Some(p) {
        return Err("multiaddr-bytes".into());
    }
    let js = serde_json::to_string(p).map_err(|_| "serde-json-ser".to_string())?;
    if js != format!("\"{text}\"") || serde_json::from_str::<PeerId>(&js).ok().as_ref() != Some(p) {
        return Err("serde-json".into());
    }
    let bin = p.serialize(BinSer).map_err(|_| "serde-bin-ser".to_string())?;
    if bin != bytes || PeerId::deserialize(BinDe(&bin)).ok().as_ref() != Some(p) {
        return Err("serde-bin".into());
    }
    let mh: multihash::Multihash<64> = (*p).into();
    if PeerId::from_multihash(mh).ok().as_ref() != Some(p) {
        return Err("multihash".into());
    }
    Ok(())
}

fn verdict<T>(r: &Result<Option<T>, String>) -> &'static str {
    match r {
        Err(_) => "panic",
        Ok(Some(_)) => "accept",
        Ok(None) => "reject",
    }
}

/// One parse observation: the real outcome next to the reference outcome.
fn parse_event(class: &Value, via: &str, input: String, real: Result<Option<PeerId>, String>, reference: Option<Ref>) -> Value {
    let mut real_v = verdict(&real);
    if fault("parse-flip") && via == "bytes" && class["code"] == "identity" && class["dlen"] == "33_42" {
        real_v = if real_v == "accept" { "reject" } else { "accept" };
    }
    let (same, rt, note) = match (&real, &reference) {
        (Ok(Some(p)), Some(r)) => {
            let same = p.to_bytes() == r.to_bytes() && p.to_base58() == r.to_base58();
            match catch(|| round_trips(p)) {
                Ok(Ok(())) => (same, !fault("rt-break"), String::new()),
                Ok(Err(leg)) => (same, false, format!("round trip failed: {leg}")),
                Err(p) => (same, false, format!("round trip panicked: {p}")),
            }
        }
        (Err(p), _) => (false, false, p.clone()),
        _ => (false, false, String::new()),
    };
    json!({"e": "parse", "c": class, "via": via, "real": real_v, "ref": if reference.is_some() { "accept" } else { "reject" },
           "same": same, "rt": rt, "input": input, "note": note})
}

struct ParseInput {
    bytes: Vec<u8>,
    text: String,
}

fn varint_form(v: u64, form: &str, damaged: bool, rng: &mut StdRng) -> Vec<u8> {
    if !damaged {
        return uvarint(v);
    }
    match form {
        "minimal" => uvarint(v),
        "nonminimal" => uvarint_padded(v, rng.gen_range(1..5)),
        "overflow" => {
            let mut o: Vec<u8> = (0..9).map(|i| 0x80 | ((v >> (7 * i)) & 0x7f) as u8).collect();
            o.push(((v >> 63) as u8 & 1) | *[0x02u8, 0x04, 0x40, 0x7e].choose(rng).unwrap());
            o
        }
        "toolong" => {
            let mut o = vec![0x80 | (v as u8 & 0x7f)];
            o.extend(std::iter::repeat(0x80).take(9 + rng.gen_range(0..3)));
            o.push(0x01);
            o
        }
        other => panic!("vform {other}"),
    }
}

fn concretise_parse(c: &Value, rng: &mut StdRng) -> ParseInput {
    let s = |k: &str| c[k].as_str().unwrap_or_else(|| panic!("class field {k}"));
    if s("text") == "empty" {
        return ParseInput { bytes: vec![], text: String::new() };
    }
    let code: u64 = match s("code") {
        "identity" => 0x00,
        "sha2_256" => 0x12,
        "otherknown" => *[0x11u64, 0x13, 0x14, 0x16, 0x1b, 0xb220, 0xb240, 0x1e, 0x56].choose(rng).unwrap(),
        _ => *[0x01u64, 0x7777, 0x3f_ffff, 0xdead_beef, u64::MAX, 0x1f].choose(rng).unwrap(),
    };
    let declared: usize = match s("dlen") {
        "0" => 0,
        "1_31" => rng.gen_range(1..32),
        "32" => 32,
        "33_42" => *[33usize, 42, rng.gen_range(33..43)].choose(rng).unwrap(),
        "43_64" => *[43usize, 64, rng.gen_range(43..65)].choose(rng).unwrap(),
        _ => *[65usize, 127, 128, 255, 256, 300, rng.gen_range(65..2000)].choose(rng).unwrap(),
    };
    let actual = match s("decl") {
        "eq" => declared,
        "short" => declared - rng.gen_range(1..=declared),
        _ => declared + rng.gen_range(1..4),
    };
    let damage_code: bool = rng.gen();
    let mut bytes = varint_form(code, s("vform"), damage_code, rng);
    bytes.extend(varint_form(declared as u64, s("vform"), !damage_code, rng));
    // a digest that looks like a real key encoding half of the time
    let mut digest = rand_bytes(rng, actual);
    if actual >= 4 && rng.gen() {
        digest[..4].copy_from_slice(&[0x08, 0x01, 0x12, (actual - 4) as u8]);
    }
    bytes.extend(digest);
    let mut text = bs58::encode(&bytes).into_string();
    if s("text") == "badalphabet" {
        let bad = *['0', 'O', 'I', 'l', ' ', '+', '/', '=', '\n', 'é', '\u{0}'].choose(rng).unwrap();
        let at = if text.is_empty() { 0 } else { rng.gen_range(0..=text.chars().count()) };
        let idx = text.char_indices().nth(at).map(|(i, _)| i).unwrap_or(text.len());
        text.insert(idx, bad);
    }
    ParseInput { bytes, text }
}

fn run_parse(c: &Value, rng: &mut StdRng, lines: &mut Vec<String>) {
    let inp = concretise_parse(c, rng);
    let (b, t) = (&inp.bytes, &inp.text);
    let text_ok = c["text"] == "valid";
    // bytes (only meaningful when the text form did not alter the bytes: the class of the
    // bytes is the same for every text form, so it is judged under the `valid` text classes)
    if text_ok || c["text"] == "empty" {
        let real = catch(|| PeerId::from_bytes(b).ok());
        lines.push(jline(parse_event(c, "bytes", hex::encode(b), real, Ref::from_bytes(b).ok())));
        let real = catch(|| PeerId::deserialize(BinDe(b)).ok());
        lines.push(jline(parse_event(c, "serde_bin", hex::encode(b), real, Ref::from_bytes(b).ok())));
        // binary multiaddress: /p2p component (code 421) carrying the multihash, bare or after /ip4/tcp
        let mut ma = if rng.gen() { vec![] } else { Multiaddr::empty().with(Protocol::Ip4([10, 0, 0, 1].into())).with(Protocol::Tcp(30333)).to_vec() };
        ma.extend(uvarint(421));
        ma.extend(uvarint(b.len() as u64));
        ma.extend_from_slice(b);
        let parsed = catch(|| Multiaddr::try_from(ma.clone()).ok());
        let (real, reference) = match parsed {
            Err(p) => (Err(p), None),
            Ok(Some(addr)) => {
                let r = match addr.iter().last() {
                    Some(Protocol::P2p(r)) => Some(r),
                    _ => None,
                };
                (catch(|| PeerId::try_from_multiaddr(&addr)), r)
            }
            // the multiaddress itself is refused: litep2p must refuse the same multihash
            Ok(None) => (catch(|| PeerId::from_bytes(b).ok()), None),
        };
        lines.push(jline(parse_event(c, "multiaddr", hex::encode(&ma), real, reference)));
    }
    let real = catch(|| PeerId::from_str(t).ok());
    lines.push(jline(parse_event(c, "text", t.clone(), real, Ref::from_str(t).ok())));
    let js = serde_json::to_string(t).unwrap();
    let real = catch(|| serde_json::from_str::<PeerId>(&js).ok());
    lines.push(jline(parse_event(c, "serde_text", js, real, Ref::from_str(t).ok())));
    // textual multiaddress
    let ma_text = format!("/ip4/127.0.0.1/tcp/1/p2p/{t}");
    if !t.contains('/') {
        let parsed = catch(|| ma_text.parse::<Multiaddr>().ok());
        let (real, reference) = match parsed {
            Err(p) => (Err(p), None),
            Ok(Some(addr)) => {
                let r = match addr.iter().last() {
                    Some(Protocol::P2p(r)) => Some(r),
                    _ => None,
                };
                (catch(|| PeerId::try_from_multiaddr(&addr)), r)
            }
            Ok(None) => (catch(|| PeerId::from_str(t).ok()), None),
        };
        // reached through text: judged against the text verdict of the class
        lines.push(jline(parse_event(c, "text", ma_text, real, reference)));
    }
}

/// Position of the peer id inside a multiaddress: an address of layout class `c`, built from
/// components, in binary and textual form, through `PeerId::try_from_multiaddr`.
fn run_maddr(c: &Value, rng: &mut StdRng, lines: &mut Vec<String>) {
    let fresh = |rng: &mut StdRng| -> PeerId {
        match rng.gen_range(0..3) {
            0 => PeerId::from_public_key_protobuf(&rand_bytes(rng, 36)),   // inlined key
            1 => PeerId::from_public_key_protobuf(&rand_bytes(rng, 80)),   // hashed key
            _ => PeerId::from_bytes(&[vec![0x00, 0x20], rand_bytes(rng, 32)].concat()).unwrap(),
        }
    };
    let (a, b) = (fresh(rng), fresh(rng));
    let base = match rng.gen_range(0..3) {
        0 => Multiaddr::empty().with(Protocol::Ip4(rng.gen::<[u8; 4]>().into())).with(Protocol::Tcp(rng.gen())),
        1 => Multiaddr::empty().with(Protocol::Ip6(rng.gen::<[u8; 16]>().into())).with(Protocol::Udp(rng.gen())).with(Protocol::QuicV1),
        _ => Multiaddr::empty().with(Protocol::Dns("relay.example.org".into())).with(Protocol::Tcp(443)),
    };
    let follow = |addr: Multiaddr, what: &str, rng: &mut StdRng| -> Multiaddr {
        match what {
            "last" => addr,
            "circuit" => addr.with(Protocol::P2pCircuit),
            _ => match rng.gen_range(0..3) {
                0 => addr.with(Protocol::Ws("/".into())),
                1 => addr.with(Protocol::Tcp(rng.gen())),
                _ => addr.with(Protocol::Ip4(rng.gen::<[u8; 4]>().into())),
            },
        }
    };
    let n = c["n"].as_u64().unwrap();
    let mut addr = base;
    if n == 0 {
        addr = follow(addr, c["f"].as_str().unwrap(), rng);
    } else {
        addr = follow(addr.with(Protocol::P2p(a.into())), c["f"].as_str().unwrap(), rng);
    }
    if n == 2 {
        let second = if c["same"].as_bool().unwrap() { a } else { b };
        addr = follow(addr.with(Protocol::P2p(second.into())), c["s"].as_str().unwrap(), rng);
    }
    let extra = fresh(rng);
    for form in ["struct", "binary", "text"] {
        let parsed: Option<Multiaddr> = match form {
            "struct" => Some(addr.clone()),
            "binary" => Multiaddr::try_from(addr.to_vec()).ok(),
            _ => addr.to_string().parse().ok(),
        };
        let Some(m) = parsed else { panic!("harness bug: multiaddress {addr} does not re-parse ({form})") };
        let got = match catch(|| PeerId::try_from_multiaddr(&m)) {
            Err(_) => "panic",
            Ok(None) => "none",
            Ok(Some(p)) if p == a => "A",
            Ok(Some(p)) if p == b => "B",
            Ok(Some(_)) => "other",
        };
        // appending /p2p/<p> to any address and reading back gives p, in every form
        let append_rt = catch(|| {
            let with = m.clone().with(Protocol::P2p(extra.into()));
            PeerId::try_from_multiaddr(&with) == Some(extra)
                && Multiaddr::try_from(with.to_vec()).ok().and_then(|x| PeerId::try_from_multiaddr(&x)) == Some(extra)
                && with.to_string().parse::<Multiaddr>().ok().and_then(|x| PeerId::try_from_multiaddr(&x)) == Some(extra)
        })
        .unwrap_or(false);
        let got = if fault("maddr-first") && n >= 1 { "A" } else { got };
        // the library's own appender
        let (new_got, new_ok) = catch(|| {
            use litep2p::verif::addr::AddressRecord;
            let rec = AddressRecord::new(&extra, m.clone(), 0);
            let ends_with_p2p = matches!(m.iter().last(), Some(Protocol::P2p(_)));
            let expect = if ends_with_p2p { m.clone() } else { m.clone().with(Protocol::P2p(extra.into())) };
            let g = match PeerId::try_from_multiaddr(rec.address()) {
                None => "none",
                Some(p) if p == extra => "P",
                Some(p) if p == a => "A",
                Some(p) if p == b => "B",
                Some(_) => "other",
            };
            (g, rec.address() == &expect && AddressRecord::from_multiaddr(rec.address().clone()).is_some())
        })
        .unwrap_or(("panic", false));
        lines.push(jline(json!({"e": "maddr", "c": c, "form": form, "got": got, "append_rt": append_rt, "new_got": new_got, "new_ok": new_ok,
                                "addr": m.to_string()})));
    }
}

fn expected_id(enc: &[u8]) -> Vec<u8> {
    if enc.len() <= 42 {
        let mut v = vec![0x00, enc.len() as u8];
        v.extend_from_slice(enc);
        v
    } else {
        let mut v = vec![0x12, 0x20];
        v.extend_from_slice(&sha256(enc));
        v
    }
}

fn derive_event(class: Value, enc: &[u8], key: Option<[u8; 32]>) -> Value {
    let real = catch(|| PeerId::from_public_key_protobuf(enc));
    let (got, bytes_ok, mut ref_ok, rt, note) = match &real {
        Err(p) => ("panic", false, false, false, p.clone()),
        Ok(p) => {
            let b = p.to_bytes();
            let got = match b.first() {
                Some(0x00) => "identity",
                Some(0x12) => "sha2_256",
                _ => "other",
            };
            let expect = expected_id(enc);
            let reference = Ref::from_bytes(&expect).ok();
            let ref_ok = reference.map(|r| r.to_bytes() == b && r.to_base58() == p.to_base58()).unwrap_or(false);
            let (rt, note) = match catch(|| round_trips(p)) {
                Ok(Ok(())) => (true, String::new()),
                Ok(Err(leg)) => (false, format!("round trip failed: {leg}")),
                Err(pn) => (false, format!("round trip panicked: {pn}")),
            };
            (got, b == expect, ref_ok, rt, note)
        }
    };
    let mut note = note;
    if let (Some(k), Ok(p)) = (key, &real) {
        // a real ed25519 key: the reference derives the id from the key itself
        let ours = catch(|| {
            let pk = ed25519::PublicKey::try_from_bytes(&k).ok()?;
            let public = PublicKey::Ed25519(pk);
            Some((public.to_protobuf_encoding(), public.to_peer_id(), PeerId::from_public_key(&public), p.is_public_key(&public)))
        });
        let theirs = libp2p_identity::ed25519::PublicKey::try_from_bytes(&k).ok().map(libp2p_identity::PublicKey::from);
        match (ours, theirs) {
            (Ok(Some((enc2, id1, id2, is))), Some(t)) => {
                if enc2 != t.encode_protobuf() || enc2 != enc {
                    ref_ok = false;
                    note = "protobuf encoding of the key differs from the reference".into();
                }
                if id1 != *p || id2 != *p || t.to_peer_id().to_bytes() != p.to_bytes() || is != Some(true) {
                    ref_ok = false;
                    note = "peer id of the key differs from the reference".into();
                }
            }
            (Ok(None), None) => {}
            (o, t) => {
                ref_ok = false;
                note = format!("key acceptance differs: litep2p {:?} reference {}", o.map(|x| x.is_some()), t.is_some());
            }
        }
    }
    json!({"e": "derive", "c": class, "got": if fault("derive-flip") && enc.len() == 42 { "sha2_256" } else { got },
           "bytes_ok": bytes_ok, "ref_ok": ref_ok, "rt": rt, "klen": enc.len(), "enc": hex::encode(enc), "note": note})
}

fn klen_class(n: usize) -> &'static str {
    match n {
        0 => "0",
        1..=41 => "1_41",
        42 => "42",
        43 => "43",
        _ => "44_100",
    }
}

fn main() {
    quiet_panics();
    let args = Args::parse();
    let seed = args.u64("seed", 1);
    let per_class = args.u64("per-class", 50) as usize;
    let classes = read_jsonl(&args.str("classes", "classes.jsonl"));
    let mut lines: Vec<String> = vec![];
    let (mut nparse, mut nderive) = (0u64, 0u64);
    for (ci, cl) in classes.iter().enumerate() {
        let ci = cl["ci"].as_u64().map(|x| x as usize).unwrap_or(ci);
        let mut rng = rng_for(seed, ci as u64);
        lines.push(jline(json!({"e": "reset", "ci": ci, "kind": cl["kind"]})));
        let c = &cl["c"];
        if cl["kind"] == "parse" {
            for _ in 0..per_class {
                run_parse(c, &mut rng, &mut lines);
                nparse += 1;
            }
        } else if cl["kind"] == "maddr" {
            for _ in 0..per_class {
                run_maddr(c, &mut rng, &mut lines);
                nparse += 1;
            }
        } else if c["kind"] == "ed25519" {
            for i in 0..per_class * 4 {
                // keys from seeds, plus the small-order / non-canonical encodings
                let k: [u8; 32] = if i < 8 {
                    let mut e = [0u8; 32];
                    match i {
                        0 => e[0] = 1,                                  // identity point
                        1 => {}                                         // order 4: y = 0
                        2 => { e[0] = 0xec; e[1..31].fill(0xff); e[31] = 0x7f } // order 2: y = -1
                        3 => { e[31] = 0x80 }                           // y = 0, sign bit set
                        4 => { e.fill(0xff) }                           // non-canonical y
                        5 => { e[0] = 0xee; e[1..31].fill(0xff); e[31] = 0x7f } // y = p + 1
                        6 => { e[0] = 1; e[31] = 0x80 }                 // identity, sign bit
                        _ => { e[0] = 0xed; e[1..31].fill(0xff); e[31] = 0x7f } // y = p
                    }
                    e
                } else {
                    let sk = ed25519_dalek::SigningKey::from_bytes(&rng.gen::<[u8; 32]>());
                    sk.verifying_key().to_bytes()
                };
                let mut enc = vec![0x08, 0x01, 0x12, 0x20];
                enc.extend_from_slice(&k);
                // encodings of keys litep2p itself refuses are still blobs of 36 bytes
                lines.push(jline(derive_event(c.clone(), &enc, Some(k))));
                nderive += 1;
            }
        } else {
            // every length of the class, `per_class` blobs each (random, and shaped like a key message)
            for n in (0..=100usize).filter(|n| klen_class(*n) == c["klen"].as_str().unwrap()) {
                let reps = if c["klen"] == "44_100" || c["klen"] == "1_41" { (per_class / 8).max(2) } else { per_class };
                for r in 0..reps {
                    let mut enc = rand_bytes(&mut rng, n);
                    if r % 2 == 1 && n >= 4 {
                        enc[..4].copy_from_slice(&[0x08, *[0u8, 1, 2, 3, 9].choose(&mut rng).unwrap(), 0x12, (n - 4) as u8]);
                    }
                    lines.push(jline(derive_event(c.clone(), &enc, None)));
                    nderive += 1;
                }
            }
        }
    }
    write_lines(&args.str("out", "trace.ndjson"), &lines);
    println!("SUMMARY {}", json!({"events": lines.len(), "parse_inputs": nparse, "derive_inputs": nderive, "classes": classes.len()}));
}
