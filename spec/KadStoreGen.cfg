SPECIFICATION Spec
CONSTANTS
  Keys = {"k0", "k1"}
  Provs = {"p0", "p1", "p2"}
  Sizes = {1, 3}
  Exps <- ExpsDef
  MaxNow = 1
  MaxOps = 3
  CMaxRecords = 1
  CMaxSize = 2
  CMaxProvKeys = 1
  CMaxProvPerKey = 2
  CMaxAddrs = 1
  NAddrs = {0, 2}
VIEW View
ACTION_CONSTRAINT Emit
CHECK_DEADLOCK FALSE
