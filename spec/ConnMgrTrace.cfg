SPECIFICATION TSpec
CONSTANTS
  Peers = {"p1", "p2", "p3"}
  AddrsOf <- AddrsDef
  Limits <- LimNone
  MaxCid = 1000000
  WsAddrs <- WsDef
  Fixed <- FixedNow
POSTCONDITION Accepted
CHECK_DEADLOCK FALSE
