----------------------------- MODULE NoiseHSMC -----------------------------
(* The finite scenario product of NoiseHS, explored completely by TLC: for  *)
(* every scenario the symbolic handshake is executed step by step and the    *)
(* outcome is checked against the Prop layer; one behaviour per scenario is  *)
(* emitted for the conformance harness.                                      *)
EXTENDS NoiseHS, TLC, Json

CONSTANTS Chunks, RoguePayloads

Fields(k) == CASE k = 1 -> {"len", "e"}
               [] k = 2 -> {"len", "e", "encS", "encPayload", "tag"}
               [] k = 3 -> {"len", "encS", "encPayload", "tag"}
Pass == [msg |-> 0, move |-> "pass", field |-> "none"]
Moves == {Pass}
  \cup {[msg |-> k, move |-> "corrupt", field |-> f] : k \in 1..3, f \in {"len", "e", "encS", "encPayload", "tag"}}
  \cup {[msg |-> k, move |-> mv, field |-> "none"] : k \in 1..3, mv \in {"truncadj", "truncraw", "extend", "substitute", "drop"}}
  \cup {[msg |-> 3, move |-> "replay", field |-> "none"]}
ValidMove(m) == m.move = "corrupt" => m.field \in Fields(m.msg)

Scenarios ==
  {[peer |-> "honest", impl |-> "litep2p", trole |-> "both", pv |-> "none", mitm |-> m, dialed |-> "none", dialedForm |-> "none", chunk |-> c] :
      m \in {x \in Moves : ValidMove(x)}, c \in Chunks}
  \cup {[peer |-> "honest", impl |-> "libp2p", trole |-> r, pv |-> "none", mitm |-> m, dialed |-> "none", dialedForm |-> "none", chunk |-> c] :
      r \in {"dialer", "listener"}, m \in {x \in Moves : ValidMove(x)}, c \in Chunks}
  \* dialed-peer expectations: the right key / another key, each as inline and as SHA-256-form peer id
  \cup {[peer |-> "honest", impl |-> "litep2p", trole |-> "dialer", pv |-> "none", mitm |-> Pass, dialed |-> dl, dialedForm |-> f, chunk |-> "whole"] :
      dl \in {"B", "C"}, f \in {"inline", "sha256"}}
  \cup {[peer |-> "rogue", impl |-> "snow", trole |-> r, pv |-> pv, mitm |-> Pass, dialed |-> "none", dialedForm |-> "none", chunk |-> c] :
      r \in {"dialer", "listener"}, pv \in RoguePayloads, c \in Chunks}

VARIABLES sc, pc, d, l, wire, m1
vars == <<sc, pc, d, l, wire, m1>>

Init == /\ sc \in Scenarios
        /\ pc = 0 /\ d = Ep0 /\ l = Ep0 /\ wire = NoMsg /\ m1 = NoMsg

Honest(side) == Kind(sc, side) = "honest"
\* a rogue endpoint completes Noise but verifies nothing
Finish(side, ep) == IF ep.st # "run" THEN ep ELSE IF Honest(side) THEN Verify(sc, side, ep) ELSE [ep EXCEPT !.st = "ok"]

Step ==
  \/ /\ pc = 0
     /\ LET w == Write1(sc, d) IN d' = w.ep /\ wire' = Mitm(sc, 1, w.m, w.m) /\ m1' = w.m
     /\ UNCHANGED l
  \/ /\ pc = 1
     /\ l' = IF wire.len = "none" THEN Fail(l) ELSE Read1(sc, l, wire)
     /\ UNCHANGED <<d, wire, m1>>
  \/ /\ pc = 2
     /\ IF l.st = "run" THEN LET w == Write2(sc, l) IN l' = w.ep /\ wire' = Mitm(sc, 2, w.m, m1)
                        ELSE l' = l /\ wire' = NoMsg
     /\ UNCHANGED <<d, m1>>
  \/ /\ pc = 3
     /\ d' = IF wire.len = "none" THEN Fail(d) ELSE Read2(sc, d, wire)
     /\ UNCHANGED <<l, wire, m1>>
  \/ /\ pc = 4    \* the dialer sends its payload, then verifies the listener's
     /\ IF d.st = "run" THEN LET w == Write3(sc, d) IN d' = Finish("d", w.ep) /\ wire' = Mitm(sc, 3, w.m, m1)
                        ELSE d' = d /\ wire' = NoMsg
     /\ UNCHANGED <<l, m1>>
  \/ /\ pc = 5
     /\ l' = IF l.st # "run" THEN l
             ELSE IF wire.len = "none" THEN Fail(l) ELSE Finish("l", Read3(sc, l, wire))
     /\ UNCHANGED <<d, wire, m1>>

Next == pc < 6 /\ Step /\ pc' = pc + 1 /\ UNCHANGED sc
Spec == Init /\ [][Next]_vars

Done == pc = 6
Ep(side) == IF side = "d" THEN d ELSE l
RoleOf(side) == IF side = "d" THEN "dialer" ELSE "listener"

\* the Impl layer produces only outcomes the Prop layer permits
Refines == Done => \A side \in {"d", "l"} : Honest(side) => Outcome(Ep(side)) \in Allowed(sc, RoleOf(side))

\* C01 stated directly over the symbolic state
Auth == Done => \A side \in {"d", "l"} : (Honest(side) /\ Ep(side).st = "ok") =>
  LET ep == Ep(side)  o == Other(side) IN
  /\ ep.peer = IdOf(sc, o)                                   \* the remote holds the identity key of P
  /\ ep.pl.sig.by = IdOf(sc, o)                               \* ... and signed ...
  /\ ep.pl.sig.over = <<"prefix", StaticOf(sc, o)>>           \* ... the static key of this very session
  /\ ep.rs = StaticOf(sc, o)
  /\ (side = "d" /\ sc.dialed # "none" => sc.dialed = ep.peer /\ sc.dialedForm = "inline")   \* the dialed id is the proven id
  /\ (sc.mitm.msg = 0 \/ (side = "d" /\ sc.mitm.msg = 3))    \* no altered byte it could have seen
NoHang == Done => \A side \in {"d", "l"} : Ep(side).st # "run"
Agreement == Done /\ d.st = "ok" /\ l.st = "ok" => d.ss = l.ss

Emit == (pc' = 6) => PrintT(<<"B", ToJson([sc |-> sc, exp |-> [dialer |-> Outcome(d'), listener |-> Outcome(l')]])>>)
=============================================================================
