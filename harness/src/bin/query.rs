//! C15: drive the real `QueryEngine` (a synchronous state machine) with environment schedules:
//! TLC-generated behaviours of the bounded model (every reply / failure / ordering pattern of
//! small networks) and seeded random schedules over larger random networks with lying peers.
//! Every call and its result is recorded; abstract peer numbers are ranks of real peer ids by
//! their real XOR distance to the real target, computed here (`vharness::{sha256, xor32}`).
use litep2p::{verif::kad::*, PeerId};
use rand::{rngs::StdRng, Rng, SeedableRng};
use serde_json::{json, Value};
use std::cell::RefCell;
use std::collections::{BTreeSet, HashMap, VecDeque};
use std::rc::Rc;
use std::num::NonZeroUsize;
use std::sync::{Arc, Mutex};
use std::time::{Duration, Instant};
use vharness::*;

fn mk_peer(rng: &mut StdRng) -> PeerId {
    let mut b = [0u8; 34];
    b[1] = 32;
    rng.fill(&mut b[2..]);
    PeerId::from_bytes(&b).expect("identity peer id")
}

struct World {
    local: PeerId,
    target_peer: PeerId,
    key: RecordKey,
    /// rank i (1-based) -> peers[i - 1]
    peers: Vec<PeerId>,
    rank: HashMap<PeerId, i64>,
}

impl World {
    /// `subkind` decides which target the distances refer to: the hash of the target peer id
    /// (find_node) or the hash of the record key (everything else).
    fn new(n: usize, by_peer_target: bool, rng: &mut StdRng) -> World {
        let local = mk_peer(rng);
        let peers: Vec<PeerId> = (0..n).map(|_| mk_peer(rng)).collect();
        Self::with(local, peers, by_peer_target, rng)
    }

    /// A world over given peers: a fresh target, the peers ranked by their distance to it.
    fn with(local: PeerId, mut peers: Vec<PeerId>, by_peer_target: bool, rng: &mut StdRng) -> World {
        let target_peer = mk_peer(rng);
        let mut kb = vec![0u8; 12];
        rng.fill(&mut kb[..]);
        let key = RecordKey::from(kb.clone());
        let th = if by_peer_target { sha256(&target_peer.to_bytes()) } else { sha256(&kb) };
        peers.sort_by_key(|p| xor32(&sha256(&p.to_bytes()), &th));
        let mut rank = HashMap::new();
        rank.insert(local, 0);
        for (i, p) in peers.iter().enumerate() {
            rank.insert(*p, i as i64 + 1);
        }
        World { local, target_peer, key, peers, rank }
    }
    fn peer(&self, r: i64) -> PeerId {
        if r == 0 {
            self.local
        } else {
            self.peers[r as usize - 1]
        }
    }
    fn kad(&self, r: i64) -> KademliaPeer {
        KademliaPeer::new(self.peer(r), vec![], ConnectionType::NotConnected)
    }
    fn r(&self, p: &PeerId) -> i64 {
        *self.rank.get(p).unwrap_or(&-1)
    }
}

#[derive(Clone, Debug)]
struct Cfg {
    sub: String, // find_node put_record add_provider get_record get_providers put_track prov_track
    alpha: usize,
    repl: usize,
    need: usize,
    localrec: bool,
    known: Vec<i64>,
    init: Vec<i64>,
    n: usize,
}

impl Cfg {
    fn kind(&self) -> &'static str {
        match self.sub.as_str() {
            "find_node" | "put_record" | "add_provider" => "find",
            "get_record" => "get",
            "get_providers" => "prov",
            _ => "track",
        }
    }
    fn quorum(&self) -> Quorum {
        if self.need <= 1 {
            Quorum::One
        } else if self.kind() == "get" && self.need == self.repl {
            Quorum::All
        } else {
            Quorum::N(NonZeroUsize::new(self.need).unwrap())
        }
    }
    /// what the configured quorum means in numbers (documented semantics of `Quorum`)
    fn need_effective(&self) -> usize {
        match (self.kind(), self.quorum()) {
            ("get", Quorum::One) => 1,
            ("get", Quorum::All) => self.repl,
            ("get", Quorum::N(n)) => n.get(),
            ("track", Quorum::One) => 1,
            ("track", Quorum::All) => self.init.len().max(1),
            ("track", Quorum::N(n)) => n.get().min(self.init.len().max(1)),
            _ => 0,
        }
    }
}

struct Run<'a> {
    w: &'a World,
    c: Cfg,
    q: QueryId,
    engine: Rc<RefCell<QueryEngine>>,
    inflight: BTreeSet<i64>,
    contacted: BTreeSet<i64>,
    term: bool,
    lines: Vec<String>,
    events: u64,
    sends: u64,
    fails: usize,
    fault: Option<String>,
    terminal: Option<String>,
}

impl<'a> Run<'a> {
    fn start(w: &'a World, c: Cfg, b: usize, src: &str, fault: Option<String>) -> Run<'a> {
        let engine = Rc::new(RefCell::new(QueryEngine::new(w.local, c.repl, c.alpha)));
        Self::start_in(engine, QueryId(7 + b % 5), w, c, b, src, fault)
    }

    /// Start the lookup `q` in an existing engine (several lookups may share one engine).
    fn start_in(engine_rc: Rc<RefCell<QueryEngine>>, q: QueryId, w: &'a World, c: Cfg, b: usize, src: &str, fault: Option<String>) -> Run<'a> {
        let mut engine = engine_rc.borrow_mut();
        let cands: VecDeque<KademliaPeer> = c.init.iter().map(|r| w.kad(*r)).collect();
        let value = vec![1u8, 2, 3];
        match c.sub.as_str() {
            "find_node" => {
                engine.start_find_node(q, w.target_peer, cands);
            }
            "put_record" => {
                engine.start_put_record(q, Record::new(w.key.clone(), value), cands, c.quorum());
            }
            "add_provider" => {
                engine.start_add_provider(q, w.key.clone(), ContentProvider { peer: w.local, addresses: vec![] }, cands, c.quorum());
            }
            "get_record" => {
                engine.start_get_record(q, w.key.clone(), cands, c.quorum(), c.localrec);
            }
            "get_providers" => {
                let known = c.known.iter().map(|r| ContentProvider { peer: w.peer(*r), addresses: vec![] }).collect();
                engine.start_get_providers(q, w.key.clone(), cands, known);
            }
            "put_track" => engine.start_put_record_to_found_nodes_requests_tracking(q, w.key.clone(), c.init.iter().map(|r| w.peer(*r)).collect(), c.quorum()),
            "prov_track" => engine.start_add_provider_to_found_nodes_requests_tracking(q, w.key.clone(), c.init.iter().map(|r| w.peer(*r)).collect(), c.quorum()),
            other => panic!("unknown query kind {other}"),
        }
        drop(engine);
        let track = c.kind() == "track";
        let mut run = Run {
            w,
            q,
            engine: engine_rc,
            inflight: if track { c.init.iter().cloned().collect() } else { BTreeSet::new() },
            contacted: BTreeSet::new(),
            term: false,
            lines: vec![],
            events: 0,
            sends: 0,
            fails: 0,
            fault,
            terminal: None,
            c,
        };
        let c = &run.c;
        let head = json!({"e": "reset", "b": b, "src": src, "sub": c.sub,
            "cfg": {"kind": c.kind(), "alpha": c.alpha, "repl": c.repl, "need": c.need_effective(), "localrec": c.localrec as i64,
                    "known": c.known, "init": c.init},
            "n": c.n, "st": run.state()});
        run.lines.push(head.to_string());
        run
    }

    /// projection of the real context, in ranks
    fn state(&self) -> Value {
        let Some(s) = self.engine.borrow().verif_query_state(self.q) else {
            return json!({"done": 1});
        };
        let set = |v: &Vec<PeerId>| -> Vec<i64> {
            let mut o: Vec<i64> = v.iter().map(|p| self.w.r(p)).collect();
            o.sort();
            o
        };
        let mut provs = set(&s.found_providers);
        provs.dedup();
        json!({"done": 0, "cand": set(&s.candidates), "pend": set(&s.pending), "qd": set(&s.queried), "resp": set(&s.responses),
               "pr": s.pending_responses, "found": s.found_records, "recq": s.queued_records.iter().map(|p| self.w.r(p)).collect::<Vec<_>>(),
               "provs": provs, "tsucc": s.succeeded})
    }

    fn log(&mut self, o: Value, ret: Value) {
        self.events += 1;
        let st = self.state();
        self.lines.push(json!({"e": "op", "o": o, "ret": ret, "st": st}).to_string());
    }

    /// `next_action`, recorded. Returns the kind of action.
    fn next(&mut self) -> String {
        let act = self.poll();
        self.record_next(act)
    }

    fn poll(&mut self) -> Result<Option<QueryAction>, String> {
        let mut engine = self.engine.borrow_mut();
        catch(|| engine.next_action())
    }

    /// Record the result of a `next_action` call that concerns this lookup.
    fn record_next(&mut self, act: Result<Option<QueryAction>, String>) -> String {
        let act = match act {
            Ok(a) => a,
            Err(msg) => {
                self.lines.push(json!({"e": "panic", "o": {"op": "next"}, "msg": msg}).to_string());
                self.term = true;
                return "panic".into();
            }
        };
        let ranks = |v: &Vec<KademliaPeer>| -> Vec<i64> { v.iter().map(|p| self.w.r(&peer_info(p).0)).collect() };
        let mut ret = match &act {
            None => json!({"a": "none", "p": 0, "peers": [], "provs": []}),
            Some(QueryAction::SendMessage { peer, .. }) => json!({"a": "send", "p": self.w.r(peer), "peers": [], "provs": []}),
            Some(QueryAction::FindNodeQuerySucceeded { peers, .. }) => json!({"a": "ok", "p": 0, "peers": ranks(peers), "provs": []}),
            Some(QueryAction::PutRecordToFoundNodes { peers, .. }) => json!({"a": "ok", "p": 0, "peers": ranks(peers), "provs": []}),
            Some(QueryAction::AddProviderToFoundNodes { peers, .. }) => json!({"a": "ok", "p": 0, "peers": ranks(peers), "provs": []}),
            Some(QueryAction::GetRecordPartialResult { record, .. }) => json!({"a": "partial", "p": self.w.r(&record.peer), "peers": [], "provs": []}),
            Some(QueryAction::GetProvidersQueryDone { providers, .. }) => {
                json!({"a": "ok", "p": 0, "peers": [], "provs": providers.iter().map(|p| self.w.r(&p.peer)).collect::<Vec<_>>()})
            }
            Some(QueryAction::GetRecordQueryDone { .. })
            | Some(QueryAction::PutRecordQuerySucceeded { .. })
            | Some(QueryAction::AddProviderQuerySucceeded { .. })
            | Some(QueryAction::QuerySucceeded { .. }) => json!({"a": "ok", "p": 0, "peers": [], "provs": []}),
            Some(QueryAction::QueryFailed { .. }) => json!({"a": "failed", "p": 0, "peers": [], "provs": []}),
        };
        // harness-internal mutations (self-test of the check, never on by default)
        match self.fault.as_deref() {
            Some("resend") if ret["a"] == "none" && !self.term && self.events % 3 == 0 && !self.contacted.is_empty() => {
                ret = json!({"a": "send", "p": *self.contacted.iter().next().unwrap(), "peers": [], "provs": []});
            }
            Some("unsorted") if ret["a"] == "ok" && ret["peers"].as_array().unwrap().len() >= 2 => {
                let v = ret["peers"].as_array_mut().unwrap();
                v.swap(0, 1);
            }
            Some("double_terminal") if ret["a"] == "none" && self.term && self.events % 2 == 0 => {
                ret = json!({"a": "failed", "p": 0, "peers": [], "provs": []});
            }
            Some("drop_terminal") if (ret["a"] == "ok" || ret["a"] == "failed") => {
                ret = json!({"a": "none", "p": 0, "peers": [], "provs": []});
            }
            _ => {}
        }
        let a = ret["a"].as_str().unwrap().to_string();
        if a == "send" {
            let p = ret["p"].as_i64().unwrap();
            self.inflight.insert(p);
            self.contacted.insert(p);
            self.sends += 1;
        }
        if a == "ok" || a == "failed" {
            self.term = true;
            self.terminal = Some(a.clone());
        }
        self.log(json!({"op": "next"}), ret);
        a
    }

    fn resp(&mut self, p: i64, peers: &[i64], rec: bool, provs: &[i64]) {
        let kp: Vec<KademliaPeer> = peers.iter().map(|r| self.w.kad(*r)).collect();
        let msg = match self.c.kind() {
            "find" => KademliaMessage::FindNode { target: vec![], peers: kp },
            "get" => KademliaMessage::GetRecord {
                key: Some(self.w.key.clone()),
                record: rec.then(|| Record::new(self.w.key.clone(), vec![p as u8, 42])),
                peers: kp,
            },
            "prov" => KademliaMessage::GetProviders { key: None, peers: kp, providers: provs.iter().map(|r| self.w.kad(*r)).collect() },
            _ => KademliaMessage::PutValue { record: Record::new(self.w.key.clone(), vec![1]) },
        };
        let (q, peer) = (self.q, self.w.peer(p));
        let r = {
            let mut engine = self.engine.borrow_mut();
            catch(|| engine.register_response(q, peer, msg))
        };
        self.inflight.remove(&p);
        let o = json!({"op": "resp", "p": p, "peers": peers, "rec": rec as i64, "provs": provs});
        match r {
            Ok(()) => self.log(o, json!("ok")),
            Err(msg) => self.lines.push(json!({"e": "panic", "o": o, "msg": msg}).to_string()),
        }
    }

    fn simple(&mut self, op: &str, p: i64) {
        let (q, peer) = (self.q, self.w.peer(p));
        // every third failed response is a lying peer's reply of the wrong message kind (a decodable Kademlia
        // message that does not answer the request): the engine must treat it like a failed response
        self.fails += (op == "fail") as usize;
        let wrong_kind = op == "fail" && self.fails % 3 == 2;
        let r = {
            let mut engine = self.engine.borrow_mut();
            catch(|| match op {
                "fail" if wrong_kind => {
                    let msg = if self.c.kind() == "find" {
                        KademliaMessage::GetProviders { key: None, peers: vec![], providers: vec![] }
                    } else {
                        KademliaMessage::FindNode { target: vec![], peers: vec![] }
                    };
                    engine.register_response(q, peer, msg)
                }
                "fail" => engine.register_response_failure(q, peer),
                "sendok" => engine.register_send_success(q, peer),
                "sendfail" => engine.register_send_failure(q, peer),
                "peerfail" => engine.register_peer_failure(q, peer),
                _ => unreachable!(),
            })
        };
        self.inflight.remove(&p);
        // register_peer_failure = send failure + response failure (Kademlia::disconnect_peer)
        let name = if op == "peerfail" { if self.c.kind() == "track" { "sendfail" } else { "fail" } } else { op };
        let o = json!({"op": name, "p": p});
        match r {
            Ok(()) => self.log(o, json!("ok")),
            Err(msg) => self.lines.push(json!({"e": "panic", "o": o, "msg": msg}).to_string()),
        }
    }

    /// If nothing is outstanding and the engine has nothing to do, record the quiescence.
    fn quiesce(&mut self) -> bool {
        if !self.inflight.is_empty() {
            return false;
        }
        let a = self.next();
        if a == "none" {
            self.log(json!({"op": "quiesce"}), json!("ok"));
            return true;
        }
        false
    }

    /// Complete the execution: the environment eventually answers every request.
    fn drain(&mut self, honest: &dyn Fn(i64) -> Vec<i64>, rng: &mut StdRng) {
        let mut guard = 0;
        loop {
            guard += 1;
            if guard > 40 * (self.c.n + 4) {
                break; // the trace then ends without a quiesce event; nothing is claimed
            }
            let a = self.next();
            if a == "panic" {
                return;
            }
            if a != "none" {
                continue;
            }
            if self.inflight.is_empty() {
                self.log(json!({"op": "quiesce"}), json!("ok"));
                break;
            }
            let v: Vec<i64> = self.inflight.iter().cloned().collect();
            let p = v[rng.gen_range(0..v.len())];
            if self.c.kind() == "track" {
                self.simple(if rng.gen_range(0..3) == 0 { "sendfail" } else { "sendok" }, p);
            } else if rng.gen_range(0..5) == 0 {
                self.simple("fail", p);
            } else {
                let peers = honest(p);
                self.resp(p, &peers, false, &[]);
            }
        }
        // after the end: the engine must stay silent
        if self.term {
            self.next();
            self.next();
        }
    }
}

fn ints(v: &Value) -> Vec<i64> {
    v.as_array().map(|a| a.iter().map(|x| x.as_i64().unwrap()).collect()).unwrap_or_default()
}

fn run_behaviour(b: usize, beh: &Value, seed: u64, fault: &Option<String>) -> Run<'static> {
    let cfg = &beh["cfg"];
    let kind = cfg["kind"].as_str().unwrap();
    // the model has four kinds; the engine has seven entry points - rotate through them
    let sub = match kind {
        "find" => ["find_node", "put_record", "add_provider"][b % 3],
        "get" => "get_record",
        "prov" => "get_providers",
        _ => ["put_track", "prov_track"][b % 2],
    };
    let c = Cfg {
        sub: sub.into(),
        alpha: cfg["alpha"].as_u64().unwrap() as usize,
        repl: cfg["repl"].as_u64().unwrap() as usize,
        need: cfg["need"].as_u64().unwrap() as usize,
        localrec: cfg["localrec"].as_u64().unwrap() == 1,
        known: ints(&cfg["known"]),
        init: ints(&cfg["init"]),
        n: cfg["n"].as_u64().unwrap() as usize,
    };
    let mut rng = StdRng::seed_from_u64(seed ^ 0x5eed ^ ((b as u64) << 20));
    let w: &'static World = Box::leak(Box::new(World::new(c.n, sub == "find_node", &mut rng)));
    let mut run = Run::start(w, c, b, "tlc", fault.clone());
    for o in beh["ops"].as_array().unwrap() {
        match o["op"].as_str().unwrap() {
            "next" => {
                run.next();
            }
            "resp" => run.resp(o["p"].as_i64().unwrap(), &ints(&o["peers"]), o["rec"].as_i64().unwrap() == 1, &ints(&o["provs"])),
            "fail" => run.simple("fail", o["p"].as_i64().unwrap()),
            x @ ("sendok" | "sendfail") => run.simple(x, o["p"].as_i64().unwrap()),
            "quiesce" => {
                run.quiesce();
            }
            other => panic!("unknown op {other}"),
        }
    }
    run.drain(&|_| vec![], &mut rng);
    run
}

fn run_random(r: usize, seed: u64, fault: &Option<String>) -> Run<'static> {
    let mut rng = StdRng::seed_from_u64(seed.wrapping_mul(0x9e3779b97f4a7c15) ^ (r as u64) << 8 ^ 0xabcd);
    let subs = ["find_node", "get_record", "get_providers", "put_record", "add_provider", "put_track", "find_node", "prov_track", "get_record", "find_node"];
    let sub = subs[r % subs.len()];
    let n = [4usize, 6, 8, 12, 16, 24, 30][rng.gen_range(0..7)];
    let alpha = [1usize, 2, 3, 3, 4, 10][rng.gen_range(0..6)];
    let repl = [1usize, 2, 3, 5, 20][rng.gen_range(0..5)];
    let ninit = rng.gen_range(0..=n.min(5));
    let mut init: Vec<i64> = (0..ninit).map(|_| rng.gen_range(1..=n as i64)).collect();
    init.sort();
    init.dedup();
    let kind_track = sub.ends_with("track");
    let need = if sub == "get_record" {
        [1usize, 1, 2, 3, repl][rng.gen_range(0..5)]
    } else if kind_track {
        [1usize, 2, 3, 50][rng.gen_range(0..4)]
    } else {
        1
    };
    let known: Vec<i64> = if sub == "get_providers" && rng.gen::<bool>() { vec![0, rng.gen_range(1..=n as i64)] } else { vec![] };
    let c = Cfg { sub: sub.into(), alpha, repl, need: need.max(1), localrec: sub == "get_record" && rng.gen_range(0..4) == 0, known, init, n };
    let w: &'static World = Box::leak(Box::new(World::new(n, sub == "find_node", &mut rng)));
    // who knows whom: mostly closer peers (a healthy DHT), some random links
    let mut knows: Vec<Vec<i64>> = vec![vec![]];
    for p in 1..=n as i64 {
        let k = rng.gen_range(0..6usize);
        let mut v: Vec<i64> = (0..k)
            .map(|_| if rng.gen_range(0..3) > 0 && p > 1 { rng.gen_range(1..p) } else { rng.gen_range(1..=n as i64) })
            .collect();
        v.sort();
        v.dedup();
        knows.push(v);
    }
    let liar: Vec<bool> = (0..=n).map(|_| rng.gen_range(0..5) == 0).collect();
    let has_rec: Vec<bool> = (0..=n).map(|_| rng.gen_range(0..3) == 0).collect();
    let provs_of: Vec<Vec<i64>> = (0..=n).map(|_| if rng.gen_range(0..3) == 0 { vec![rng.gen_range(0..=n as i64), rng.gen_range(1..=n as i64)] } else { vec![] }).collect();
    let mut run = Run::start(w, c, r, "random", fault.clone());
    let steps = rng.gen_range(5..(6 * n + 10));
    for _ in 0..steps {
        let infl: Vec<i64> = run.inflight.iter().cloned().collect();
        let x = rng.gen_range(0..100);
        if x < 55 || infl.is_empty() {
            if x >= 97 && !run.contacted.is_empty() && !kind_track {
                // late / duplicate reply from a peer that is no longer outstanding
                let v: Vec<i64> = run.contacted.iter().cloned().collect();
                let p = v[rng.gen_range(0..v.len())];
                if !run.inflight.contains(&p) {
                    let peers = knows[p as usize].clone();
                    run.resp(p, &peers, false, &[]);
                    continue;
                }
            }
            if run.next() == "panic" {
                return run;
            }
            continue;
        }
        let p = infl[rng.gen_range(0..infl.len())];
        if kind_track {
            run.simple(["sendok", "sendok", "sendfail", "peerfail"][rng.gen_range(0..4)], p);
        } else if x < 88 {
            let mut peers = if liar[p as usize] {
                // arbitrary list: the local node, contacted peers, anything
                (0..rng.gen_range(0..8)).map(|_| rng.gen_range(0..=n as i64)).collect()
            } else {
                knows[p as usize].clone()
            };
            peers.sort();
            peers.dedup();
            let mut pv = provs_of[p as usize].clone();
            pv.sort();
            pv.dedup();
            let kind = run.c.kind();
            run.resp(p, &peers, kind == "get" && has_rec[p as usize], if kind == "prov" { &pv } else { &[] });
        } else {
            run.simple(if x < 96 { "fail" } else { "peerfail" }, p);
        }
    }
    let kn = knows.clone();
    run.drain(&move |p| kn[p as usize].clone(), &mut rng);
    run
}

fn action_query(a: &QueryAction) -> QueryId {
    match a {
        QueryAction::SendMessage { query, .. }
        | QueryAction::FindNodeQuerySucceeded { query, .. }
        | QueryAction::PutRecordToFoundNodes { query, .. }
        | QueryAction::PutRecordQuerySucceeded { query, .. }
        | QueryAction::AddProviderToFoundNodes { query, .. }
        | QueryAction::AddProviderQuerySucceeded { query, .. }
        | QueryAction::QuerySucceeded { query }
        | QueryAction::QueryFailed { query } => *query,
        QueryAction::GetRecordQueryDone { query_id }
        | QueryAction::GetRecordPartialResult { query_id, .. }
        | QueryAction::GetProvidersQueryDone { query_id, .. } => *query_id,
    }
}

/// Two lookups in one engine (`QueryEngine.queries`): every `next_action` result belongs to one
/// of them (or, if `None`, to both); each lookup's projection of the joint execution is recorded
/// as its own segment and must on its own be a lookup C15 allows.
fn run_pair(r: usize, seed: u64, fault: &Option<String>) -> Vec<Run<'static>> {
    let mut rng = StdRng::seed_from_u64(seed.wrapping_mul(0x2545f4914f6cdd1d) ^ (r as u64) << 4 ^ 0x9a12);
    let n = [5usize, 8, 12, 16][rng.gen_range(0..4)];
    let alpha = rng.gen_range(1..=3usize);
    let repl = [1usize, 2, 3, 20][rng.gen_range(0..4)];
    let local = mk_peer(&mut rng);
    let peers: Vec<PeerId> = (0..n).map(|_| mk_peer(&mut rng)).collect();
    let engine = Rc::new(RefCell::new(QueryEngine::new(local, repl, alpha)));
    let subs = ["find_node", "get_record", "get_providers", "put_record", "put_track"];
    let mut runs: Vec<Run<'static>> = vec![];
    let mut knows: Vec<Vec<Vec<i64>>> = vec![];
    for (j, q) in [QueryId(3), QueryId(11)].into_iter().enumerate() {
        let sub = subs[(r + 2 * j + rng.gen_range(0..2)) % subs.len()];
        let w: &'static World = Box::leak(Box::new(World::with(local, peers.clone(), sub == "find_node", &mut rng)));
        let mut init: Vec<i64> = (0..rng.gen_range(1..=4)).map(|_| rng.gen_range(1..=n as i64)).collect();
        init.sort();
        init.dedup();
        let c = Cfg { sub: sub.into(), alpha, repl, need: rng.gen_range(1..=2), localrec: false, known: vec![], init, n };
        runs.push(Run::start_in(engine.clone(), q, w, c, r, "pair", fault.clone()));
        let mut kn: Vec<Vec<i64>> = vec![];
        for p in 0..=n as i64 {
            let mut v = vec![];
            for _ in 0..rng.gen_range(0..5) {
                let closer: bool = rng.gen();
                v.push(if p > 1 && closer { rng.gen_range(1..p) } else { rng.gen_range(1..=n as i64) });
            }
            kn.push(v);
        }
        knows.push(kn);
    }
    let dispatch = |runs: &mut Vec<Run<'static>>| -> String {
        let act = runs[0].poll();
        match act {
            Ok(Some(a)) => {
                let j = if action_query(&a) == runs[0].q { 0 } else { 1 };
                runs[j].record_next(Ok(Some(a)))
            }
            Ok(None) => {
                runs[0].record_next(Ok(None));
                runs[1].record_next(Ok(None))
            }
            Err(m) => {
                runs[0].record_next(Err(m.clone()));
                runs[1].record_next(Err(m))
            }
        }
    };
    let answer = |runs: &mut Vec<Run<'static>>, rng: &mut StdRng, knows: &Vec<Vec<Vec<i64>>>| -> bool {
        let cands: Vec<(usize, i64)> = (0..2).flat_map(|j| runs[j].inflight.iter().map(move |p| (j, *p)).collect::<Vec<_>>()).collect();
        if cands.is_empty() {
            return false;
        }
        let (j, p) = cands[rng.gen_range(0..cands.len())];
        let kind = runs[j].c.kind();
        if kind == "track" {
            runs[j].simple(["sendok", "sendfail"][rng.gen_range(0..2)], p);
        } else if rng.gen_range(0..5) == 0 {
            runs[j].simple("fail", p);
        } else {
            let mut peers = knows[j][p as usize].clone();
            peers.sort();
            peers.dedup();
            let provs = if kind == "prov" && p % 2 == 0 { vec![p] } else { vec![] };
            runs[j].resp(p, &peers, kind == "get" && p % 3 == 0, &provs);
        }
        true
    };
    for _ in 0..rng.gen_range(4..40) {
        if rng.gen_range(0..100) < 60 {
            if dispatch(&mut runs) == "panic" {
                return runs;
            }
        } else {
            answer(&mut runs, &mut rng, &knows);
        }
    }
    // drain: the environment answers everything
    for _ in 0..(80 * (n + 4)) {
        let a = dispatch(&mut runs);
        if a == "panic" {
            return runs;
        }
        if a != "none" {
            continue;
        }
        if !answer(&mut runs, &mut rng, &knows) {
            for run in runs.iter_mut() {
                run.log(json!({"op": "quiesce"}), json!("ok"));
            }
            break;
        }
    }
    dispatch(&mut runs);
    runs
}

/// Requests older than the peer timeout (10 s in the code) no longer count towards the
/// parallelism factor; the fresh ones still must.  Real time: the run is discarded (never
/// judged) unless every request counted as fresh is younger than a third of the timeout.
fn run_stale(r: usize, seed: u64, alpha: usize) -> Option<Run<'static>> {
    let mut rng = StdRng::seed_from_u64(seed ^ 0x57a1e ^ r as u64);
    let n = 9;
    let c = Cfg { sub: "find_node".into(), alpha, repl: 4, need: 1, localrec: false, known: vec![], init: (1..=n as i64).collect(), n };
    let w: &'static World = Box::leak(Box::new(World::new(n, true, &mut rng)));
    let mut run = Run::start(w, c, r, "stale", None);
    for _ in 0..alpha {
        run.next();
    }
    let old: Vec<i64> = run.inflight.iter().cloned().collect();
    let timeout = Duration::from_millis(run.engine.borrow().verif_query_state(run.q)?.peer_timeout_ms);
    std::thread::sleep(timeout + timeout / 20);
    run.log(json!({"op": "stale", "ps": old}), json!("ok"));
    let t0 = Instant::now();
    for _ in 0..(alpha + 3) {
        run.next();
    }
    // the environment then answers everything; drain
    run.drain(&|_| vec![], &mut rng);
    // every request sent after the sleep was counted as fresh: all of them must be young
    if t0.elapsed() > timeout / 3 {
        return None;
    }
    Some(run)
}

fn main() {
    let args = Args::parse();
    quiet_panics();
    let seed = args.u64("seed", 1);
    let out = args.str("out", "trace.ndjson");
    let threads = args.u64("threads", 8) as usize;
    let fault = std::env::var("VERIF_FAULT").ok().filter(|s| !s.is_empty());
    enum Job {
        Beh(usize, Value),
        Rand(usize),
        Pair(usize),
        Stale(usize, usize),
    }
    let mut jobs = vec![];
    for s in 0..args.u64("stale", 0) as usize {
        jobs.push(Job::Stale(s, 1 + s % 3));
    }
    if let Some(path) = args.get("behaviours") {
        for (i, b) in read_jsonl(path).into_iter().enumerate() {
            jobs.push(Job::Beh(i, b));
        }
    }
    let nrandom = args.u64("random", 0) as usize;
    for r in 0..nrandom {
        jobs.push(Job::Rand(r));
    }
    for r in 0..args.u64("pairs", 0) as usize {
        jobs.push(Job::Pair(r));
    }
    let njobs = jobs.len();
    let jobs = Arc::new(Mutex::new(jobs.into_iter().enumerate().rev().collect::<Vec<_>>()));
    let results = Arc::new(Mutex::new(Vec::<(usize, Vec<String>, u64, u64, Option<String>, String)>::new()));
    let discarded = Arc::new(Mutex::new(0usize));
    let mut hs = vec![];
    for _ in 0..threads {
        let (jobs, results, fault, discarded) = (jobs.clone(), results.clone(), fault.clone(), discarded.clone());
        hs.push(std::thread::spawn(move || loop {
            let job = jobs.lock().unwrap().pop();
            let Some((n, job)) = job else { break };
            // Outside the stale-request scenario every request must stay fresh (younger than the
            // engine's 10 s peer timeout): an execution that took longer than 3 s of wall time
            // (a starved thread on a loaded machine) is re-run, and dropped if that keeps happening.
            let mut runs: Option<Vec<Run<'static>>> = None;
            for _attempt in 0..3 {
                let t = Instant::now();
                runs = match &job {
                    Job::Beh(i, b) => Some(vec![run_behaviour(*i, b, seed, &fault)]),
                    Job::Rand(r) => Some(vec![run_random(*r, seed, &fault)]),
                    Job::Pair(r) => Some(run_pair(*r, seed, &fault)),
                    Job::Stale(r, alpha) => run_stale(*r, seed, *alpha).map(|x| vec![x]),
                };
                if matches!(job, Job::Stale(..)) || t.elapsed() < Duration::from_secs(3) {
                    break;
                }
                runs = None;
            }
            // stale-request executions are started first (they sleep) but written last
            let n = if matches!(job, Job::Stale(..)) { n + 1_000_000_000 } else { n };
            let run = runs.map(|mut v| {
                let mut first = v.remove(0);
                for other in v {
                    first.lines.extend(other.lines);
                    first.events += other.events;
                    first.sends += other.sends;
                    first.c.sub = "pair".into();
                }
                first
            });
            match run {
                Some(run) => results.lock().unwrap().push((n, run.lines, run.events, run.sends, run.terminal, run.c.sub.clone())),
                None => *discarded.lock().unwrap() += 1,
            }
        }));
    }
    for h in hs {
        h.join().expect("worker thread");
    }
    let mut res = std::mem::take(&mut *results.lock().unwrap());
    res.sort_by_key(|x| x.0);
    let mut lines = vec![];
    let (mut events, mut sends) = (0, 0);
    let mut terms: HashMap<String, u64> = HashMap::new();
    let mut subs: HashMap<String, u64> = HashMap::new();
    for (_, l, e, s, t, sub) in &res {
        lines.extend(l.iter().cloned());
        events += e;
        sends += s;
        *terms.entry(t.clone().unwrap_or("none".into())).or_default() += 1;
        *subs.entry(sub.clone()).or_default() += 1;
    }
    write_lines(&out, &lines);
    let summary = json!({"jobs": njobs, "executed": res.len(), "events": events, "sends": sends, "terminals": terms, "kinds": subs,
        "discarded_timing": *discarded.lock().unwrap()});
    println!("SUMMARY {summary}");
}
