"""C03 - multistream-select negotiation agrees on one protocol and is transparent afterwards.

Specs: Multistream.tla (Prop layer), MultistreamImpl.tla / MultistreamMC.tla (stream variant,
Impl layer), MultistreamMsg.tla (message variant, Impl layer), MultistreamTrace.tla.
Harness: harness/src/bin/mss/.
"""
import json
import os
import random
import time
from vlib import *

ASSUME = [
    "both peers are honest implementations (litep2p or the reference crate multistream-select 0.13); protocol names are "
    "valid (start with '/', no newline, fit one frame, not the literal header line)",
    "a side whose negotiation failed drops its io, which the peer observes as EOF / BrokenPipe (as with a TCP or yamux stream)",
    "after negotiation each side writes its payload, flushes, then keeps reading (an optimistic V1Lazy dialer therefore "
    "performs at least one read, which is where its failure has to surface)",
    "V1Lazy with a name the listener does not support: the dialer's payload contains no '/' and no newline byte, so it cannot be "
    "mistaken for a protocol proposal (documented pitfall of the wire protocol itself, identical in the reference)",
    "message variant: groupings are cuts of a message at multistream frame boundaries; application data is never packed "
    "into the same message as negotiation frames; names are < 16000 bytes (header + proposal must fit one 16383-byte message)",
    "carrier flush semantics: write-through (bytes are on the wire when poll_write returns, flush carries no data) or "
    "buffers-until-flush (poll_write appends to a private buffer, only poll_flush moves bytes to the wire, any non-zero amount "
    "per poll, Pending until empty; a vanished reader shows as an error of the flush); the buffering carrier only sits on a "
    "litep2p side; bytes a side never flushed are not owed to the peer",
    "termination is decided by quiescence of the single-threaded scripted environment (no undelivered byte, every live side "
    "parked on an empty read), never by wall-clock time",
    "TLC results hold for the stated small constants (names incl. one with a 2-byte length prefix, lists <= 3, payloads <= 2 bytes)",
]

MC_BASE = {"Long": {"L"}, "AppCap": 2, "ReadFrag": True, "WriteFrag": True, "Record": False, "Mut": "none",
           "Lazies": {True, False}, "Bufs": "<- BufsNone"}
MC_LINES = ["SPECIFICATION Spec", "INVARIANTS QuiesceOK ReaderInv", "PROPERTIES StepOK", "VIEW View", "CHECK_DEADLOCK TRUE"]
LIVE_LINES = ["SPECIFICATION FairSpec", "PROPERTIES Terminates", "CHECK_DEADLOCK TRUE"]
GEN_LINES = ["SPECIFICATION Spec", "VIEW View", "ACTION_CONSTRAINT Emit", "CHECK_DEADLOCK FALSE"]
MSG_LINES = ["SPECIFICATION FairSpec", "INVARIANTS QuiesceOK", "PROPERTIES StepOK Terminates", "CHECK_DEADLOCK TRUE"]
MSG_GEN_LINES = ["SPECIFICATION Spec", "VIEW View", "ACTION_CONSTRAINT Emit", "CHECK_DEADLOCK FALSE"]

SMALL = dict(MC_BASE, Names={"a", "b", "L"}, MaxList=2, Pays="<- PaysDef")
MID = dict(MC_BASE, Names={"a", "b", "c", "L"}, MaxList=3, Pays="<- PaysDef")
HUGE = dict(MC_BASE, Names={"a", "b", "c", "L", "M"}, Long={"L", "M"}, MaxList=3, Pays="<- PaysDef3")

# model name -> real protocol name; "L"/"M" need a frame of >= 128 bytes (2-byte length prefix)
CONCRETE = [
    {"a": "/a", "b": "/a/b", "c": "/a/b/c", "L": "/" + "x" * 130, "M": "/" + "x" * 131},
    {"a": "/proto/2.0.0", "b": "/proto/1.0.0", "c": "/proto/1", "L": "/proto/" + "v" * 200, "M": "/proto/" + "v" * 300},
    {"a": "/ipfs/kad/1.0.0", "b": "/na", "c": "/ls", "L": "/" + "L" * 126, "M": "/" + "L" * 127},
]
PAIRS = ["lite-lite", "lite-ref", "ref-lite"]


def pairs_for(dbuf, lbuf):
    """a buffering carrier only sits on a litep2p side"""
    return [p for p in PAIRS if not (dbuf and p.startswith("ref")) and not (lbuf and p.endswith("ref"))]


def concretise(beh, i):
    m = CONCRETE[i % len(CONCRETE)]
    return {"variant": "stream", "dlist": [m[x] for x in beh["dlist"]], "lset": [m[x] for x in beh["lset"]],
            "lazy": beh["lazy"], "dpay": beh["dpay"], "lpay": beh["lpay"], "ops": beh["ops"],
            "dbuf": beh.get("dbuf", False), "lbuf": beh.get("lbuf", False),
            "pairs": pairs_for(beh.get("dbuf", False), beh.get("lbuf", False)),
            "seed": i, "cap": 2, "p_pend": [0.0, 0.3][(i // len(CONCRETE)) % 2]}


def concretise_msg(beh, i):
    m = CONCRETE[i % len(CONCRETE)]
    return {"variant": "msg", "dlist": [m[x] for x in beh["dlist"]], "lset": [m[x] for x in beh["lset"]],
            "ops": beh["ops"], "seed": i}


def classify(seg, idx):
    """Stable signature of a rejected execution: variant, pairing, configuration class, offending event."""
    hdr = json.loads(seg[0])
    ev = json.loads(seg[idx - 1])
    common = any(n in hdr["lset"] for n in hdr["dlist"])
    parts = [hdr.get("variant", "?"), "%s-%s" % (hdr.get("dimpl"), hdr.get("limpl")),
             "lazy" if hdr.get("lazy") else "v1", "common" if common else "disjoint", ev.get("e", "?")]
    if hdr.get("dbuf") or hdr.get("lbuf"):
        # carrier that buffers until flushed on the dialer's / listener's side
        parts.insert(2, "buf" + ("d" if hdr.get("dbuf") else "") + ("l" if hdr.get("lbuf") else ""))
    if ev.get("e") == "done":
        parts += [ev["s"], "ok" if ev["ok"] else "fail"]
    elif "s" in ev:
        parts.append(ev["s"])
    return "-".join(parts)


def is_reset(ln):
    return '"e":"reset"' in ln


def validate_unique(ctx, lines, tag):
    """Validate every execution; executions whose traces are identical in everything the trace spec reads
    (configuration fields dlist/lset/lazy/dpay/lpay and the events; not the implementation pairing or the carrier
    kind, which the Prop layer does not know) are validated once: TLC's verdict is a function of that text.
    Returns (n_exec, n_unique, events_validated, rejects[(seg, idx, first_exec_index)])."""
    segs = split_segments(lines, is_reset)
    first = {}
    for i, s in enumerate(segs):
        h = json.loads(s[0])
        key = json.dumps([h["dlist"], h["lset"], h["lazy"], h["dpay"], h["lpay"]]) + "\n" + "\n".join(s[1:])
        if key not in first:
            first[key] = (i, "\n".join(s))
    first = {txt: i for i, txt in first.values()}
    uniq = sorted(first.items(), key=lambda kv: kv[1])
    rejects = []
    nev = 0
    CH = 60000
    for c in range(0, len(uniq), CH):
        part = uniq[c:c + CH]
        flat = [ln for txt, _ in part for ln in txt.split("\n")]
        nev += len(flat)
        _, _, rej = validate_segments(ctx, "MultistreamTrace.tla", "MultistreamTrace.cfg", flat, tag="%s%d" % (tag, c // CH),
                                      is_reset=is_reset)
        for seg, idx in rej:
            rejects.append((seg, idx, first["\n".join(seg)]))
    return len(segs), len(uniq), nev, rejects


def run_mc(ctx, name, consts, lines, spec="MultistreamMC.tla", workers=12, timeout=1500):
    workers = min(workers, int(os.environ.get("VERIF_WORKERS", "12")))
    r = tlc_mc(ctx, spec, write_cfg(ctx, "mc_%s.cfg" % name, consts, lines), workers=workers, timeout=timeout)
    if not r["ok"]:
        raise ToolError("the Impl layer of %s violates the Prop layer in config %s (model error, not a code verdict):\n%s"
                        % (spec, name, r.get("error", r["out"][-3000:])))
    out = {k: r[k] for k in ("transitions", "distinct", "depth", "wall_s") if k in r}
    out["cfg"] = name
    log("MC %s/%s: %s" % (spec, name, out))
    return out


def violations_from(rejects, jobs, what):
    out = []
    for seg, idx, ex in rejects:
        out.append({"sig": classify(seg, idx),
                    "what": "%s: event %d of the execution is not allowed by the Prop layer: %s  (config: %s)"
                            % (what, idx, seg[idx - 1][:300], seg[0][:400]),
                    "replay_obj": {"property": "C03", "rejected_event_index": idx, "job": jobs[ex] if ex < len(jobs) else None,
                                   "segment": [json.loads(x) for x in seg]}})
    return out


def check(ctx):
    quick = ctx.quick()
    mc = []
    mc.append(run_mc(ctx, "mid" if quick else "huge", MID if quick else HUGE, MC_LINES))
    # carriers that buffer until flushed, on either or both sides
    mc.append(run_mc(ctx, "buf", dict(SMALL if quick else MID, Bufs="<- BufsSome"), MC_LINES))
    mc.append(run_mc(ctx, "live", dict(SMALL, Names={"a", "L"}, Bufs="<- BufsAll") if quick else dict(SMALL, Bufs="<- BufsAll"),
                     LIVE_LINES, workers=6))
    mc.append(run_mc(ctx, "msg", {"Names": {"a", "b", "c", "L"}, "MaxList": 3 if quick else 4, "Record": False, "Mut": "none"},
                     MSG_LINES, spec="MultistreamMsg.tla", workers=4))
    # behaviours: io script of every transition of a bounded graph
    gen_consts = dict(SMALL, Record=True) if quick else dict(MC_BASE, Names={"a", "b", "c", "L"}, MaxList=2, Pays="<- PaysDef", Record=True)
    behs, gstats = tlc_generate(ctx, "MultistreamMC.tla", write_cfg(ctx, "gen.cfg", gen_consts, GEN_LINES), timeout=1500)
    bbehs, bstats = tlc_generate(ctx, "MultistreamMC.tla", write_cfg(
        ctx, "gen_buf.cfg", dict(SMALL, Record=True, Bufs="<- BufsSome", **({"Names": {"a", "L"}} if quick else {})), GEN_LINES), timeout=1500)
    gstats = {"write_through": gstats, "buffering": bstats}
    behs += bbehs
    del bbehs
    mbehs, mstats = tlc_generate(ctx, "MultistreamMsg.tla", write_cfg(
        ctx, "gen_msg.cfg", {"Names": {"a", "b", "c"}, "MaxList": 3, "Record": True, "Mut": "none"}, MSG_GEN_LINES))
    log("GEN: %s; msg: %s" % (gstats, mstats))
    jobs = [concretise(b, i) for i, b in enumerate(behs)] + [concretise_msg(b, i) for i, b in enumerate(mbehs)]
    write_jsonl(ctx.path("jobs.jsonl"), jobs)
    del behs, jobs
    build_s = cargo_build(ctx, ["mss"])
    nrand, nmsg = (100000, 20000) if quick else (2400000, 300000)
    summ, _ = harness(ctx, "mss", ["--jobs", ctx.path("jobs.jsonl"), "--random", nrand, "--random-msg", nmsg, "--seed", ctx.seed,
                                   "--threads", min(10, int(os.environ.get("VERIF_WORKERS", "12"))), "--out", ctx.path("trace.ndjson"), "--jobs-out", ctx.path("jobs_out.jsonl")])
    brief = {k: v for k, v in summ.items() if k != "drift_examples"}
    log("HARNESS: %s (build %ss)" % (brief, build_s))
    for d in summ.get("drift_examples", []):
        log("NOTE drift: %s: real code left the io script of the Impl layer %s" % (d["kind"], d["why"]))
    t_h = time.time()
    lines = read_lines(ctx.path("trace.ndjson"))
    nexec, nuniq, nev, rejects = validate_unique(ctx, lines, "t")
    log("TV wall %.0fs" % (time.time() - t_h))
    log("TV: %d executions, %d distinct observable traces, %d events validated, %d rejected" % (nexec, nuniq, nev, len(rejects)))
    jobs_out = read_lines(ctx.path("jobs_out.jsonl")) if rejects else []
    violations = violations_from(rejects, [json.loads(x) for x in jobs_out], "real negotiation")
    drifted = sum(v["drifted"] for v in summ["by_kind"].values())
    scripted = sum(v["scripted"] for v in summ["by_kind"].values())
    samples = [json.loads(x) for x in lines[:6]]
    for s in samples:
        for k in ("dpay", "lpay", "bs"):
            if k in s and len(s[k]) > 16:
                s[k] = s[k][:16] + ["..."]
    cov = {
        "states": sum(m["distinct"] for m in mc),
        "transitions": sum(m["transitions"] for m in mc),
        "traces_validated_against_impl": nuniq,
        "executions_recorded": nexec,
        "events_validated": nev,
        "samples": samples,
        "evaluations": nexec,
        "distinct_nontrivial": nuniq,
        "rule": "a case is one complete negotiation of the real code (dialer list, listener set, version, payloads, implementation "
                "pairing, io schedule) recorded until quiescence; TLC-generated cases follow the io script of one transition of the "
                "bounded Impl graph (BFS prefix + transition) in lockstep, random cases use seeded byte-level schedules; distinct = "
                "textually distinct observable traces (configuration + ordered done/read/apperr events), each validated by TLC "
                "against the Prop layer; identical traces are validated once",
        "model_runs": mc,
        "generation": {"stream": gstats, "msg": mstats},
        "harness": brief,
        "scripted_executions": scripted,
        "impl_divergences": drifted,
        "exhaustive": False,
    }
    if scripted and drifted > scripted // 2:
        ctx.notes.append("more than half of the scripted executions left the Impl io script: the Impl layer no longer "
                         "describes the code (drift); verdicts still come from the Prop layer")
    return conclude(ctx, "model_checking", cov, violations, ASSUME)


def selftest(ctx):
    """(a) corrupted good traces must be rejected at the corrupted line, (b) mutated Impl models must violate the
    property, (c) a harness that misreports the listener's name must produce rejections."""
    ok = True
    cargo_build(ctx, ["mss"])
    harness(ctx, "mss", ["--random", 300, "--random-msg", 50, "--seed", ctx.seed, "--threads", 2, "--out", ctx.path("t.ndjson")])
    lines = read_lines(ctx.path("t.ndjson"))
    if tlc_trace(ctx, "MultistreamTrace.tla", "MultistreamTrace.cfg", ctx.path("t.ndjson")) is not None:
        log("selftest: baseline trace rejected")
        ok = False
    rnd = random.Random(ctx.seed)
    muts = {"done": 0, "read": 0, "quiesce": 0}
    for _ in range(400):
        if all(v >= 2 for v in muts.values()):
            break
        i = rnd.randrange(len(lines))
        ev = json.loads(lines[i])
        k = ev["e"]
        if k not in muts or muts[k] >= 2:
            continue
        if k == "done" and ev["ok"]:
            ev["p"] += "/x"
            what = "negotiated name changed"
        elif k == "done":
            continue
        elif k == "read" and ev["bs"]:
            ev["bs"][-1] ^= 1
            what = "last byte read flipped"
        elif k == "quiesce":
            # drop the preceding event (a done / read the quiescence obligations depend on)
            if json.loads(lines[i - 1])["e"] not in ("done", "read"):
                continue
            bad = lines[:i - 1] + lines[i:]
            p = ctx.path("mut.ndjson")
            open(p, "w").write("\n".join(bad) + "\n")
            r = tlc_trace(ctx, "MultistreamTrace.tla", "MultistreamTrace.cfg", p)
            log("selftest corrupt: event before quiesce dropped (line %d) -> %s" % (i, "rejected at %s" % r if r else "ACCEPTED"))
            ok &= r == i
            muts[k] += 1
            continue
        else:
            continue
        muts[k] += 1
        bad = lines[:i] + [json.dumps(ev, separators=(",", ":"))] + lines[i + 1:]
        p = ctx.path("mut.ndjson")
        open(p, "w").write("\n".join(bad) + "\n")
        r = tlc_trace(ctx, "MultistreamTrace.tla", "MultistreamTrace.cfg", p)
        log("selftest corrupt: %s at line %d -> %s" % (what, i + 1, "rejected at %s" % r if r else "ACCEPTED"))
        ok &= r == i + 1
    ok &= all(v >= 1 for v in muts.values())
    for mut, spec, consts, lines_ in (
            ("overread", "MultistreamMC.tla", dict(SMALL, Mut="overread"), MC_LINES),
            ("skipflush", "MultistreamMC.tla", dict(SMALL, Names={"a", "L"}, Mut="skipflush", Bufs="<- BufsSome"), MC_LINES),
            ("lazyall", "MultistreamMC.tla", dict(SMALL, Mut="lazyall"), MC_LINES),
            ("nohdrflag", "MultistreamMsg.tla", {"Names": {"a", "b"}, "MaxList": 2, "Record": False, "Mut": "nohdrflag"}, MSG_LINES),
            ("nofallback", "MultistreamMsg.tla", {"Names": {"a", "b"}, "MaxList": 2, "Record": False, "Mut": "nofallback"}, MSG_LINES)):
        r = tlc_mc(ctx, spec, write_cfg(ctx, "neg_%s.cfg" % mut, consts, lines_), workers=4, expect_violation=True)
        bad = ("is violated" in r["out"]) and not r["ok"]
        log("selftest mutant model %s -> %s" % (mut, "property violated (as expected)" if bad else "NOT DETECTED"))
        ok &= bad
    for fault in ("wrongname", "eatbyte"):
        harness(ctx, "mss", ["--random", 200, "--random-msg", 50, "--seed", ctx.seed, "--threads", 2, "--out", ctx.path("f.ndjson")],
                env={"VERIF_FAULT": fault})
        n, u, _, rej = validate_unique(ctx, read_lines(ctx.path("f.ndjson")), "f")
        log("selftest harness fault `%s`: >= %d of %d distinct traces rejected, e.g. %s" % (fault, len(rej), u, classify(rej[0][0], rej[0][1]) if rej else "-"))
        ok &= len(rej) > 0
    log("SELFTEST %s" % ("ok" if ok else "FAILED"))
    return 0 if ok else 2


def replay(ctx, path):
    obj = json.load(open(path))
    cargo_build(ctx, ["mss"])
    if obj.get("job"):
        write_jsonl(ctx.path("job.jsonl"), [obj["job"]])
        harness(ctx, "mss", ["--jobs", ctx.path("job.jsonl"), "--threads", 1, "--out", ctx.path("r.ndjson")])
        lines = read_lines(ctx.path("r.ndjson"))
        log("replayed execution:")
    else:
        lines = [json.dumps(x, separators=(",", ":")) for x in obj["segment"]]
        log("recorded execution (no job attached):")
    for ln in lines:
        log("  " + ln[:300])
    _, _, _, rej = validate_unique(ctx, lines, "r")
    log("replay: %s" % ("rejected at event %d" % rej[0][1] if rej else "accepted"))
    return 1 if rej else 0
