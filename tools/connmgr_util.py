"""Shared pipeline for C05 / C06 (ConnMgr.tla, ConnMgrMC.tla, ConnMgrTrace.tla, harness bin connmgr)."""
import json
from vlib import *

C06_REASONS = {
    "dial refused by the outgoing limit although below it",
    "more than two connections per peer", "incoming limit exceeded", "outgoing limit exceeded",
    "pending inbound refused below the incoming limit", "connection refused although below the limits",
}

MC_INV = ["INVARIANTS MonOK QuiesceOK WedgeFree PendingExact CapsOK LimExact", "VIEW View", "CHECK_DEADLOCK FALSE"]
BASE = {"Peers": {"p1", "p2"}, "AddrsOf": "<- AddrsOne", "Fixed": "<- FixedNow", "WsAddrs": "<- NoWs"}
TWO = dict(BASE, AddrsOf="<- AddrsTwoTr", WsAddrs="<- WsDef")


def mc_runs(ctx, which):
    """exhaustive TLC runs; returns list of stats"""
    if ctx.quick():
        runs = [("small", dict(BASE, Limits="<- LimSmall", MaxCid=3)), ("none", dict(BASE, Limits="<- LimNone", MaxCid=3)),
                ("asym", dict(BASE, Limits="<- LimAsym", MaxCid=3)),
                ("two2", dict(TWO, Limits="<- LimTwo", MaxCid=2)), ("two2n", dict(TWO, Limits="<- LimNone", MaxCid=2))]
    else:
        runs = [("small4", dict(BASE, Limits="<- LimSmall", MaxCid=4)),
                ("mixed", dict(BASE, Limits="<- LimMixed", MaxCid=3, AddrsOf="<- AddrsDef")),
                ("two", dict(BASE, Limits="<- LimTwo", MaxCid=3)),
                ("asym", dict(BASE, Limits="<- LimAsym", MaxCid=3)),
                ("tcp+ws", dict(TWO, Limits="<- LimSmall", MaxCid=3)), ("tcp+ws-n", dict(TWO, Limits="<- LimNone", MaxCid=3)),
                ("tcp+ws-b", dict(TWO, AddrsOf="<- AddrsTwoTr2", Limits="<- LimNone", MaxCid=3))]
    out = []
    # C06 also checks, on every transition of the bound model, that it is a step of the counter abstraction
    # ConnCaps.tla (whose invariant Apalache proves inductive) and that the inductive invariant holds
    # (the action property roughly triples TLC's time per state: the quick tier checks it on the two-transport
    # configurations and on two dedicated MaxCid=2 runs, the thorough tier on every run)
    extra = ["INVARIANT CapsInd", "PROPERTY CapsRefinement"] if which == "C06" else []
    # (measured: with the action property the MaxCid=4 run of the thorough tier did not finish in 40 min, so both tiers
    # check the refinement on dedicated runs; the thorough tier adds the 3-connection-id run with room for a third inbound)
    if which == "C06":
        runs = runs + [("caps-ref-small", dict(BASE, Limits="<- LimSmall", MaxCid=2, AddrsOf="<- AddrsDef")),
                       ("caps-ref-mixed", dict(BASE, Limits="<- LimMixed", MaxCid=2))]
        if not ctx.quick():
            runs = runs + [("caps-ref-in3", dict(BASE, Limits="<- LimIn3", MaxCid=3)),
                           ("caps-ref-two-transports", dict(TWO, Limits="<- LimTwo", MaxCid=2))]
    for name, consts in runs:
        ex = extra if name.startswith(("caps-ref", "two2")) else []
        r = tlc_mc(ctx, "ConnMgrMC.tla", write_cfg(ctx, "mc_%s.cfg" % name, consts, ["SPECIFICATION Spec"] + MC_INV + ex),
                   workers=10, timeout=3000)
        r["refinement_checked"] = bool(ex)
        if not r["ok"]:
            raise ToolError("ConnMgrMC violates an invariant outside the tagged known-defect paths in config %s; "
                            "the model must be corrected or the counterexample replayed:\n%s" % (name, r.get("error", r["out"][-3000:])))
        out.append({k: r[k] for k in ("cfg", "transitions", "distinct", "depth", "wall_s", "refinement_checked") if k in r})
        out[-1]["cfg"] = name
        log("MC %s: %s" % (name, out[-1]))
    return out


def generate(ctx):
    gl = ["SPECIFICATION Spec", "VIEW GenView", "ACTION_CONSTRAINT Emit", "CHECK_DEADLOCK FALSE"]
    # (limit set, connection ids, two transports?)
    sets = ([("LimSmall", 2, False), ("LimNone", 2, False), ("LimTwo", 2, False), ("LimAsym", 2, False), ("LimLeak", 3, False),
             ("LimSmall", 3, False), ("LimIn3", 3, False), ("LimTwo", 2, True), ("LimNone", 2, True)]
            if ctx.quick() else
            [("LimSmall", 3, False), ("LimLeak", 3, False), ("LimAsym", 3, False), ("LimNone", 2, False), ("LimTwo", 2, False),
             ("LimSmall", 2, True), ("LimNone", 2, True), ("LimTwo", 2, True)])
    behs, stats = [], []
    import random
    for lim, mc, two in sets:
        base = TWO if two else BASE
        b, g = tlc_generate(ctx, "ConnMgrMC.tla", write_cfg(ctx, "gen_%s%d%s.cfg" % (lim, mc, "two" if two else ""), dict(base, Limits="<- " + lim, MaxCid=mc), gl), timeout=3000)
        if ctx.quick() and len(b) > 12000:
            # quick tier: a seeded sample of the deeper graph (the thorough tier replays all of it); behaviours
            # ending in a rare transition (outbound connection rejected by the limit, failed accept) are all kept
            g["sampled_from"] = len(b)
            rare = [x for x in b if x.get("tag")]
            rest = [x for x in b if not x.get("tag")]
            rnd = random.Random(ctx.seed)
            if len(rare) > 5000:
                rare = rnd.sample(rare, 5000)
            b = rare + rnd.sample(rest, min(len(rest), max(0, 9000 - len(rare))))
            g["behaviours"] = len(b)
            g["rare_kept"] = len(rare)
        behs += b
        g["cfg"] = "%s/MaxCid=%d%s" % (lim, mc, "/tcp+ws" if two else "")
        stats.append(g)
        log("GEN %s" % g)
    return behs, stats


def root_cause(seg, idx):
    """Find why an attempt never got an outcome: replay the ledger in Python over the segment."""
    att = {}     # cid -> dict(peer, st, by, how)
    for n, ln in enumerate(seg[1:idx], 2):
        ev = json.loads(ln)
        if ev.get("e") == "quiesce" and n < idx:
            # attempts stuck at an earlier quiescence were reported there
            for a in att.values():
                if a["st"] in ("open", "cancelled"):
                    a["st"] = "reported"
        if ev.get("e") != "step":
            continue
        s = ev["s"]
        for c in ev["calls"]:
            if c["c"] in ("dial", "open"):
                att[c["cid"]] = {"peer": s.get("p"), "st": "open", "by": None, "how": ""}
            if c["c"] == "cancel" and c["cid"] in att and att[c["cid"]]["st"] == "open" and s["a"] in ("established", "in_est"):
                att[c["cid"]].update(st="cancelled", by=s["c"])
            if c["c"] == "reject" and c["cid"] in att and att[c["cid"]]["st"] == "open":
                att[c["cid"]]["how"] = "outbound-established-rejected-by-limit" if not s.get("mismatch") else "established-with-other-peer-rejected"
        for e in ev["events"]:
            if e["k"] == "est":
                if e["cid"] in att:
                    att[e["cid"]]["st"] = "ok"
                for a in att.values():
                    if a["st"] == "cancelled" and a["by"] == e["cid"]:
                        a["st"] = "superseded"
            if e["k"] in ("dial_failure", "open_failure") and e["cid"] in att:
                att[e["cid"]]["st"] = "failed"
        if s["a"] in ("established", "in_est") and any(c["c"] == "accept" and c.get("ok") is False for c in ev["calls"]):
            # the accept() call itself failed: same silent rollback as a failed accept future
            cancelled = {c["cid"] for c in ev["calls"] if c["c"] == "cancel"}
            for c, a in att.items():
                if (c == s["c"] and a["st"] == "open") or (c in cancelled and a["st"] in ("open", "cancelled")):
                    a["how"] = "accept-rolled-back-silently"
        if s["a"] == "accept_err":
            for c, a in att.items():
                if (c == s["c"] and a["st"] == "open") or (a["st"] == "cancelled" and a["by"] == s["c"]):
                    a["how"] = "accept-rolled-back-silently"
    stuck = [a for a in att.values() if a["st"] in ("open", "cancelled")]
    return stuck


def classify(seg, idx, reason):
    ev = json.loads(seg[idx - 1])
    s = ev.get("s", {})
    if reason == "panic":
        if s.get("a") == "established" and s.get("mismatch"):
            return ["dial-address-two-peer-ids-panic"]
        return ["panic-%s" % s.get("a", "?")]
    if reason == "dial accepted but nothing is being attempted" and s.get("a") in ("hdial", "hdial_addr"):
        return ["hdial-refused-silently"]
    if reason.startswith("silence") or reason.startswith("wedge"):
        stuck = root_cause(seg, idx)
        if reason.startswith("wedge"):
            stuck = [a for a in stuck if a["peer"] == s.get("p")] or stuck
        hows = sorted({a["how"] or "unknown" for a in stuck})
        return hows if hows else [reason.split(":")[0]]
    return [reason.replace(" ", "-")]


def pipeline(ctx, pid, nrand_quick=1000, nrand_thorough=12000):
    mc = mc_runs(ctx, pid)
    behs, gstats = generate(ctx)
    write_jsonl(ctx.path("behs.jsonl"), behs)
    build_s = cargo_build(ctx, ["connmgr"])
    nrand, rlen = (nrand_quick, 60) if ctx.quick() else (nrand_thorough, 80)
    summ, _ = harness(ctx, "connmgr", ["--behaviours", ctx.path("behs.jsonl"), "--random", nrand, "--len", rlen,
                                       "--shapes", 2 if ctx.quick() else 12,
                                       "--seed", ctx.seed, "--out", ctx.path("trace.ndjson")], timeout=3000)
    log("HARNESS: %s (build %ss)" % (summ, build_s))
    lines = read_lines(ctx.path("trace.ndjson"))
    nseg, nev, rejects = validate_all(ctx, "ConnMgrTrace.tla", "ConnMgrTrace.cfg", lines, mode="prop")
    # drift check against the implementation-shaped model (address shapes are not modelled there)
    impl_segs = [seg for seg in split_segments(lines, lambda ln: '"e":"reset"' in ln) if '"src":"shapes"' not in seg[0]]
    if not ctx.quick() and len(impl_segs) > 60000:
        import random
        impl_segs = random.Random(ctx.seed).sample(impl_segs, 60000)   # drift check on a seeded sample
    impl_lines = [ln for seg in impl_segs for ln in seg]
    _, _, drift = validate_segments(ctx, "ConnMgrTrace.tla", "ConnMgrTrace.cfg", impl_lines, mode="impl", max_rejects=3, tag="d")
    for seg, idx in drift:
        log("NOTE drift: real TransportManager deviates from ConnMgrMC at %s" % seg[idx - 1][:400])
    return mc, gstats, summ, lines, nseg, nev, rejects, drift


def evidence(mc, gstats, summ, lines, nseg, nev, drift):
    stim_kinds, distinct = {}, set()
    import collections
    multi = collections.Counter()
    cur = []
    for ln in lines:
        if '"e":"reset"' in ln:
            if cur:
                distinct.add(hash(tuple(cur)))
            cur = []
        elif '"e":"step"' in ln:
            d = json.loads(ln)
            s = d["s"]
            stim_kinds[s["a"]] = stim_kinds.get(s["a"], 0) + 1
            cur.append((s["a"], s.get("p"), s.get("c"), s.get("addr"), s.get("tr")))
            # two-transport paths actually taken by the real manager
            opens = [c for c in d["calls"] if c["c"] == "open"]
            if len(opens) == 2:
                multi["dial_opened_on_both_transports"] += 1
            if s["a"] == "open_fail" and not d["events"]:
                multi["open_failure_not_last_transport"] += 1
            if s["a"] == "open_fail" and d["events"] and len(d["events"][0].get("addrs", [])) > 1 and any(a.endswith(("w", "x")) for a in d["events"][0]["addrs"]) \
                    and any(not a.endswith(("w", "x")) for a in d["events"][0]["addrs"]):
                multi["failure_report_groups_both_transports"] += 1
            if s["a"] == "opened" and sum(1 for c in d["calls"] if c["c"] == "cancel") == 2:
                multi["opened_cancels_other_transport"] += 1
            if s["a"] in ("in_est", "established") and sum(1 for c in d["calls"] if c["c"] == "cancel") == 2:
                multi["connection_supersedes_open_on_both_transports"] += 1
            if any(c.get("tr") == "w" for c in d["calls"]):
                multi["steps_with_ws_calls"] += 1
    if cur:
        distinct.add(hash(tuple(cur)))
    samples = []
    for ln in lines[:40]:
        d = json.loads(ln)
        if d.get("e") == "step":
            samples.append({"stim": d["s"], "ret": d["ret"], "calls": d["calls"], "events": d["events"]})
        if len(samples) >= 5:
            break
    return {
        "states": sum(m["distinct"] for m in mc),
        "transitions": sum(m["transitions"] for m in mc),
        "traces_validated_against_impl": nseg,
        "events_validated": nev,
        "samples": samples,
        "evaluations": nseg,
        "distinct_nontrivial": len(distinct),
        "rule": "a case is one stimulus history executed on the real TransportManager through the scripted transport "
                "(TLC-generated: BFS prefix + one transition of the bounded model graph, followed by wedge probes; random: "
                "seeded histories over 3 peers with random limits); distinct = distinct stimulus sequences",
        "model_runs": mc,
        "generation": gstats,
        "harness": summ,
        "stimuli_exercised": stim_kinds,
        "two_transport_paths": dict(multi),
        "impl_divergences": len(drift),
        "exhaustive": False,
    }


def selftest(ctx, pid):
    """(a) binding: corrupt recorded steps of a good trace, the monitor must flag exactly those;
    (b) negative models: one guard of ConnMgrMC removed must make TLC report a violated invariant."""
    import shutil, random
    ok = True
    cargo_build(ctx, ["connmgr"])
    harness(ctx, "connmgr", ["--random", 40, "--len", 60, "--seed", ctx.seed, "--out", ctx.path("t.ndjson")])
    lines = read_lines(ctx.path("t.ndjson"))
    _, _, base = validate_all(ctx, "ConnMgrTrace.tla", "ConnMgrTrace.cfg", lines)
    base_keys = {(id(r[0]), r[1]) for r in base}
    rnd = random.Random(ctx.seed)

    def mutate(kind):
        idxs = list(range(len(lines)))
        rnd.shuffle(idxs)
        for i in idxs:
            d = json.loads(lines[i])
            if d.get("e") != "step":
                continue
            if kind == "drop-failure-event" and any(e["k"] in ("dial_failure", "open_failure") for e in d["events"]):
                d["events"] = [e for e in d["events"] if e["k"] not in ("dial_failure", "open_failure")]
            elif kind == "duplicate-failure-event" and any(e["k"] == "dial_failure" for e in d["events"]):
                d["events"] = d["events"] + [e for e in d["events"] if e["k"] == "dial_failure"]
            elif kind == "wrong-address-in-failure" and any(e["k"] == "dial_failure" for e in d["events"]):
                for e in d["events"]:
                    if e["k"] == "dial_failure":
                        e["addrs"] = ["zz"]
            elif kind == "reject-below-limit" and d["s"]["a"] == "in_est" and any(c["c"] == "accept" for c in d["calls"]) and d["view"][d["s"]["p"]]["sec"] == -1:
                d["calls"] = [dict(c, c="reject") if c["c"] == "accept" else c for c in d["calls"]]
            else:
                continue
            return i, lines[:i] + [json.dumps(d, separators=(",", ":"))] + lines[i + 1:]
        return None, None

    for kind in ["drop-failure-event", "duplicate-failure-event", "wrong-address-in-failure", "reject-below-limit"]:
        i, mut = mutate(kind)
        if mut is None:
            log("selftest %s: no candidate line" % kind)
            continue
        _, _, rej = validate_all(ctx, "ConnMgrTrace.tla", "ConnMgrTrace.cfg", mut, tag="m")
        extra = [r for r in rej if r.reason and r.reason != "unconsumed"]
        caught = len(extra) > len(base)
        log("selftest binding %-26s line %d -> %s" % (kind, i + 1, "flagged (%s)" % sorted({r.reason for r in extra} - {r.reason for r in base} or {r.reason for r in extra}) if caught else "NOT FLAGGED"))
        ok &= caught
    # negative models
    negs = [
        ("limit-off-by-one", "Full(s, max) == max # NoLimit /\\ Cardinality(s) >= max", "Full(s, max) == max # NoLimit /\\ Cardinality(s) > max"),
        ("forget-pending-remove-on-open-failure", "             /\\ pend' = pend \\ {c}\n             /\\ tx' = [tx EXCEPT ![c] = \"failed\"]\n             /\\ Handle([a |-> \"open_fail\"", "             /\\ pend' = pend\n             /\\ tx' = [tx EXCEPT ![c] = \"failed\"]\n             /\\ Handle([a |-> \"open_fail\""),
        ("two-transports:every-open-failure-reported", "             /\\ Handle([a |-> \"open_fail\", c |-> c, p |-> p, tr |-> tr], <<>>, <<>>, \"none\")", "             /\\ Handle([a |-> \"open_fail\", c |-> c, p |-> p, tr |-> tr], <<>>, <<[k |-> \"open_failure\", cid |-> c, addrs |-> OfTr(caddrs[c], tr)]>>, \"none\")"),
        ("two-transports:second-open-reuses-no-attempt", "                 /\\ Handle(stim, PerTr(trs, LAMBDA tr : [c |-> \"open\", cid |-> c, addrs |-> OfTr(addrs, tr), tr |-> tr]), <<>>, \"ok\")", "                 /\\ Handle(stim, PerTr(trs, LAMBDA tr : [c |-> \"open\", cid |-> c, addrs |-> OfTr(addrs, tr), tr |-> tr]) \\o (IF Cardinality(trs) = 2 THEN <<[c |-> \"open\", cid |-> c, addrs |-> addrs, tr |-> \"t\"]>> ELSE <<>>), <<>>, \"ok\")"),
        ("third-connection-accepted", "  ELSE IF s.k = \"conn\" THEN [acc |-> FALSE, st |-> s, cancel |-> None]", "  ELSE IF s.k = \"conn\" THEN [acc |-> TRUE, st |-> s, cancel |-> None]"),
        ("dial-failure-not-reported", "             /\\ Handle(stim, <<>>, <<[k |-> \"dial_failure\", cid |-> c, addrs |-> caddrs[c]],", "             /\\ Handle(stim, <<>>, <<"),
    ]
    src = open(os.path.join(SPEC, "ConnMgrMC.tla")).read()
    for name, a, b in negs:
        a = a.encode().decode("unicode_escape")
        b = b.encode().decode("unicode_escape")
        if a not in src:
            log("selftest negative %s: pattern not found (spec changed?)" % name)
            ok = False
            continue
        d = ctx.path("neg_" + name.replace(":", "_"))
        os.makedirs(d, exist_ok=True)
        shutil.copy(os.path.join(SPEC, "ConnMgr.tla"), d)
        shutil.copy(os.path.join(SPEC, "ConnCaps.tla"), d)
        open(os.path.join(d, "ConnMgrMC.tla"), "w").write(src.replace(a, b))
        cfg = write_cfg(ctx, "neg_%s.cfg" % name.replace(":", "_"), dict(TWO if name.startswith("two-transports") else BASE, Limits="<- LimNone" if name.startswith(("third", "two-transports")) else "<- LimSmall",
                                                                         MaxCid=2 if name.startswith("two-transports") else 3), ["SPECIFICATION Spec"] + MC_INV)
        r = tlc_mc(ctx, os.path.join(d, "ConnMgrMC.tla"), cfg, workers=8, expect_violation=True, timeout=900)
        viol = "is violated" in r["out"]
        log("selftest negative %-40s -> %s" % (name, "violation found" if viol else "NO VIOLATION"))
        ok &= viol
    if pid == "C06":
        # the refinement check must notice an abstraction that does not describe the bound model ...
        caps = open(os.path.join(SPEC, "ConnCaps.tla")).read()
        a = "  /\\ limIn' = limIn \\ {c} /\\ limOut' = limOut \\ {c}\n  /\\ UNCHANGED <<cpeer, cdir, MaxIn, MaxOut>>"
        d = ctx.path("neg_caps_refinement")
        os.makedirs(d, exist_ok=True)
        for f in ("ConnMgr.tla", "ConnMgrMC.tla"):
            shutil.copy(os.path.join(SPEC, f), d)
        if a not in caps:
            log("selftest negative caps-refinement: pattern not found (spec changed?)")
            ok = False
        else:
            open(os.path.join(d, "ConnCaps.tla"), "w").write(caps.replace(a, a.replace("limOut' = limOut \\ {c}", "limOut' = limOut")))
            cfg = write_cfg(ctx, "neg_caps_ref.cfg", dict(BASE, Limits="<- LimSmall", MaxCid=2), ["SPECIFICATION Spec", "VIEW View", "CHECK_DEADLOCK FALSE", "PROPERTY CapsRefinement"])
            r = tlc_mc(ctx, os.path.join(d, "ConnMgrMC.tla"), cfg, workers=4, expect_violation=True, timeout=600)
            viol = "Action property CapsRefinement is violated" in r["out"]
            log("selftest negative %-40s -> %s" % ("ConnCaps: close keeps the outgoing slot", "refinement violated" if viol else "NO VIOLATION"))
            ok &= viol
        # ... and Apalache must refuse an invariant that is not inductive (the conjunct found by its first counterexample removed)
        b = "    /\\ (ps[p].k = \"conn\" /\\ ps[p].dial /= CNone => ps[p].sec = CNone)\n"
        if b not in caps or not shutil.which("apalache-mc"):
            log("selftest negative non-inductive: skipped (pattern or apalache-mc missing)")
        else:
            d2 = ctx.path("neg_caps_ind")
            os.makedirs(d2, exist_ok=True)
            open(os.path.join(d2, "ConnCaps.tla"), "w").write(caps.replace(b, ""))
            rc, out = run(["apalache-mc", "check", "--cinit=ConstInit2x4", "--init=IndInit", "--inv=IndInv", "--length=1",
                           "--out-dir=" + os.path.join(d2, "out"), os.path.join(d2, "ConnCaps.tla")], timeout=900, cwd=d2)
            bad = "The outcome is: Error" in out
            log("selftest negative %-40s -> %s" % ("IndInv without the dial/secondary conjunct", "not inductive (counterexample)" if bad else "ACCEPTED"))
            ok &= bad
    log("SELFTEST %s" % ("ok" if ok else "FAILED"))
    return 0 if ok else 2


# ----------------------------------------------------------------------------- real-network part (C05)

def net_classify(seg, idx, reason):
    """Signature of a violation seen on real nodes. A silence on a node with an outgoing limit that
    had more dials in flight than the limit allows is the known limit-rejection defect."""
    hdr = json.loads(seg[0])
    slug = "net-" + reason.split(":")[0].replace(" ", "-")[:50]
    if not reason.startswith("silence"):
        return slug
    max_out = hdr.get("cfg", {}).get("maxOut", -1)
    pend, est_out, over = set(), set(), False
    for ln in seg[1:idx]:
        d = json.loads(ln)
        if d.get("e") == "cmd" and d.get("k") in ("dial", "dial_addr") and d.get("ret") == "ok":
            pend.add(d["peer"])
            if max_out >= 0 and len(pend) + len(est_out) > max_out:
                over = True
        elif d.get("e") == "ev" and d["k"] == "est":
            pend.discard(d["peer"])
            if d.get("dir") == "out":
                est_out.add(d["peer"])
        elif d.get("e") == "ev" and d["k"] == "closed":
            est_out.discard(d["peer"])
        elif d.get("e") == "ev" and d["k"] in ("dial_failure", "list_failures"):
            for p in d["peers"]:
                pend.discard(p)
    return "outbound-established-rejected-by-limit" if over else slug


def net_pipeline(ctx):
    # worlds cycle through the transports tcp, tcp, ws, quic, mix (every dial picks one)
    worlds, steps = (30, 14) if ctx.quick() else (400, 18)
    cargo_build(ctx, ["netdial"])
    summ, _ = harness(ctx, "netdial", ["--worlds", worlds, "--steps", steps, "--seed", ctx.seed, "--out", ctx.path("net.ndjson")], timeout=3000)
    log("NET: %s" % summ)
    if summ.get("unsettled_logs", 0) > 0.5 * max(1, summ.get("node_logs", 0)):
        # an overloaded machine (e.g. right after a cold build) makes every world "unsettled" and nothing is judged:
        # run the part once more before giving up
        log("NET: most node logs did not settle (machine busy?) - running the real-network part once more")
        summ, _ = harness(ctx, "netdial", ["--worlds", worlds, "--steps", steps, "--seed", ctx.seed, "--out", ctx.path("net.ndjson")], timeout=3000)
        log("NET: %s" % summ)
    lines = read_lines(ctx.path("net.ndjson"))
    nseg, nev, rejects = validate_all(ctx, "NetDial.tla", "NetDial.cfg", lines, tag="n")
    per, tk = {}, "?"
    for ln in lines:
        d = json.loads(ln)
        if d.get("e") == "reset":
            tk = d.get("transport", "?")
            per.setdefault(tk, {"node_logs": 0, "events": 0, "established": 0, "failures": 0, "unsettled": 0})["node_logs"] += 1
        else:
            per[tk]["events"] += 1
            if d.get("e") == "ev" and d.get("k") == "est":
                per[tk]["established"] += 1
            elif d.get("e") == "ev" and d.get("k") in ("dial_failure", "list_failures"):
                per[tk]["failures"] += 1
            elif d.get("e") == "unsettled":
                per[tk]["unsettled"] += 1
    summ = dict(summ, per_transport=per)
    # still unsettled after the second attempt: nothing of it is judged (timing assumptions not met); this is recorded
    # in the evidence, the unit-level parts of the check are unaffected
    if summ.get("unsettled_logs", 0) > 0.5 * max(1, summ.get("node_logs", 0)):
        ctx.notes.append("real-network part: %d of %d node logs did not settle in two attempts (machine overloaded) - not judged in this run" %
                         (summ["unsettled_logs"], summ["node_logs"]))
    viol = []
    for r in rejects:
        seg, idx = r
        sig = net_classify(seg, idx, r.reason)
        viol.append({"sig": sig, "what": "real nodes: %s (node log %s)" % (r.reason, seg[0][:200]),
                     "replay_obj": {"property": "C05", "net": True, "reason": r.reason, "signature": sig,
                                    "segment": [json.loads(x) for x in seg[:idx]]}})
    return summ, nseg, nev, viol
