------------------------------- MODULE NotifMC -------------------------------
(***************************************************************************)
(* Implementation-shaped model of two litep2p NotificationProtocol          *)
(* instances ("X" and "Y") talking to each other, transcribed from          *)
(* src/protocol/notification/{mod,negotiation,connection,handle}.rs:        *)
(*   - the per-peer state machine (PeerState / InboundState / OutboundState *)
(*     incl. Poisoned and the debug_assert!(false) arms), one operator per  *)
(*     handler (on_connection_established, on_connection_closed,            *)
(*     on_outbound_substream, on_inbound_substream,                         *)
(*     on_substream_open_failure, on_open_substream, on_close_substream,    *)
(*     on_validation_result, on_handshake_event, shutdown_rx arm, timer arm)*)
(*   - the biased select of next_event() (branch priorities),               *)
(*   - HandshakeService entries (inbound / outbound, read / send phases),   *)
(*   - the per-stream Connection task (detect -> notify protocol -> report  *)
(*     closed, as separate steps of a separate task),                       *)
(*   - the NotificationHandle on the user side (peers set, pending          *)
(*     validation sender, command channel, event channel),                  *)
(*   - environment = connection lifecycle guarantees (ConnLife): established*)
(*     / closed alternate per endpoint; every substream open request is     *)
(*     answered once (opened on both sides | failure) or the connection     *)
(*     ends; substreams die with their connection.                          *)
(* The property monitor of Notif.tla observes only user commands, pulled    *)
(* events and environment facts.  The whole world is one record `w` so the  *)
(* handlers read like the Rust functions (state in, state out).             *)
(***************************************************************************)
EXTENDS Notif, Integers, SequencesExt, FiniteSetsExt, Json

CONSTANTS AutoSet,    \* endpoints configured with auto-accept
          Dial,       \* should_dial
          MaxOpen,    \* open commands endpoint X may issue
          MaxOpenY,   \* ... endpoint Y
          MaxClose, MaxCut, MaxRec, MaxFail, MaxSub, MaxStall,
          MaxFDF,     \* dial failures of dials this protocol did not start (broadcast by the manager to every protocol)
          KnownTags,  \* tags of panic arms / defects already recorded as findings
          Mut,        \* "none", or a seeded defect for the negative configurations of the self-test
          EarlyVal,   \* TRUE: a validation may be answered before the events queued behind the request are read
          Fixed       \* tags of recorded defects that are modelled as repaired (fix committed to the code)

VARIABLES w, mon, hist
vars == <<w, mon, hist>>

E == {"X", "Y"}
Other(e) == IF e = "X" THEN "Y" ELSE "X"

NoHs == [sub |-> 0, ph |-> "none", to |-> FALSE]
Closed(po) == [k |-> "closed", po |-> po]
None == [k |-> "none"]
ValSt(in, out, isub, osub, osid) == [k |-> "val", in |-> in, out |-> out, isub |-> isub, osub |-> osub, osid |-> osid]

Init ==
  /\ w = [st |-> [e \in E |-> Closed(0)],            \* PeerState of the other endpoint (None = not in `peers`)
          pout |-> [e \in E |-> {}],                  \* pending_outbound (substream ids)
          hsI |-> [e \in E |-> NoHs], hsO |-> [e \in E |-> NoHs],   \* HandshakeService entries
          vf |-> [e \in E |-> <<>>],                  \* pending_validations futures [id, r]: r = "wait" | "accept" | "reject"
          subs |-> <<>>,                              \* substreams: [from, sid, a, b, h1, h2]
          oreq |-> {},                                \* substream open requests in flight in the connection
          nsid |-> [e \in E |-> 1],
          tq |-> [e \in E |-> <<>>],                  \* TransportService -> protocol
          cmdq |-> [e \in E |-> <<>>],                \* handle -> protocol
          evq |-> [e \in E |-> <<>>],                 \* protocol / connection task -> handle
          sdq |-> [e \in E |-> <<>>],                 \* connection task -> protocol (shutdown_rx)
          ct |-> [e \in E |-> {}],                    \* connection tasks [id, i, o, st, sig]
          ntask |-> 0,
          hopen |-> [e \in E |-> FALSE],              \* handle.peers contains the peer
          hval |-> [e \in E |-> 0],                   \* id of the validation whose sender handle.pending_validations holds (0 = none)
          nval |-> 0,
          curv |-> [e \in E |-> 0],
          sw |-> [e \in E |-> FALSE],                 \* an open command was ignored while a remote-initiated substream was being handled                   \* id of the validation request of the substream now being validated
          conn |-> "up", ep |-> 1,
          alive |-> [e \in E |-> TRUE],               \* the protocol loop has not panicked
          nOpen |-> [e \in E |-> 0], nClose |-> [e \in E |-> 0], nCut |-> 0, nRec |-> 0, nFail |-> 0, nStall |-> 0, nFDF |-> 0,
          kf |-> {}]
  \* both endpoints start connected (ConnectionEstablished already handled: state Closed)
  /\ mon = [e \in E |-> MonEnv(MonInit({Other(e)}, e \in AutoSet), Other(e), "up")]
  /\ hist = <<>>

-----------------------------------------------------------------------------
(* helpers                                                                   *)
\* The protocol loop reports k to the user.  If a Connection task of an earlier stream has not yet
\* reported Closed, this report overtakes it in the user's event queue (tag).
Lagging(x, e) == \E c \in x.ct[e] : ~(x.st[e].k = "open" /\ x.st[e].task = c.id)
Rep(x, e, k) == [x EXCEPT !.evq[e] = Append(@, [k |-> k, id |-> 0]),
                          !.sw[e] = IF k \in {"opened", "openfail"} THEN FALSE ELSE @,
                          !.kf = IF Lagging(x, e) THEN @ \cup {"report-overtakes-closed"} ELSE @]
\* a panic (debug_assert!) of the protocol loop; panics that follow a stale shutdown notice (see
\* ProtoShutdown) are consequences of that defect and carry its tag
Panic(x, e, tag) == [x EXCEPT !.alive[e] = FALSE,
                              !.kf = @ \cup {IF "stale-shutdown-notice" \in x.kf THEN "panic-after-stale-shutdown-notice" ELSE tag}]
SetSt(x, e, s) == [x EXCEPT !.st[e] = s]
\* drop / close the end of substream s held by endpoint e
DropEnd(x, e, s) == IF s = 0 THEN x
                    ELSE [x EXCEPT !.subs[s] = IF @.from = e THEN [@ EXCEPT !.a = FALSE] ELSE [@ EXCEPT !.b = FALSE]]
OtherAlive(x, e, s) == IF x.subs[s].from = e THEN x.subs[s].b ELSE x.subs[s].a
RemoveIn(x, e) == [DropEnd(x, e, x.hsI[e].sub) EXCEPT !.hsI[e] = NoHs]
RemoveOut(x, e) == [DropEnd(x, e, x.hsO[e].sub) EXCEPT !.hsO[e] = NoHs]
\* substreams owned by a peer state
DropState(x, e) == LET s == x.st[e] IN IF s.k = "val" THEN DropEnd(DropEnd(x, e, s.isub), e, s.osub) ELSE x
\* negotiation.negotiate_outbound: the local handshake is written at once (buffered)
NegOut(x, e, s) == [RemoveOut(x, e) EXCEPT !.hsO[e] = [sub |-> s, ph |-> "read", to |-> FALSE], !.subs[s].h1 = "sent"]
ReadHs(x, e, s) == [RemoveIn(x, e) EXCEPT !.hsI[e] = [sub |-> s, ph |-> "read", to |-> FALSE]]
SendHs(x, e, s) == [x EXCEPT !.hsI[e] = [sub |-> s, ph |-> "send", to |-> FALSE], !.subs[s].h2 = "sent"]
\* service.open_substream
CanOpenSub(x) == x.conn = "up"
OpenSub(x, e) == [x EXCEPT !.oreq = @ \cup {[e |-> e, sid |-> x.nsid[e], ep |-> x.ep]}, !.nsid[e] = @ + 1,
                           !.pout[e] = @ \cup {x.nsid[e]}]
SignalTask(x, e, t) == [x EXCEPT !.ct[e] = {IF c.id = t THEN [c EXCEPT !.sig = TRUE] ELSE c : c \in @}]
\* the connection is destroyed (cut by the environment or force_close by a node)
KillConn(x) ==
  [x EXCEPT !.conn = "down",
            !.subs = [i \in DOMAIN @ |-> [@[i] EXCEPT !.a = FALSE, !.b = FALSE]],
            !.oreq = {},
            !.tq = [e \in E |-> Append(@[e], [t |-> "closed"])]]

-----------------------------------------------------------------------------
(* handlers of NotificationProtocol (mod.rs); x = world, e = endpoint        *)

\* on_open_substream
OnOpenSubstream(x, e) ==
  LET s == x.st[e] IN
  IF s.k = "none" THEN
       IF ~Dial THEN Rep(x, e, "openfail")
       ELSE SetSt(x, e, [k |-> "dialing"])          \* service.dial Ok (an address is known)
  ELSE IF s.k = "closed" /\ s.po # 0 THEN
       [SetSt(x, e, [k |-> "oi", sid |-> s.po]) EXCEPT !.pout[e] = @ \cup {s.po}]
  ELSE IF s.k = "closed" THEN
       IF CanOpenSub(x) THEN SetSt(OpenSub(x, e), e, [k |-> "oi", sid |-> x.nsid[e]])
       ELSE Rep(x, e, "openfail")
  ELSE IF s.k = "vp" THEN Rep(x, e, "openfail")
  \* `_ => {}`: the command is dropped; with an inbound substream in progress and no outbound one the user
  \* hears of it again only if that substream gets as far as an accepted validation
  \* repaired ("ignored-open-never-answered" \in Fixed): the request is refused with OpenFailure(ValidationPending)
  ELSE IF s.k = "val" /\ s.out = "closed" THEN
       (IF "ignored-open-never-answered" \in Fixed THEN Rep(x, e, "openfail") ELSE [x EXCEPT !.sw[e] = TRUE])
  ELSE x

\* on_connection_established
OnConnEstablished(x, e) ==
  LET s == x.st[e] IN
  IF s.k = "none" THEN SetSt(x, e, Closed(0))
  ELSE IF s.k = "dialing" THEN OnOpenSubstream(SetSt(x, e, Closed(0)), e)
  ELSE IF s.k = "vp" THEN
       IF s.c = "closed" THEN SetSt(x, e, [k |-> "vp", c |-> "open"])
       ELSE Panic(x, e, "established-validation-pending-open")
  ELSE Panic(x, e, "established-peer-exists-" \o s.k)

\* on_connection_closed
OnConnClosed(x, e) ==
  LET s == x.st[e]
      x1 == [x EXCEPT !.pout[e] = {}] IN
  IF s.k = "none" THEN Panic(x1, e, "closed-peer-missing")
  ELSE LET x2 == SetSt(DropState(RemoveIn(RemoveOut(x1, e), e), e), e, None) IN
       CASE s.k = "oi" -> Rep(x2, e, "openfail")
         [] s.k = "open" -> SignalTask(x2, e, s.task)
         [] s.k = "val" ->
              IF s.out = "closed" /\ s.in = "validating" THEN SetSt(x2, e, [k |-> "vp", c |-> "closed"])
              ELSE IF s.out # "closed" THEN Rep(x2, e, "openfail")
              ELSE x2
         [] s.k = "vp" -> SetSt(x2, e, IF Mut = "vp_keeps_conn_state" THEN s ELSE [k |-> "vp", c |-> "closed"])
         [] OTHER -> x2

\* on_outbound_substream
OnOutbound(x, e, sid, sub) ==
  LET s == x.st[e]
      x1 == [x EXCEPT !.pout[e] = @ \ {sid}] IN
  IF s.k = "none" THEN Panic(DropEnd(x1, e, sub), e, "outbound-peer-missing")
  ELSE IF s.k = "oi" THEN
       IF s.sid # sid \/ sid \notin x.pout[e] THEN Panic(DropEnd(x1, e, sub), e, "outbound-id-mismatch")
       ELSE SetSt(NegOut(x1, e, sub), e, ValSt("closed", "neg", 0, 0, 0))
  ELSE IF s.k = "val" THEN
       IF s.in \in {"sending", "open"} THEN
            \* whatever the outbound state was, it is overwritten (an OutboundState::Open substream is dropped)
            SetSt(NegOut(DropEnd(x1, e, s.osub), e, sub), e, ValSt(s.in, "neg", s.isub, 0, 0))
       ELSE IF s.out = "oi" THEN
            IF s.osid # sid THEN Panic(DropEnd(x1, e, sub), e, "outbound-id-mismatch")
            ELSE SetSt(NegOut(x1, e, sub), e, ValSt(s.in, "neg", s.isub, 0, 0))
       ELSE Panic(SetSt(DropState(DropEnd(x1, e, sub), e), e, [k |-> "poisoned"]), e, "outbound-unexpected-validating")
  ELSE IF s.k = "closed" /\ s.po = sid /\ sid # 0 THEN SetSt(DropEnd(x1, e, sub), e, Closed(0))
  ELSE Panic(SetSt(DropEnd(x1, e, sub), e, [k |-> "poisoned"]), e, "outbound-unexpected-" \o s.k)

\* on_inbound_substream
OnInbound(x, e, sub) ==
  LET s == x.st[e] IN
  IF s.k = "none" THEN Panic(DropEnd(x, e, sub), e, "inbound-peer-missing")
  ELSE IF s.k = "vp" THEN DropEnd(x, e, sub)
  ELSE IF s.k = "closed" /\ s.po # 0 THEN DropEnd(x, e, sub)
  ELSE IF s.k = "closed" THEN SetSt(ReadHs(x, e, sub), e, ValSt("reading", "closed", 0, 0, 0))
  ELSE IF s.k = "val" /\ s.in = "closed" THEN SetSt(ReadHs(x, e, sub), e, [s EXCEPT !.in = "reading"])
  ELSE IF s.k = "oi" THEN SetSt(ReadHs(x, e, sub), e, ValSt("reading", "oi", 0, 0, s.sid))
  ELSE IF s.k = "val" /\ s.out = "closed" /\ s.in = "validating" THEN
       SetSt(DropEnd(DropEnd(x, e, sub), e, s.isub), e, [k |-> "vp", c |-> "open"])
  ELSE DropEnd(x, e, sub)

\* on_substream_open_failure
OnOpenFailure(x, e, sid) ==
  LET s == x.st[e] IN
  IF sid \notin x.pout[e] THEN Panic(x, e, "openfailure-not-pending")
  ELSE LET x1 == [x EXCEPT !.pout[e] = @ \ {sid}] IN
  IF s.k = "none" THEN Panic(x1, e, "openfailure-peer-missing")
  ELSE IF s.k = "oi" THEN Rep(SetSt(x1, e, Closed(0)), e, "openfail")
  ELSE IF s.k = "val" THEN
       LET x2 == DropState(RemoveOut(RemoveIn(x1, e), e), e) IN
       IF s.out = "closed" THEN SetSt(x2, e, Closed(0))
       \* the id of the substream that has just failed is kept as pending_open (transcribed as is)
       \* (recorded defect: a later open reuses the dead id and is never answered; repaired = the id is forgotten)
       ELSE IF s.out = "oi" THEN
            IF "failed-open-id-kept-pending" \in Fixed THEN Rep(SetSt(x2, e, Closed(0)), e, "openfail")
            ELSE Rep([SetSt(x2, e, Closed(s.osid)) EXCEPT !.kf = @ \cup {"failed-open-id-kept-pending"}], e, "openfail")
       ELSE Rep(SetSt(x2, e, Closed(0)), e, "openfail")
  ELSE IF s.k = "closed" THEN
       \* the pending id has failed: it is forgotten (seeded defect "openfail_keeps_pending": it is kept)
       IF s.po = sid THEN (IF Mut = "openfail_keeps_pending" THEN x1 ELSE SetSt(x1, e, Closed(0)))
       ELSE Panic(SetSt(x1, e, Closed(0)), e, "openfailure-closed-other-id")
  ELSE Panic(SetSt(x1, e, Closed(0)), e, "openfailure-unexpected-" \o s.k)

\* on_close_substream
OnCloseSubstream(x, e) ==
  LET s == x.st[e] IN
  IF s.k = "open" THEN SetSt(SignalTask(x, e, s.task), e, Closed(0)) ELSE x

\* on_validation_result
OnValidation(x, e, res) ==
  LET s == x.st[e] IN
  IF s.k = "none" THEN x
  ELSE IF s.k = "val" /\ s.in = "validating" THEN
       IF res = "reject" THEN
            SetSt(DropEnd(DropEnd(RemoveIn(RemoveOut(x, e), e), e, s.isub), e, s.osub), e, Closed(IF s.out = "oi" THEN s.osid ELSE 0))
       ELSE IF s.out = "closed" THEN
            IF CanOpenSub(x) THEN SetSt(SendHs(OpenSub(x, e), e, s.isub), e, ValSt("sending", "oi", 0, 0, x.nsid[e]))
            ELSE Rep(SetSt(DropEnd(x, e, s.isub), e, Closed(0)), e, "openfail")
       ELSE SetSt(SendHs(x, e, s.isub), e, [s EXCEPT !.in = "sending", !.isub = 0])
  ELSE IF s.k = "vp" THEN
       IF s.c = "open" THEN (IF res = "accept" THEN Rep(SetSt(x, e, Closed(0)), e, "openfail") ELSE SetSt(x, e, Closed(0)))
       ELSE (IF res = "accept" THEN Rep(SetSt(x, e, None), e, "openfail") ELSE SetSt(x, e, None))
  ELSE x

\* tail of on_handshake_event: both substreams open => stream opened, connection task started
HsTail(x, e) ==
  LET s == x.st[e] IN
  IF s.k = "val" /\ s.out = "open" /\ s.in = "open" THEN
       LET t == x.ntask + 1 IN
       Rep([SetSt(x, e, [k |-> "open", task |-> t]) EXCEPT
              !.ntask = t, !.ct[e] = @ \cup {[id |-> t, i |-> s.isub, o |-> s.osub, st |-> "run", sig |-> FALSE]}], e, "opened")
  ELSE x    \* a 5 s timer is pushed; see ProtoTimer

\* on_handshake_event(Negotiated{Outbound})
OnHsOutOk(x, e) ==
  LET s == x.st[e]
      sub == x.hsO[e].sub
      x1 == [x EXCEPT !.hsO[e] = NoHs] IN
  IF s.k = "none" THEN Panic(DropEnd(x1, e, sub), e, "handshake-peer-missing")
  ELSE IF s.k = "val" /\ s.out = "neg" THEN HsTail(SetSt(x1, e, [s EXCEPT !.out = "open", !.osub = sub]), e)
  ELSE Panic(SetSt(DropState(DropEnd(x1, e, sub), e), e, [k |-> "poisoned"]), e, "outbound-negotiated-unexpected-" \o s.k)

\* on_handshake_event(Negotiated{Inbound})
OnHsInOk(x, e) ==
  LET s == x.st[e]
      sub == x.hsI[e].sub
      ph == x.hsI[e].ph
      x1 == [x EXCEPT !.hsI[e] = NoHs] IN
  IF s.k = "none" THEN Panic(DropEnd(x1, e, sub), e, "handshake-peer-missing")
  ELSE IF s.k = "val" /\ s.in = "reading" THEN
       IF s.out # "closed" /\ e \in AutoSet THEN SetSt(SendHs(x1, e, sub), e, [s EXCEPT !.in = "sending"])
       ELSE [SetSt(x1, e, [s EXCEPT !.in = "validating", !.isub = sub]) EXCEPT
                 !.vf[e] = Append(@, [id |-> x.nval + 1, r |-> "wait"]), !.nval = @ + 1, !.curv[e] = x.nval + 1,
                 !.evq[e] = Append(@, [k |-> "validate", id |-> x.nval + 1])]
  ELSE IF s.k = "val" /\ s.in = "sending" THEN HsTail(SetSt(x1, e, [s EXCEPT !.in = "open", !.isub = sub]), e)
  ELSE Panic(SetSt(DropState(DropEnd(x1, e, sub), e), e, [k |-> "poisoned"]), e, "inbound-negotiated-unexpected-" \o s.k)

\* on_handshake_event(NegotiationError)
OnHsErr(x, e) ==
  LET s == x.st[e]
      x1 == RemoveIn(RemoveOut(x, e), e) IN
  IF s.k = "none" THEN Panic(x1, e, "handshake-peer-missing")
  ELSE IF s.k = "val" THEN
       LET x2 == SetSt(DropState(x1, e), e, Closed(IF s.out = "oi" THEN s.osid ELSE 0)) IN
       IF s.out # "closed" /\ Mut # "silent_negotiation_error" THEN Rep(x2, e, "openfail")
       \* the inbound substream died unreported: an open command ignored meanwhile is never answered
       ELSE IF s.out = "closed" /\ x.sw[e] THEN [x2 EXCEPT !.kf = @ \cup {"ignored-open-never-answered"}, !.sw[e] = FALSE]
       ELSE x2
  ELSE Panic(SetSt(x1, e, [k |-> "poisoned"]), e, "negotiation-error-unexpected-" \o s.k)

-----------------------------------------------------------------------------
(* readiness of the branches of the biased select in next_event()            *)
OutOk(x, e) == x.hsO[e].sub # 0 /\ x.subs[x.hsO[e].sub].h2 = "sent"
OutErr(x, e) == x.hsO[e].sub # 0 /\ ~OutOk(x, e) /\ (x.hsO[e].to \/ ~OtherAlive(x, e, x.hsO[e].sub))
InReadOk(x, e) == x.hsI[e].sub # 0 /\ x.hsI[e].ph = "read" /\ x.subs[x.hsI[e].sub].h1 = "sent"
InSendOk(x, e) == x.hsI[e].sub # 0 /\ x.hsI[e].ph = "send" /\ OtherAlive(x, e, x.hsI[e].sub)
InErr(x, e) == /\ x.hsI[e].sub # 0
               /\ \/ x.hsI[e].ph = "read" /\ ~InReadOk(x, e) /\ (x.hsI[e].to \/ ~OtherAlive(x, e, x.hsI[e].sub))
                  \/ x.hsI[e].ph = "send" /\ ~OtherAlive(x, e, x.hsI[e].sub)
B1(x, e) == OutOk(x, e) \/ OutErr(x, e) \/ InReadOk(x, e) \/ InSendOk(x, e) \/ InErr(x, e)
B2(x, e) == x.sdq[e] # <<>>
B4(x, e) == x.tq[e] # <<>>
B5(x, e) == \E i \in DOMAIN x.vf[e] : x.vf[e][i].r # "wait"
B6(x, e) == x.cmdq[e] # <<>>

Step(x2) == w' = x2 /\ UNCHANGED <<mon, hist>>

ProtoHs(e) ==
  /\ w.alive[e] /\ B1(w, e)
  /\ \/ OutOk(w, e) /\ Step(OnHsOutOk(w, e))
     \/ InReadOk(w, e) /\ Step(OnHsInOk(w, e))
     \/ InSendOk(w, e) /\ Step(OnHsInOk(w, e))
     \/ (OutErr(w, e) \/ InErr(w, e)) /\ Step(OnHsErr(w, e))

ProtoShutdown(e) ==
  /\ w.alive[e] /\ ~B1(w, e) /\ B2(w, e)
  \* `context.state = PeerState::Closed { pending_open: None }` whatever the state was
  \* (an overwritten PeerState::Open drops its shutdown sender: that Connection task closes too)
  /\ LET t == Head(w.sdq[e])
         s == w.st[e]
         \* the notice is stale when the peer state has moved on since that task's stream
         stale == ~(s.k = "none" \/ (s.k = "open" /\ s.task = t) \/ (s.k = "closed" /\ s.po = 0))
         x0 == IF stale THEN [w EXCEPT !.kf = @ \cup {"stale-shutdown-notice"}] ELSE w
         x1 == IF s.k = "open" THEN SignalTask(x0, e, s.task) ELSE x0 IN
     Step([(IF s.k = "none" THEN x1 ELSE SetSt(DropState(x1, e), e, Closed(0))) EXCEPT !.sdq[e] = Tail(@)])

ProtoTransport(e) ==
  /\ w.alive[e] /\ ~B1(w, e) /\ ~B2(w, e) /\ B4(w, e)
  /\ LET ev == Head(w.tq[e])
         x1 == [w EXCEPT !.tq[e] = Tail(@)] IN
     Step(CASE ev.t = "est" -> OnConnEstablished(x1, e)
            [] ev.t = "closed" -> OnConnClosed(x1, e)
            [] ev.t = "in" -> OnInbound(x1, e, ev.sub)
            [] ev.t = "out" -> OnOutbound(x1, e, ev.sid, ev.sub)
            [] ev.t = "fail" -> OnOpenFailure(x1, e, ev.sid)
            \* on_dial_failure: only a peer that is being dialed by this protocol is affected; any other state is put
            \* back as it was (seeded defect: the state is replaced by a fresh Closed one, dropping what it held)
            [] ev.t = "dialfail" ->
                 (IF x1.st[e].k = "dialing" THEN Rep(SetSt(x1, e, None), e, "openfail")
                  ELSE IF Mut = "dialfail_wipes_state" /\ x1.st[e].k # "none" THEN
                       SetSt(DropState(IF x1.st[e].k = "open" THEN SignalTask(x1, e, x1.st[e].task) ELSE x1, e), e, Closed(0))
                  ELSE x1))

ProtoValidation(e) ==
  /\ w.alive[e] /\ ~B1(w, e) /\ ~B2(w, e) /\ ~B4(w, e) /\ B5(w, e)
  /\ \E i \in DOMAIN w.vf[e] :
       /\ w.vf[e][i].r # "wait"
       \* pending_validations is keyed by peer only: the answer to an earlier request (whose substream died
       \* with its connection) is applied to the substream that is being validated now
       /\ LET stale == w.st[e].k = "val" /\ w.st[e].in = "validating" /\ w.vf[e][i].id # w.curv[e]
              x0 == IF stale THEN [w EXCEPT !.kf = @ \cup {"stale-validation-result"}] ELSE w IN
          Step(OnValidation([x0 EXCEPT !.vf[e] = RemoveAt(@, i)], e, w.vf[e][i].r))

ProtoCommand(e) ==
  /\ w.alive[e] /\ ~B1(w, e) /\ ~B2(w, e) /\ ~B4(w, e) /\ ~B5(w, e) /\ B6(w, e)
  /\ LET c == Head(w.cmdq[e])
         x1 == [w EXCEPT !.cmdq[e] = Tail(@)] IN
     Step(IF c = "open" THEN OnOpenSubstream(x1, e) ELSE OnCloseSubstream(x1, e))

-----------------------------------------------------------------------------
(* Connection task (connection.rs): one per opened stream                     *)
CtClosable(x, e, c) == c.sig \/ ~OtherAlive(x, e, c.i) \/ ~OtherAlive(x, e, c.o)
\* poll_next returns CloseConnection; close_connection() closes both substreams
\* Three ways to get there, in the order poll_next looks: the shutdown signal of the protocol (notify No); a failed
\* write / flush of the outbound substream when the user has something queued and the remote end is gone; the end of
\* the inbound substream.  Both errors notify the protocol (seeded defect: the flush error does not).
CtDetect(e) ==
  \E c \in w.ct[e] :
    /\ c.st = "run" /\ CtClosable(w, e, c)
    /\ \E how \in {"signal", "flush", "inbound"} :
         /\ how = "signal" => c.sig
         /\ how = "flush" => ~c.sig /\ ~OtherAlive(w, e, c.o)
         /\ how = "inbound" => ~c.sig /\ ~OtherAlive(w, e, c.i)
         /\ Step([DropEnd(DropEnd(w, e, c.i), e, c.o) EXCEPT
                    !.ct[e] = (@ \ {c}) \cup {[c EXCEPT !.st = IF how = "signal" \/ (how = "flush" /\ Mut = "flush_error_no_notify")
                                                                THEN "report" ELSE "notify"]}])
\* conn_closed_tx.send(peer).await -- only if the protocol did not ask for the shutdown
\* (every .await may yield: tokio's cooperative budget makes channel operations return Pending
\*  after a burst of work in the same poll, so the task can be descheduled between the two sends)
CtNotify(e) ==
  \E c \in w.ct[e] :
    /\ c.st = "notify"
    /\ Step([w EXCEPT !.sdq[e] = Append(@, c.id), !.ct[e] = (@ \ {c}) \cup {[c EXCEPT !.st = "report"]}])
\* report_notification_stream_closed().await
CtReport(e) ==
  \E c \in w.ct[e] :
    /\ c.st = "report"
    /\ Step([w EXCEPT !.ct[e] = @ \ {c},
                      !.evq[e] = IF Mut = "silent_task_end" /\ c.sig THEN @ ELSE Append(@, [k |-> "closed", id |-> 0])])

-----------------------------------------------------------------------------
(* environment: the connection (ConnLife guarantees)                          *)
EnvOpenOk ==
  \E r \in w.oreq :
    /\ w.conn = "up" /\ Len(w.subs) < MaxSub
    /\ LET id == Len(w.subs) + 1 IN
       Step([w EXCEPT !.oreq = @ \ {r},
                      !.subs = Append(@, [from |-> r.e, sid |-> r.sid, a |-> TRUE, b |-> TRUE, h1 |-> "no", h2 |-> "no"]),
                      !.tq[r.e] = Append(@, [t |-> "out", sid |-> r.sid, sub |-> id]),
                      !.tq[Other(r.e)] = Append(@, [t |-> "in", sub |-> id])])
EnvOpenFail ==
  \E r \in w.oreq :
    /\ w.nFail < MaxFail
    /\ Step([w EXCEPT !.oreq = @ \ {r}, !.nFail = @ + 1, !.tq[r.e] = Append(@, [t |-> "fail", sid |-> r.sid])])
Note(a) == hist' = Append(hist, a)

EnvCut ==
  /\ w.conn = "up" /\ w.nCut < MaxCut
  /\ w' = [KillConn(w) EXCEPT !.nCut = @ + 1]
  /\ mon' = [e \in E |-> MonEnv(mon[e], Other(e), "cut")]
  /\ Note([a |-> "cut"])
EnvReconnect ==
  /\ w.conn = "down" /\ w.nRec < MaxRec
  /\ w' = [w EXCEPT !.conn = "up", !.ep = @ + 1, !.nRec = @ + 1, !.tq = [e \in E |-> Append(@[e], [t |-> "est"])]]
  /\ mon' = [e \in E |-> MonEnv(mon[e], Other(e), "up")]
  /\ Note([a |-> "reconnect"])
\* TransportManager broadcasts DialFailure to all protocols: a dial of the application (or of another protocol, or an
\* own earlier one overtaken by an inbound connection) fails while this protocol has the peer in any state
ForeignDialFailure(e) ==
  /\ w.nFDF < MaxFDF
  /\ ~(\E i \in DOMAIN w.tq[e] : w.tq[e][i].t = "dialfail")
  /\ Step([w EXCEPT !.tq[e] = Append(@, [t |-> "dialfail"]), !.nFDF = @ + 1])

EnvDialFail(e) ==
  /\ w.conn = "down" /\ w.st[e].k = "dialing" /\ ~(\E i \in DOMAIN w.tq[e] : w.tq[e][i].t = "dialfail")
  /\ w.nRec >= MaxRec
  /\ Step([w EXCEPT !.tq[e] = Append(@, [t |-> "dialfail"])])

\* every internal step that needs no timer
Fast == \/ \E e \in E : ProtoHs(e) \/ ProtoShutdown(e) \/ ProtoTransport(e) \/ ProtoValidation(e) \/ ProtoCommand(e)
                       \/ CtDetect(e) \/ CtNotify(e) \/ CtReport(e) \/ EnvDialFail(e) \/ ForeignDialFailure(e)
        \/ EnvOpenOk \/ EnvOpenFail

\* timers arm: "peer didn't answer": outbound open, no inbound substream
ProtoTimer(e) ==
  /\ w.alive[e] /\ ~B1(w, e) /\ ~B2(w, e)
  /\ ~ENABLED Fast     \* 5 s is long compared with every internal step
  /\ w.st[e].k = "val" /\ w.st[e].out = "open" /\ w.st[e].in = "closed"
  /\ LET x1 == Rep(SetSt(DropEnd(w, e, w.st[e].osub), e, Closed(0)), e, "openfail") IN
     \* service.force_close(peer)
     /\ w' = (IF x1.conn = "up" THEN KillConn(x1) ELSE x1)
     /\ mon' = [f \in E |-> MonEnv(mon[f], Other(f), "down")]
     /\ UNCHANGED hist

\* negotiation timeout (10 s)
TimeoutTo(e) ==
  \/ /\ w.hsO[e].sub # 0 /\ ~w.hsO[e].to /\ ~OutOk(w, e) /\ ~OutErr(w, e)
     /\ w' = [w EXCEPT !.hsO[e].to = TRUE]
  \/ /\ w.hsI[e].sub # 0 /\ w.hsI[e].ph = "read" /\ ~w.hsI[e].to /\ ~InReadOk(w, e) /\ ~InErr(w, e)
     /\ w' = [w EXCEPT !.hsI[e].to = TRUE]
\* ... fires when the handshake is stuck for want of a user action: 10 s is long compared with every internal step
EnvTimeout(e) == ~ENABLED Fast /\ TimeoutTo(e) /\ UNCHANGED <<mon, hist>>
\* ... or because the environment starved the tasks for that long: a fault the monitor is told about
EnvStallTimeout(e) ==
  /\ w.nStall < MaxStall /\ ENABLED Fast
  /\ \E x \in {w} : TimeoutTo(e)
  /\ mon' = [f \in E |-> MonEnv(mon[f], Other(f), "stall")]
  /\ Note([a |-> "stall", e |-> e])

-----------------------------------------------------------------------------
(* the user of the NotificationHandle                                         *)
UOpen(e) ==
  /\ w.nOpen[e] < (IF e = "X" THEN MaxOpen ELSE MaxOpenY) /\ ~w.hopen[e]     \* with hopen the call returns Err(PeerAlreadyExists): nothing happens
  /\ w' = [w EXCEPT !.cmdq[e] = Append(@, "open"), !.nOpen[e] = @ + 1]
  /\ mon' = [mon EXCEPT ![e] = MonOpen(@, Other(e), "ok")]
  /\ Note([a |-> "open", e |-> e])
UClose(e) ==
  /\ w.nClose[e] < MaxClose /\ w.hopen[e]
  /\ w' = [w EXCEPT !.cmdq[e] = Append(@, "close"), !.nClose[e] = @ + 1]
  /\ mon' = [mon EXCEPT ![e] = MonClose(@, Other(e), "sent"), ![Other(e)] = MonEnv(@, e, "rclose")]
  /\ Note([a |-> "close", e |-> e])
UVal(e, v) ==
  /\ w.hval[e] # 0
  \* the handle keeps one sender per peer (of the validation request pulled last)
  /\ w' = [w EXCEPT !.vf[e] = [i \in DOMAIN @ |-> IF @[i].id = w.hval[e] THEN [@[i] EXCEPT !.r = v] ELSE @[i]], !.hval[e] = 0]
  /\ mon' = [mon EXCEPT ![e] = MonVal(@, Other(e), v, "sent")]
  /\ Note([a |-> "val", e |-> e, v |-> v])
UPull(e) ==
  /\ w.evq[e] # <<>>
  /\ LET k == Head(w.evq[e]).k
         id == Head(w.evq[e]).id IN
     /\ w' = [w EXCEPT !.evq[e] = Tail(@),
                       !.hopen[e] = IF k = "opened" THEN TRUE ELSE IF k = "closed" THEN FALSE ELSE @,
                       !.hval[e] = IF k = "validate" THEN id ELSE @,
                       \* inserting a new sender drops the previous one: its future resolves to Reject
                       !.vf[e] = IF k = "validate" /\ w.hval[e] # 0
                                   THEN [i \in DOMAIN @ |-> IF @[i].id = w.hval[e] /\ @[i].r = "wait" THEN [@[i] EXCEPT !.r = "reject"] ELSE @[i]]
                                   ELSE @]
     \* an open failure on one side may end a stream the other side has already reported: the environment tells it
     /\ mon' = [mon EXCEPT ![e] = MonEvent(@, Other(e), k),
                           ![Other(e)] = IF k = "openfail" THEN MonEnv(@, e, "rfault") ELSE @]
     /\ Note([a |-> "pull", e |-> e, k |-> k])

Internal == \/ Fast \/ \E e \in E : ProtoTimer(e) \/ EnvTimeout(e)
\* Reduction: the user drains its event queue eagerly (pulling is invisible to everybody else and the
\* monitors are per endpoint, so only "command issued before an available event was read" is lost; a
\* command that acts on an outdated view is still covered by the lag of the command queue).
Next == IF \E e \in E : w.evq[e] # <<>>
          THEN \E e \in E : UPull(e) \/ (EarlyVal /\ w.evq[e] # <<>> /\ \E v \in {"accept", "reject"} : UVal(e, v))
        ELSE \/ Internal
             \/ EnvCut \/ EnvReconnect \/ \E e \in E : EnvStallTimeout(e)
             \/ \E e \in E : UOpen(e) \/ UClose(e) \/ \E v \in {"accept", "reject"} : UVal(e, v)

Spec == Init /\ [][Next]_vars

-----------------------------------------------------------------------------
(* invariants                                                                 *)
Tagged == w.kf \cap KnownTags # {}
MonOK == Tagged \/ \A e \in E : mon[e].bad = ""
\* Poisoned / debug_assert!(false) arms: only the recorded ones may be reachable
NoUnknownPanic == w.kf \subseteq KnownTags
\* nothing can happen any more without the user or a fault
Quiescent == /\ \A e \in E : w.alive[e]
             /\ ~ENABLED Internal
             /\ w.oreq = {}
             /\ \A e \in E : w.evq[e] = <<>> /\ w.hsI[e].sub = 0 /\ w.hsO[e].sub = 0
QuiesceOK == (Quiescent /\ ~Tagged) => \A e \in E : MonQuiesce(mon[e], TRUE).bad = ""
\* handle and protocol agree at quiescence (an open stream in the user's view has a live task or state Open)
View == w
GenView == w
Emit == (hist' # hist) => PrintT(<<"B", ToJson(hist')>>)
=============================================================================
