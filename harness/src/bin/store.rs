//! C17: drive the real `MemoryStore` with op sequences (TLC-generated behaviours or seeded
//! random histories) and record every call with its result and the full projected state.
use litep2p::{verif::kad::*, PeerId};
use rand::{rngs::StdRng, Rng, SeedableRng};
use serde_json::{json, Value};
use std::time::{Duration, Instant};
use vharness::*;

// period length, op window, provider ttl (see DESIGN.md C17: logical time realised in real time)
const DELTA: Duration = Duration::from_millis(60);
const WINDOW: Duration = Duration::from_millis(20);
const TTL: Duration = Duration::from_millis(30);
const FAR: Duration = Duration::from_secs(3600);

struct Universe {
    keys: Vec<(String, RecordKey)>,
    provs: Vec<(String, PeerId)>, // excludes local
    local: PeerId,
}

fn dist(peer: &PeerId, key: &RecordKey) -> [u8; 32] {
    xor32(&sha256(&peer.to_bytes()), &sha256(key.as_ref()))
}

impl Universe {
    fn all(&self) -> Vec<(String, PeerId)> {
        let mut v = self.provs.clone();
        v.push(("local".into(), self.local));
        v
    }
    fn rank(&self, key: &RecordKey, peer: &PeerId) -> i64 {
        let d = dist(peer, key);
        1 + self.all().iter().filter(|(_, q)| dist(q, key) < d).count() as i64
    }
    fn name_of(&self, peer: &PeerId) -> String {
        self.all().iter().find(|(_, q)| q == peer).map(|(n, _)| n.clone()).unwrap_or("?".into())
    }
    fn key(&self, name: &str) -> RecordKey {
        self.keys.iter().find(|(n, _)| n == name).expect("key").1.clone()
    }
    fn key_name(&self, k: &RecordKey) -> String {
        self.keys.iter().find(|(_, q)| q == k).map(|(n, _)| n.clone()).unwrap_or("?".into())
    }
}

/// Build the universe. With `want` (a TLC behaviour header) peers and keys are searched so that
/// the top `bits` bits of their SHA-256 equal the abstract hashes of the model, which makes the
/// real XOR-distance order equal to the model's order.
fn universe_for(nkeys: usize, nprovs: usize, want: Option<&Value>, rng: &mut StdRng) -> Universe {
    let top = |h: &[u8; 32], bits: u32| (h[0] >> (8 - bits)) as u64;
    match want {
        None => Universe {
            keys: (0..nkeys).map(|i| (format!("k{i}"), RecordKey::from(vec![b'k', i as u8, rng.gen()]))).collect(),
            provs: (0..nprovs).map(|i| (format!("p{i}"), PeerId::random())).collect(),
            local: PeerId::random(),
        },
        Some(w) => {
            let bits = w["bits"].as_u64().unwrap() as u32;
            let find_peer = |name: &str| loop {
                let p = PeerId::random();
                if top(&sha256(&p.to_bytes()), bits) == w["phash"][name].as_u64().unwrap() {
                    return p;
                }
            };
            let mut keys = vec![];
            // key names come from the behaviour's rank table (it may use any subset of the model's keys)
            let mut names: Vec<String> = w["ranks"].as_object().map(|o| o.keys().cloned().collect()).unwrap_or_default();
            names.sort();
            if names.is_empty() {
                names = (0..nkeys).map(|i| format!("k{i}")).collect();
            }
            for (i, name) in names.into_iter().enumerate() {
                let mut n = 0u32;
                let k = loop {
                    let k = RecordKey::from([&[b'k', i as u8][..], &n.to_be_bytes()[..]].concat());
                    if top(&sha256(k.as_ref()), bits) == w["khash"][&name].as_u64().unwrap() {
                        break k;
                    }
                    n += 1;
                };
                keys.push((name, k));
            }
            let u = Universe {
                keys,
                provs: (0..nprovs).map(|i| (format!("p{i}"), find_peer(&format!("p{i}")))).collect(),
                local: find_peer("local"),
            };
            for (kn, k) in &u.keys {
                for (pn, p) in u.all() {
                    assert_eq!(Some(u.rank(k, &p)), w["ranks"][kn][&pn].as_i64(), "rank table mismatch");
                }
            }
            u
        }
    }
}

struct Clock {
    t0: Instant,
    now: i64,
}
impl Clock {
    fn window_ok(&self) -> bool {
        let t = Instant::now();
        t >= self.t0 + DELTA * self.now as u32 && t <= self.t0 + DELTA * self.now as u32 + WINDOW
    }
    /// abstract expiry -> real instant (midpoint of the gap before period e)
    fn real(&self, e: i64) -> Option<Instant> {
        if e < 0 {
            return None;
        }
        if e > 50 {
            return Some(self.t0 + FAR + Duration::from_secs(e as u64));
        }
        let gap_mid = (DELTA - WINDOW) / 2;
        Some(if e == 0 { self.t0 - gap_mid } else { self.t0 + DELTA * e as u32 - gap_mid })
    }
    /// real instant -> (dead_from, ambiguous)
    fn abs(&self, t: Option<Instant>) -> (i64, i64) {
        let Some(t) = t else { return (-1, 0) };
        if t >= self.t0 + FAR {
            return ((t - (self.t0 + FAR)).as_secs() as i64, 0);
        }
        let mut n = 0i64;
        loop {
            // definitely expired in period n iff t <= t0 + n*DELTA
            if t <= self.t0 + DELTA * n as u32 {
                // ambiguous iff t lies inside the window of period n-1
                let amb = n >= 1 && t >= self.t0 + DELTA * (n - 1) as u32 && t <= self.t0 + DELTA * (n - 1) as u32 + WINDOW;
                return (n, amb as i64);
            }
            n += 1;
            if n > 1000 {
                return (1000, 0);
            }
        }
    }
}

fn dump(store: &MemoryStore, u: &Universe, clk: &Clock) -> Value {
    let mut recs: Vec<Value> = store
        .verif_records()
        .iter()
        .map(|r| json!({"k": u.key_name(&r.key), "size": r.value.len(), "exp": clk.abs(r.expires).0}))
        .collect();
    recs.sort_by_key(|v| v.to_string());
    let provs_raw = store.verif_providers();
    let mut provs = serde_json::Map::new();
    let mut pkeys = vec![];
    for (kn, k) in &u.keys {
        let list: Vec<Value> = match provs_raw.iter().find(|(kk, _)| kk == k) {
            Some((_, l)) => {
                pkeys.push(kn.clone());
                l.iter().map(|p| prov_json(p.provider, k, p.addresses.len(), Some(p.expires), u, clk)).collect()
            }
            None => vec![],
        };
        provs.insert(kn.clone(), Value::Array(list));
    }
    let mut local: Vec<String> = store.verif_local_providers().iter().map(|k| u.key_name(k)).collect();
    local.sort();
    json!({"recs": recs, "provs": provs, "pkeys": pkeys, "local": local, "now": clk.now})
}

fn prov_json(p: PeerId, k: &RecordKey, naddr: usize, exp: Option<Instant>, u: &Universe, clk: &Clock) -> Value {
    let (e, amb) = clk.abs(exp);
    json!({"p": u.name_of(&p), "rank": u.rank(k, &p), "exp": e, "amb": amb, "naddr": naddr})
}

fn addrs(n: usize) -> Vec<multiaddr::Multiaddr> {
    (0..n).map(|i| format!("/ip4/10.0.{}.{}/tcp/{}", i / 250, i % 250 + 1, 1000 + i).parse().unwrap()).collect()
}

/// Execute one behaviour; returns the event lines, or None if the real-time window was missed
/// (the behaviour is then re-run; never reported).
fn run(b: usize, cfg: &Value, ops: &[Value], u: &Universe, src: &str) -> Option<Vec<String>> {
    let geti = |k: &str| cfg[k].as_u64().unwrap() as usize;
    let mut store = MemoryStore::with_config(
        u.local,
        MemoryStoreConfig {
            max_records: geti("maxRecords"),
            max_record_size_bytes: geti("maxSize"),
            max_provider_keys: geti("maxProvKeys"),
            max_provider_addresses: geti("maxAddrs"),
            max_providers_per_key: geti("maxProvPerKey"),
            provider_refresh_interval: Duration::from_secs(3600),
            provider_ttl: TTL,
        },
    );
    let mut clk = Clock { t0: Instant::now(), now: 0 };
    let knames: Vec<&String> = u.keys.iter().map(|(n, _)| n).collect();
    let mut out = vec![json!({"e": "reset", "b": b, "src": src, "cfg": cfg, "keys": knames}).to_string()];
    for o in ops {
        let op = o["op"].as_str().unwrap();
        let kn = o.get("k").and_then(|k| k.as_str()).unwrap_or("");
        let mut logged = o.clone();
        let ret: Value = match op {
            "tick" => {
                clk.now += 1;
                let until = clk.t0 + DELTA * clk.now as u32;
                let n = Instant::now();
                if until > n {
                    std::thread::sleep(until - n);
                }
                json!("ok")
            }
            "get" => {
                let k = u.key(kn);
                match catch(|| store.get(&k).cloned()) {
                    Ok(Some(r)) => json!({"found": true, "size": r.value.len(), "exp": clk.abs(r.expires).0}),
                    Ok(None) => json!({"found": false}),
                    Err(_) => json!("panic"),
                }
            }
            "put" => {
                let k = u.key(kn);
                let size = o["size"].as_u64().unwrap() as usize;
                let exp = o["exp"].as_i64().unwrap();
                let mut r = Record::new(k, vec![7u8; size]);
                r.expires = clk.real(exp);
                match catch(|| store.put(r)) {
                    Ok(()) => json!("ok"),
                    Err(_) => json!("panic"),
                }
            }
            "get_providers" => {
                let k = u.key(kn);
                match catch(|| store.get_providers(&k)) {
                    Ok(l) => {
                        // expiry of a returned provider: look it up in the pre-call dump is not
                        // possible after the call, so report the entry as stored after the call
                        let after = store.verif_providers();
                        let stored = after.iter().find(|(kk, _)| kk == &k).map(|(_, l)| l.clone()).unwrap_or_default();
                        Value::Array(
                            l.iter()
                                .map(|c| {
                                    let exp = stored.iter().find(|s| s.provider == c.peer).map(|s| s.expires);
                                    match exp {
                                        Some(e) => prov_json(c.peer, &k, c.addresses.len(), Some(e), u, &clk),
                                        // returned but no longer stored: report as expiry unknown (0 = long dead)
                                        None => json!({"p": u.name_of(&c.peer), "rank": u.rank(&k, &c.peer), "exp": 0, "amb": 0, "naddr": c.addresses.len(), "ghost": true}),
                                    }
                                })
                                .collect(),
                        )
                    }
                    Err(_) => json!("panic"),
                }
            }
            "put_provider" => {
                let k = u.key(kn);
                let pn = o["p"].as_str().unwrap();
                let p = u.provs.iter().find(|(n, _)| n == pn).expect("prov").1;
                let n = o["naddr"].as_u64().unwrap() as usize;
                logged["rank"] = json!(u.rank(&k, &p));
                match catch(|| store.put_provider(k.clone(), ContentProvider { peer: p, addresses: addrs(n) })) {
                    Ok(b) => json!(b),
                    Err(_) => json!("panic"),
                }
            }
            "put_local" => {
                let k = u.key(kn);
                logged["rank"] = json!(u.rank(&k, &u.local));
                match catch(|| store.put_local_provider(k.clone(), Quorum::One)) {
                    Ok(b) => json!(b),
                    Err(_) => json!("panic"),
                }
            }
            "remove_local" => {
                let k = u.key(kn);
                match catch(|| store.remove_local_provider(k)) {
                    Ok(()) => json!("ok"),
                    Err(_) => json!("panic"),
                }
            }
            other => panic!("unknown op {other}"),
        };
        if !clk.window_ok() {
            return None;
        }
        out.push(json!({"e": "op", "o": logged, "ret": ret, "st": dump(&store, u, &clk)}).to_string());
    }
    Some(out)
}

fn random_behaviour(rng: &mut StdRng, len: usize) -> (Value, Vec<Value>, usize, usize) {
    let nkeys = rng.gen_range(1..=5);
    let nprovs = rng.gen_range(1..=7);
    let small = [0u64, 1, 1, 2, 3];
    let cfg = json!({
        "maxRecords": small[rng.gen_range(0..small.len())],
        "maxSize": small[rng.gen_range(0..small.len())],
        "maxProvKeys": small[rng.gen_range(0..small.len())],
        "maxProvPerKey": ([1u64, 1, 2, 3, 4][rng.gen_range(0..5)]),
        "maxAddrs": small[rng.gen_range(0..small.len())],
    });
    let mut ops = vec![];
    let mut ticks = 0;
    for _ in 0..len {
        let k = format!("k{}", rng.gen_range(0..nkeys));
        let o = match rng.gen_range(0..100) {
            0..=19 => json!({"op": "put", "k": k, "size": rng.gen_range(0..5), "exp": ([-1i64, -1, 0, 1, 2, 3, 4, 100, 200][rng.gen_range(0..9)])}),
            20..=31 => json!({"op": "get", "k": k}),
            32..=61 => json!({"op": "put_provider", "k": k, "p": format!("p{}", rng.gen_range(0..nprovs)), "rank": 0, "naddr": rng.gen_range(0..5)}),
            62..=73 => json!({"op": "get_providers", "k": k}),
            74..=83 => json!({"op": "put_local", "k": k, "rank": 0}),
            84..=91 => json!({"op": "remove_local", "k": k}),
            _ => {
                if ticks < 4 {
                    ticks += 1;
                    json!({"op": "tick"})
                } else {
                    json!({"op": "get_providers", "k": k})
                }
            }
        };
        ops.push(o);
    }
    (cfg, ops, nkeys, nprovs)
}

fn main() {
    let args = Args::parse();
    quiet_panics();
    let seed = args.u64("seed", 1);
    let out = args.str("out", "trace.ndjson");
    let threads = args.u64("threads", 8) as usize;
    // job list: (index, cfg, ops, nkeys, nprovs, ranks, src)
    let mut jobs: Vec<(usize, Value, Vec<Value>, usize, usize, Option<Value>, String)> = vec![];
    if let Some(path) = args.get("behaviours") {
        for (i, b) in read_jsonl(path).into_iter().enumerate() {
            let ops = b["ops"].as_array().unwrap().clone();
            jobs.push((i, b["cfg"].clone(), ops, b["nkeys"].as_u64().unwrap() as usize, b["nprovs"].as_u64().unwrap() as usize, Some(json!({"ranks": b["ranks"], "phash": b["phash"], "khash": b["khash"], "bits": b["bits"]})), "tlc".into()));
        }
    }
    let nrandom = args.u64("random", 0) as usize;
    let rlen = args.u64("len", 40) as usize;
    let mut rng = StdRng::seed_from_u64(seed);
    for _ in 0..nrandom {
        let (cfg, ops, nk, np) = random_behaviour(&mut rng, rlen);
        let i = jobs.len();
        jobs.push((i, cfg, ops, nk, np, None, "random".into()));
    }
    let njobs = jobs.len();
    let jobs = std::sync::Arc::new(std::sync::Mutex::new(jobs.into_iter().rev().collect::<Vec<_>>()));
    let results = std::sync::Arc::new(std::sync::Mutex::new(Vec::<(usize, Vec<String>)>::new()));
    let skipped = std::sync::Arc::new(std::sync::atomic::AtomicUsize::new(0));
    let retried = std::sync::Arc::new(std::sync::atomic::AtomicUsize::new(0));
    let mut hs = vec![];
    for t in 0..threads {
        let (jobs, results, skipped, retried) = (jobs.clone(), results.clone(), skipped.clone(), retried.clone());
        hs.push(std::thread::spawn(move || {
            let mut rng = StdRng::seed_from_u64(seed ^ (0x9e37 + t as u64));
            let mut cache: Option<(String, Universe)> = None;
            loop {
                let job = jobs.lock().unwrap().pop();
                let Some((i, cfg, ops, nk, np, ranks, src)) = job else { break };
                let ck = format!("{nk}/{np}/{}", ranks.as_ref().map(|r| r.to_string()).unwrap_or_default());
                if ranks.is_none() || cache.as_ref().map(|(k, _)| k != &ck).unwrap_or(true) {
                    cache = Some((ck, universe_for(nk, np, ranks.as_ref(), &mut rng)));
                }
                let u = &cache.as_ref().unwrap().1;
                let mut done = false;
                for _attempt in 0..4 {
                    if let Some(lines) = run(i, &cfg, &ops, u, &src) {
                        results.lock().unwrap().push((i, lines));
                        done = true;
                        break;
                    }
                    retried.fetch_add(1, std::sync::atomic::Ordering::Relaxed);
                }
                if !done {
                    skipped.fetch_add(1, std::sync::atomic::Ordering::Relaxed);
                }
            }
        }));
    }
    for h in hs {
        h.join().unwrap();
    }
    let mut res = std::mem::take(&mut *results.lock().unwrap());
    res.sort_by_key(|(i, _)| *i);
    let mut lines = vec![];
    let mut events = 0;
    for (_, l) in &res {
        events += l.len() - 1;
        lines.extend(l.iter().cloned());
    }
    write_lines(&out, &lines);
    let summary = json!({"behaviours": njobs, "executed": res.len(), "events": events,
        "skipped_timing": skipped.load(std::sync::atomic::Ordering::Relaxed),
        "retried_timing": retried.load(std::sync::atomic::Ordering::Relaxed)});
    println!("SUMMARY {summary}");
}
