---------------------------- MODULE DecodersTrace ----------------------------
(* Trace validation for C19: every observation of a real litep2p decoder must *)
(* be allowed by the Prop layer (MODE=prop decides C19) or equal the          *)
(* transcription (MODE=impl, drift detector).                                 *)
EXTENDS Decoders, TLC, Json, IOUtils

Rec == ndJsonDeserialize(IOEnv.TRACE)
Mode == IOEnv.MODE

VARIABLES l
tvars == <<l>>
TInit == l = 1

TReset == Rec[l].e = "reset"

\* LengthDelimited fed the concretised byte classes in some chunking
TLd == /\ Rec[l].e = "ld"
       /\ PropDecode(Rec[l].final, Rec[l].alloc, Rec[l].limit)
       /\ Mode = "impl" =>
            LET r == LdRun(LdInit, Rec[l].toks) IN Rec[l].lens = LdLens(r) /\ Rec[l].final = LdFinal(r)

ImplExpected(kind, c) ==
  CASE kind = "rps" -> RpsVerdict(c)
    [] kind = "sub" -> SubVerdict(c)
    [] kind = "msg" -> MsgVerdict(c)
    [] kind = "lis" -> ListenerVerdict(c)
    [] kind = "dia" -> DialerVerdict(c)
    [] kind = "kadpid" -> KadPeerIdVerdict(c)
    [] kind = "bsblk" -> BsBlockVerdict(c)

\* a class of one of the decision tables
TCls == /\ Rec[l].e = "cls"
        /\ PropDecode(Rec[l].out, Rec[l].alloc, Rec[l].limit)
        /\ Mode = "impl" => Rec[l].out = ImplExpected(Rec[l].kind, Rec[l].c)

\* a substream without a configured maximum: nothing bounds the allocation, but the
\* decoder still must not panic / abort
TNoMax == /\ Rec[l].e = "nomax"
          /\ Rec[l].out \notin BadOutcomes

\* a protobuf-level decoder on a (damaged) encoding
TPb == /\ Rec[l].e = "pb"
       /\ [dec |-> Rec[l].dec, op |-> Rec[l].op] \in PbPlan
       /\ PropDecode(Rec[l].out, Rec[l].alloc, Rec[l].limit)

\* Decode(Encode(v)) = v for a value encoded by the library itself
TRt == /\ Rec[l].e = "rt"
       /\ PropRoundTrip(Rec[l].out, Rec[l].same)

TNext == /\ l <= Len(Rec)
         /\ l' = l + 1
         /\ (TReset \/ TLd \/ TCls \/ TNoMax \/ TPb \/ TRt)

TSpec == TInit /\ [][TNext]_tvars

Accepted ==
  LET d == TLCGet("stats").diameter IN
  IF d - 1 = Len(Rec) THEN PrintT(<<"TRACE_OK", Len(Rec)>>)
  ELSE PrintT(<<"TRACE_REJECTED_AT", d>>) /\ FALSE
=============================================================================
