------------------------------ MODULE Decoders ------------------------------
(***************************************************************************)
(* Decoders of remote-chosen bytes (litep2p), property C19.                *)
(*                                                                         *)
(* Impl* operators transcribe the stateful decoders and the case analyses; *)
(* they give the exact expected outcome per abstract input class (used as  *)
(* the drift detector).  The Prop layer is what C19 states: every decoder  *)
(* returns a value or an error (no panic, no hang), its largest single     *)
(* allocation stays within the configured limit plus a constant, and what  *)
(* the library's own encoders produce decodes to the value encoded.        *)
(*                                                                         *)
(*  A  LengthDelimited (multistream-select framing), a state machine over  *)
(*     byte classes                                                        *)
(*  B  Substream length prefix: read_payload_size + the max-size check     *)
(*  C  Message::decode (multistream-select message) case analysis          *)
(*  D  webrtc_listener_negotiate / WebRtcDialerState::register_response    *)
(*  E  protobuf decoders: the plan (message kind x mutation operator) and  *)
(*     the small values for the encode/decode round trip                   *)
(***************************************************************************)
EXTENDS Naturals, Integers, Sequences, FiniteSets

-----------------------------------------------------------------------------
(* A. LengthDelimited.  Byte classes: a byte is read either as (part of) a  *)
(* length prefix or as frame data.                                          *)
(*   00 01 02 03   these byte values        0a  '\n' (10)    2f  '/' (47)   *)
(*   lo  any other byte 06..7f              80  0x80         hi  81..ff     *)
LdTokens == {"00", "01", "02", "03", "0a", "2f", "lo", "80", "hi"}
LdCont == {"80", "hi"}
Big == 1000                       \* "more than any bounded input supplies"
LdVal(t) == CASE t = "00" -> 0 [] t = "01" -> 1 [] t = "02" -> 2 [] t = "03" -> 3
              [] t = "0a" -> 10 [] t = "2f" -> 47 [] OTHER -> Big
MaxFrame == 16383                 \* MAX_FRAME_SIZE: two length bytes

\* state [st, rem, cur, frames]: st in len0 | len1 | data | invalid | maxlen
LdInit == [st |-> "len0", rem |-> 0, cur |-> <<>>, frames |-> <<>>]

LdStep(s, t) ==
  CASE s.st = "len0" ->
         IF t \in LdCont THEN [s EXCEPT !.st = "len1"]
         ELSE IF t = "00" THEN [s EXCEPT !.frames = Append(@, <<>>)]          \* empty frame
         ELSE [s EXCEPT !.st = "data", !.rem = LdVal(t), !.cur = <<>>]
    [] s.st = "len1" ->
         IF t \in LdCont THEN [s EXCEPT !.st = "maxlen"]                      \* third length byte
         ELSE IF t = "00" THEN [s EXCEPT !.st = "invalid"]                    \* non-minimal prefix
         ELSE [s EXCEPT !.st = "data", !.rem = Big, !.cur = <<>>]             \* >= 128 bytes
    [] s.st = "data" ->
         IF s.rem = 1 THEN [s EXCEPT !.st = "len0", !.rem = 0, !.cur = <<>>,
                                     !.frames = Append(@, Append(s.cur, t))]
         ELSE [s EXCEPT !.rem = @ - 1, !.cur = Append(@, t)]
    [] OTHER -> s                                                             \* errors absorb

\* what the stream yields last once the input ends
LdFinal(s) == CASE s.st = "len0" -> "end" [] s.st \in {"len1", "data"} -> "eof" [] OTHER -> s.st

RECURSIVE LdRun(_, _)
LdRun(s, toks) == IF toks = <<>> \/ s.st \in {"invalid", "maxlen"} THEN s ELSE LdRun(LdStep(s, Head(toks)), Tail(toks))
LdLens(s) == [i \in 1..Len(s.frames) |-> Len(s.frames[i])]
\* the frame buffer is sized from the prefix (`read_buffer.resize(len)`): what a prefix can
\* announce never exceeds two length bytes' worth
LdAllocBounded(s) == s.st = "data" => s.rem + Len(s.cur) <= MaxFrame
-----------------------------------------------------------------------------
(* B. Substream length prefix.  Class [k, flavour, term, rel]:              *)
(*   k        number of continuation bytes before the terminator (0..11)    *)
(*   flavour  zeros (0x80 ...) | ones (0xff ...)                            *)
(*   term     terminating byte: 00 | lo (01..7f) | none (input ends)        *)
(*   rel      decoded size vs configured maximum: le | eq | gt | nomax      *)
RpsClasses == [k : 0..11, flavour : {"zeros", "ones"}, term : {"00", "lo", "none"}]
SubClasses == [k : 0..11, flavour : {"zeros", "ones"}, term : {"00", "lo", "none"}, rel : {"le", "eq", "gt"}]

\* read_payload_size over the first min(len, 10) bytes
RpsVerdict(c) ==
  IF c.k >= 10 THEN "overflow"
  ELSE IF c.term = "none" THEN "not-enough-bytes"
  ELSE IF c.term = "00" /\ c.k > 0 THEN "decode-error"          \* NotMinimal
  ELSE "ok"
\* Stream::poll_next of a substream with UnsignedVarint(Some(max)) fed the prefix, then
\* `size` payload bytes when the prefix was accepted, then end of stream
SubVerdict(c) ==
  LET r == RpsVerdict(c) IN
  IF r \in {"overflow", "decode-error"} THEN "error"
  ELSE IF r = "not-enough-bytes" THEN "end"                     \* stream closed inside the prefix
  ELSE IF c.rel = "gt" THEN "error"                             \* size > max: refused before allocating
  ELSE "frame"

-----------------------------------------------------------------------------
(* C. Message::decode.  Class [shape, entries, bad, tail]:                  *)
(*   shape   header | na | ls | proto | proto_inner_nl | proto_no_nl |      *)
(*           empty | list                                                   *)
(*   for shape = list: entries in 0 | 1 | 2 | 1000 | 1001; bad = defect of  *)
(*   the last entry: none | len0 | len_gt_tail | no_nl | no_slash |         *)
(*   varint_nonminimal | varint_toolong; tail = nl | missing | extra        *)
MsgShapes == {"header", "na", "ls", "proto", "proto_inner_nl", "proto_no_nl", "empty", "list"}
MsgBads == {"none", "len0", "len_gt_tail", "no_nl", "no_slash", "varint_nonminimal", "varint_toolong"}
MsgClasses ==
       [shape : MsgShapes \ {"list"}, entries : {"0"}, bad : {"none"}, tail : {"nl"}]
  \cup {c \in [shape : {"list"}, entries : {"0", "1", "2", "1000", "1001"}, bad : MsgBads, tail : {"nl", "missing", "extra"}] :
          c.entries = "0" => c.bad = "none"}

MsgVerdict(c) ==
  CASE c.shape = "header" -> "header"
    [] c.shape = "na" -> "na"
    [] c.shape = "ls" -> "ls"
    [] c.shape = "proto" -> "protocol"
    \* first byte '/' (47) read as an entry length that exceeds what follows
    [] c.shape \in {"proto_inner_nl", "proto_no_nl", "empty"} -> "error"
    [] c.shape = "list" ->
         IF c.bad # "none" THEN "error"                      \* (checked before the count limit matters
                                                             \*  only when the bad entry is reached)
         ELSE IF c.entries = "1001" THEN "error"              \* TooManyProtocols
         ELSE IF c.tail # "nl" THEN "error"                   \* no terminating newline / trailing bytes
         ELSE "protocols"

-----------------------------------------------------------------------------
(* D. webrtc negotiation payloads.  A payload is a sequence of at most two   *)
(* length-prefixed messages plus optional trailing bytes.                    *)
(* message class: header | proto_sup | proto_unsup | na | ls | list |        *)
(*                invalid (undecodable content) | truncated (length prefix   *)
(*                larger than what follows) | badvarint | none               *)
NegMsgs == {"header", "proto_sup", "proto_unsup", "na", "ls", "list", "invalid", "truncated", "badvarint"}
ListenerClasses ==
  {c \in [hr : BOOLEAN, first : NegMsgs, second : NegMsgs \cup {"none"}, trailing : BOOLEAN] :
     /\ (c.first \in {"truncated", "badvarint"} => c.second = "none" /\ ~c.trailing)   \* nothing parseable follows
     /\ (c.second \in {"truncated", "badvarint"} => ~c.trailing)
     /\ (c.second = "none" => ~c.trailing)}

Decodable(m) == m \in {"header", "proto_sup", "proto_unsup", "na", "ls", "list"}
IsProto(m) == m \in {"proto_sup", "proto_unsup"}

\* webrtc_listener_negotiate(supported, payload, header_received)
ListenerVerdict(c) ==
  IF ~Decodable(c.first) THEN "error"
  ELSE IF c.first = "header" /\ ~c.hr THEN
         IF c.second = "none" THEN "pending"
         ELSE IF ~Decodable(c.second) THEN "error"
         ELSE IF ~IsProto(c.second) THEN "error"
         ELSE IF c.trailing THEN "error"
         ELSE IF c.second = "proto_sup" THEN "accepted" ELSE "rejected"
  ELSE IF IsProto(c.first) /\ c.hr THEN
         IF c.second # "none" THEN "error"                    \* anything after the protocol is trailing data
         ELSE IF c.first = "proto_sup" THEN "accepted" ELSE "rejected"
  ELSE "error"

\* WebRtcDialerState::register_response in state WaitingResponse, proposing `proto_sup`
DialerClasses ==
  {c \in [first : NegMsgs \cup {"none"}, second : NegMsgs \cup {"none"}, trailing : BOOLEAN] :
     /\ (c.first \in {"truncated", "badvarint", "none"} => c.second = "none" /\ ~c.trailing)
     /\ (c.second \in {"truncated", "badvarint"} => ~c.trailing)
     /\ (c.second = "none" => ~c.trailing)}
DialerVerdict(c) ==
  IF c.first = "none" THEN "error"                            \* empty payload in WaitingResponse: StateMismatch
  ELSE IF c.first \in {"truncated", "badvarint"} THEN "error"
  ELSE IF c.first # "header" THEN "error"                     \* incl. undecodable content: StateMismatch / Failed
  ELSE CASE c.second = "none" -> "not-ready"
         [] c.second \in {"truncated", "badvarint"} -> "error"
         [] c.second = "na" -> "rejected"                     \* trailing bytes are only logged
         [] c.second = "proto_sup" -> "succeeded"
         [] OTHER -> "error"

-----------------------------------------------------------------------------
(* E. protobuf decoders: the plan.                                           *)
PbDecoders == {"kademlia", "bitswap", "identify", "noise_payload", "public_key", "peer_id", "multiaddr",
               "mss_message", "bitswap_prefix", "cid", "mss_listener", "mss_dialer", "length_delimited",
               "payload_size", "substream"}
PbOps == {"valid", "truncate", "len-extreme", "len-nonminimal", "wire-type", "dup-field", "drop-field",
          "splice", "flip", "noise", "amplify", "leaf", "nested"}
PbPlan == [dec : PbDecoders, op : PbOps]
\* trivial oracle: a value or an error
PbOutcomes == {"ok", "err"}

\* small values for Decode(Encode(v)) = v
KadValues ==
       [kind : {"find_node_req", "get_record_req", "get_providers_req"}, keylen : {0, 1, 32}, peers : {0}, addrs : {0}, rec : {"none"}]
  \cup [kind : {"find_node_resp", "get_providers_resp"}, keylen : {1, 32}, peers : {0, 1, 3}, addrs : {0, 1, 2}, rec : {"none"}]
  \cup [kind : {"get_value_resp"}, keylen : {1, 32}, peers : {0, 2}, addrs : {0, 1}, rec : {"none", "plain", "publisher", "ttl"}]
  \cup [kind : {"put_value", "put_value_resp"}, keylen : {1, 32}, peers : {0}, addrs : {0}, rec : {"plain", "publisher", "ttl"}]
  \cup [kind : {"add_provider"}, keylen : {1, 32}, peers : {1}, addrs : {0, 1, 2}, rec : {"none"}]
BitswapValues == [blocks : {0, 1, 3}, presences : {0, 1, 2}, wants : {0, 1, 3}]
MssValues == [kind : {"header", "na", "ls", "protocol", "protocols"}, n : {0, 1, 3}]
\* own-encoder sweep around the boundaries of the varint size function: a protocol name of
\* `len` bytes is written as varint(len + 1), name, '\n'
VarintSize(v) == IF v < 128 THEN 1 ELSE IF v < 16384 THEN 2 ELSE 3
MssNameLens == {1, 2, 126, 127, 128, 129, 16381, 16382, 16383, 16384}
MssSweepValues == [kind : {"protocol", "protocols"}, len : MssNameLens, n : {1, 2, 3}]
\* Message::encoded_len of the value
MssEncodedLen(v) == IF v.kind = "protocol" THEN v.len + 1 ELSE v.n * (VarintSize(v.len + 1) + v.len + 1) + 1
\* webrtc_encode_multistream_message refuses what does not fit one frame (prefix + body)
MssFitsFrame(v) == VarintSize(MssEncodedLen(v)) + MssEncodedLen(v) <= MaxFrame
MssSweepAux(v) == [enclen |-> MssEncodedLen(v), fits |-> MssFitsFrame(v)]
IdentifyValues == [protocols : {0, 1, 3}, listen : {0, 1, 2}, observed : BOOLEAN]

-----------------------------------------------------------------------------
(* F. value domain: a decoded value is handed to consumers that apply the     *)
(* library's total conversions to it without further checks (a peer id is     *)
(* turned into a /p2p multiaddress component, a Kademlia peer's addresses get *)
(* the peer id appended and go into the routing table).  Rule: every value a  *)
(* decoder returns lies in the domain of every such conversion.               *)
(* Class of a peer id carried inside a message: [code, dlen, where]           *)
(*   code   identity | sha2_256 | other      dlen  declared = actual digest   *)
(*   length   where  which field carries it                                   *)
PidDLens == {0, 1, 32, 36, 42, 43, 44, 63, 64, 65, 100}
KadPeerIdClasses == [code : {"identity", "sha2_256", "other"}, dlen : PidDLens,
                     where : {"closer_peer", "provider_peer", "record_publisher", "bare"}]
MaxInlineKey == 42
\* domain of `From<PeerId> for multiaddr::PeerId` (and of the reference peer id type)
PeerIdUsable(c) == c.dlen <= 64 /\ (c.code = "sha2_256" \/ (c.code = "identity" /\ c.dlen <= MaxInlineKey))
\* Impl: Multihash::<64>::from_bytes + PeerId::from_multihash
ImplAcceptsPeerId(c) == c.dlen <= 64 /\ (c.code = "sha2_256" \/ (c.code = "identity" /\ c.dlen <= MaxInlineKey))
\* a peer / publisher that is not accepted is dropped (the record: the message is refused)
KadPeerIdVerdict(c) == IF ImplAcceptsPeerId(c) THEN "usable" ELSE "dropped"
\* the rule on the transcription: whatever is accepted is usable
AcceptedValuesUsable(c) == ImplAcceptsPeerId(c) => PeerIdUsable(c)

-----------------------------------------------------------------------------
(* G. Bitswap inbound payload block: the CID prefix of a block is four        *)
(* remote-chosen varints (version, codec, multihash code, digest length).     *)
(* Class [shape, ver, codec, hash, mhlen, plen]:                              *)
(*   shape  ok (four varints) | three | five | trailing | overlong (a varint  *)
(*          of more than ten bytes)                                           *)
(*   ver    v0 | v1 | v2plus          codec  dagpb | raw | other              *)
(*   hash   a compiled-in hasher | unsupported | identity                     *)
(*   mhlen  declared digest length relative to the hasher's digest size:      *)
(*          0 | 1 | size_m1 | size | size_p1 | 64 | 65 | 127 | 255 |          *)
(*          multibyte (a value >= 256)                                        *)
(*   plen   payload length: 0 | 1 | typical                                   *)
BsHashes == {"sha2_256", "sha2_512", "sha3_256", "sha3_384", "keccak_256", "blake2b_256", "blake2b_512",
             "unsupported", "identity"}
BsSupported == BsHashes \ {"unsupported", "identity"}
BsMhLens == {"0", "1", "size_m1", "size", "size_p1", "64", "65", "127", "255", "multibyte"}
BsBlockClasses ==
       [shape : {"ok"}, ver : {"v0", "v1", "v2plus"}, codec : {"dagpb", "raw", "other"}, hash : BsHashes,
        mhlen : BsMhLens, plen : {"0", "1", "typical"}]
  \cup [shape : {"three", "five", "trailing", "overlong"}, ver : {"v1"}, codec : {"raw"}, hash : {"sha2_256"},
        mhlen : {"size"}, plen : {"0", "typical"}]
\* Impl: Prefix::from_bytes + block_to_response; the declared digest length only has to fit
\* a byte, it is not used to build the CID
BsBlockVerdict(c) ==
  IF /\ c.shape = "ok" /\ c.ver \in {"v0", "v1"} /\ c.mhlen # "multibyte"
     /\ c.hash \in BsSupported
     /\ (c.ver = "v1" \/ (c.codec = "dagpb" /\ c.hash = "sha2_256"))
  THEN "value" ELSE "dropped"

-----------------------------------------------------------------------------
(* Prop layer                                                                *)
AllocSlack == 65536              \* the "+ constant" of the allocation bound
\* any decoder observation: out is never a panic / hang / abort; the largest single
\* allocation made while decoding stays within the configured limit plus a constant
\* `unusable`: a consumer conversion of the returned value panicked or did not round-trip
BadOutcomes == {"panic", "hang", "abort", "unusable"}
PropDecode(out, alloc, limit) == out \notin BadOutcomes /\ alloc <= limit + AllocSlack
\* round trip of a library-encoded value
PropRoundTrip(out, same) == out = "ok" /\ same
=============================================================================
