"""C14 - Kademlia routing table places and returns peers by XOR distance (KadRouting.tla)."""
import json
import os
import random
import time
from vlib import *

ASSUME = [
    "a peer's key is SHA-256 of its id (the table recomputes it), so real runs choose only the local key and the "
    "targets freely; low bucket indices are reached with a local key crafted from one real peer's hash",
    "expected bucket indices, set bits of local^target and distance orders in the traces are computed by the harness "
    "with its own SHA-256/XOR arithmetic; the TLA+ trace spec compares them with what the real table did",
    "'connected' is judged by what the caller reported (on_connection_established through either endpoint kind, or "
    "add/insert as Connected, and no disconnect / other connection type since) as well as by the table's own field",
    "a call that does not store a peer (dial failure, connection established, disconnect, lookup, closest, add without "
    "addresses; for stored or absent keys) must leave every other stored entry as it was; an insertion displaces only "
    "from the full bucket the new peer goes to",
    "the slot KBucket::entry pushes when it answers Vacant (random id, no address) is modelled in the Impl layer; the "
    "Prop layer counts it for the capacity bound but not as a stored peer for placement (nobody supplied that id)",
    "callers insert into a Vacant entry only the peer the entry was looked up for (as RoutingTable::add_known_peer does)",
    "TLC results hold for the stated small key widths / bucket sizes; the real table (256 bits, K=20) is covered by "
    "replayed model behaviours on the top bits (18-19 connected ballast peers per bucket) and seeded random histories",
]

D11_SIG = "closest-bucket0-peer-twice"
ALLOPS = {"add", "insert", "est", "disc", "lookup", "fail"}
MC_LINES = ["SPECIFICATION Spec", "INVARIANTS StateInv", "PROPERTIES StepOK", "VIEW View", "CHECK_DEADLOCK FALSE"]
GEN_LINES = ["SPECIFICATION Spec", "VIEW View", "ACTION_CONSTRAINT Emit", "CHECK_DEADLOCK FALSE"]
WORKERS = 8


def base(**kw):
    c = dict(W=3, K=2, Locals={0}, MaxOps=3, Conns={"N", "C"}, Ks={0, 1, 2, 3, 8}, Fix=False, AllowD11=True,
             InitMax=0, PeerOps=ALLOPS)
    c.update(kw)
    return c


def mc_cfgs(ctx):
    if ctx.quick():
        return [
            ("hist_w3", base(Locals={0, 6}, MaxOps=4)),
            ("hist_w3_k1_allconn", base(K=1, Locals={5}, Conns={"N", "C", "X", "Y"}, MaxOps=3)),
            ("closest_w4", base(W=4, K=8, Locals={11}, MaxOps=1, Ks={0, 1, 2, 3, 5, 16}, InitMax=4, PeerOps=set())),
            ("closest_w5", base(W=5, K=16, Locals={21}, MaxOps=1, Ks={0, 1, 2, 3, 32}, InitMax=2, PeerOps=set())),
            ("repaired_w4", base(W=4, K=8, Locals={11}, MaxOps=1, Ks={0, 1, 2, 3, 5, 16}, InitMax=4, PeerOps=set(),
                                 Fix=True, AllowD11=False)),
        ]
    return [
        ("hist_w3", base(Locals=set(range(8)), MaxOps=4)),
        ("hist_w3_k1_allconn", base(K=1, Locals={5, 2}, Conns={"N", "C", "X", "Y"}, MaxOps=4)),
        ("hist_w4", base(W=4, Locals={9}, MaxOps=3, Ks={0, 1, 2, 16})),
        ("closest_w4_all_tables", base(W=4, K=8, Locals={11}, MaxOps=1, Ks={0, 1, 2, 3, 5, 16}, InitMax=15, PeerOps=set())),
        ("closest_w5", base(W=5, K=16, Locals={21, 0}, MaxOps=1, Ks={0, 1, 2, 3, 32}, InitMax=3, PeerOps=set())),
        ("repaired_w3_hist", base(Locals={0, 5}, MaxOps=4, Fix=True, AllowD11=False)),
        ("repaired_w4", base(W=4, K=8, Locals={11}, MaxOps=1, Ks={0, 1, 2, 3, 5, 16}, InitMax=6, PeerOps=set(),
                             Fix=True, AllowD11=False)),
    ]


def gen_cfgs(ctx):
    if ctx.quick():
        return [base(W=2, K=1, Locals={1}, MaxOps=3, Ks={4}), base(W=3, K=2, Locals={5}, MaxOps=2, Ks={8})]
    return [base(W=2, K=1, Locals={1}, MaxOps=4, Ks={4}), base(W=2, K=2, Locals={2}, MaxOps=3, Ks={1, 4}),
            base(W=3, K=2, Locals={5}, MaxOps=2, Ks={2, 8}), base(W=3, K=1, Locals={0}, MaxOps=2, Ks={1, 8})]


def write_mc_cfg(ctx, name, consts, lines):
    p = write_cfg(ctx, name, consts, lines)
    return p


# --------------------------------------------------------------------------- D11 handling

def _is_reset(ln):
    return '"e":"reset"' in ln


def d11_scan(lines):
    """Find closest events that show exactly the recorded defect D11 (the peer of bucket 0 twice, the rest of
    the answer right w.r.t. the logged distance order) and return (repaired_lines, hits) where a repaired line
    is the same call with the second occurrence removed and k-1; TLC judges the repaired line in full, and the
    unrepaired original of sampled hits, so the shape test here only decides *which* finding a rejection is."""
    out, hits = [], []
    b0 = []
    for n, ln in enumerate(lines):
        if _is_reset(ln):
            ev = json.loads(ln)
            b0 = [c["b"] for c in ev["init"] if c["i"] == 0]
            b0 = b0[0] if b0 else []
            out.append(ln)
            continue
        if '"i":0}' in ln or '"op":"closest"' in ln:
            ev = json.loads(ln)
            if ev.get("e") == "op":
                o = ev["o"]
                if o["op"] == "closest" and isinstance(ev["ret"], list):
                    ret = ev["ret"]
                    if len(set(ret)) == len(ret) - 1 and (not o["dbits"] or o["dbits"][0] == 0):
                        dup = [x for x in set(ret) if ret.count(x) == 2][0]
                        if any(e[0] == dup and e[2] == 1 for e in b0):
                            last = len(ret) - 1 - ret[::-1].index(dup)
                            fixed = ret[:last] + ret[last + 1:]
                            if fixed == o["ord"][:max(o["k"] - 1, 0)]:
                                hits.append(n)
                                ev2 = dict(ev, ret=fixed, o=dict(o, k=o["k"] - 1), kf="D11")
                                out.append(json.dumps(ev2, separators=(",", ":")))
                                continue
                for c in ev.get("ch", []):
                    if c["i"] == 0:
                        b0 = c["b"]
        out.append(ln)
    return out, hits


def classify(seg, idx):
    """Stable signature of a rejected event (seg[idx-1])."""
    ev = json.loads(seg[idx - 1])
    if ev.get("e") == "panic":
        return "panic-in-%s" % ev["o"]["op"]
    if ev.get("e") == "reset":
        return "initial-table"
    o = ev["o"]
    if o["op"] == "closest":
        _, hits = d11_scan(seg[:idx])
        if hits and hits[-1] == idx - 1:
            return D11_SIG
        ret = ev["ret"]
        if len(set(ret)) != len(ret):
            return "closest-duplicates"
        if sorted(ret) == sorted(o["ord"][:o["k"]]):
            return "closest-wrong-order"
        return "closest-wrong-set"
    return "%s-after-%s" % (_table_clause(seg, idx), o["op"])


def _table_clause(seg, idx):
    """Which requirement on the table the rejected event breaks (mirrors KadRouting!PropFrame, for the
    signature only)."""
    head = json.loads(seg[0])
    K = head["K"]
    tab = {c["i"]: c["b"] for c in head["init"]}
    led = {e[0] for b in tab.values() for e in b if e[4] == 1 and e[1] == "C"}
    known = lambda t: {e[0] for b in t.values() for e in b if e[4] == 1}
    for n, ln in enumerate(seg[1:idx], 2):
        ev = json.loads(ln)
        if ev.get("e") != "op":
            continue
        o, ret = ev["o"], ev["ret"]
        new = dict(tab)
        for c in ev["ch"]:
            new[c["i"]] = c["b"]
        if n == idx:
            own = {o["p"]} if "p" in o else set()
            if any(len(b) > K for b in new.values()):
                return "bucket-over-capacity"
            if any(e[4] == 1 and e[3] == 999 for b in new.values() for e in b):
                return "local-node-stored"
            if any(e[4] == 1 and e[3] != i for i, b in new.items() for e in b):
                return "peer-in-wrong-bucket"
            ids = [e[0] for b in new.values() for e in b if e[4] == 1]
            if len(ids) != len(set(ids)):
                return "peer-stored-twice"
            conn = {e[0] for b in tab.values() for e in b if e[4] == 1 and (e[1] == "C" or e[0] in led)}
            if (conn - own) - known(new):
                return "connected-peer-displaced"
            if known(new) - known(tab) - own:
                return "unknown-peer-stored"
            ent = lambda t: {(i, e[0], e[1], e[2]) for i, b in t.items() for e in b if e[4] == 1 and e[0] not in own}
            inserting = (o["op"] == "add" and o["ha"] == 1) or (o["op"] == "insert" and ret == "vacant")
            if not inserting:
                if known(tab) - known(new) - own:
                    return "stored-peer-lost-without-insertion"
                if ent(new) != ent(tab) or (own & known(new)) - known(tab):
                    return "stored-entry-changed-without-insertion"
            else:
                for i, b in tab.items():
                    for e in b:
                        if e[4] == 1 and e[0] not in known(new) and e[0] not in own and (i != o["xb"] or len(tab.get(o["xb"], [])) < K):
                            return "peer-displaced-without-need"
            return "table"
        if o["op"] == "est":
            led.add(o["p"])
        elif o["op"] == "disc":
            led.discard(o["p"])
        elif (o["op"] == "add" and o["ha"] == 1) or (o["op"] == "insert" and ret == "vacant"):
            (led.add if o["conn"] == "C" else led.discard)(o["p"])
        tab = new
        led &= known(tab)
    return "table"


def seg_of(lines, n):
    """(segment lines up to and including line n, index in segment 1-based)"""
    s = n
    while s > 0 and not _is_reset(lines[s]):
        s -= 1
    return lines[s:n + 1], n - s + 1


# --------------------------------------------------------------------------- pipeline

def record(ctx, behs, nrand, rlen, fault=None, out="trace.ndjson"):
    args = ["--random", nrand, "--len", rlen, "--seed", ctx.seed, "--threads", 8, "--out", ctx.path(out)]
    if behs is not None:
        write_jsonl(ctx.path("behs.jsonl"), behs)
        args = ["--behaviours", ctx.path("behs.jsonl")] + args
    env = {"VERIF_FAULT": fault or ""}
    summ, _ = harness(ctx, "routing", args, env=env)
    return summ, read_lines(ctx.path(out))


def judge(ctx, lines, tag="t", sample_d11=2):
    """TLC trace validation against the Prop layer with the known D11 events set aside.
    Returns (nseg, nev, violations, n_d11)."""
    repaired, hits = d11_scan(lines)
    nseg, nev, rejects = validate_segments(ctx, "KadRoutingTrace.tla", "KadRoutingTrace.cfg", repaired, mode="prop", tag=tag)
    violations = []
    for seg, idx in rejects:
        violations.append({"sig": classify(seg, idx),
                           "what": "real RoutingTable step not allowed by KadRouting!PropStep: %s" % seg[idx - 1][:700],
                           "replay_obj": {"property": "C14", "rejected_event_index": idx,
                                          "segment": [json.loads(x) for x in seg[:idx]]}})
    # the unrepaired originals: TLC must reject them at exactly that event (the verdict is TLC's)
    confirmed, tries, seen_segs = 0, 0, set()
    for n in hits:
        if confirmed >= sample_d11 or tries >= sample_d11 + 4:
            break
        seg, idx = seg_of(lines, n)
        if seg[0] in seen_segs:
            continue
        seen_segs.add(seg[0])
        tries += 1
        # earlier D11 events of the same segment are repaired so that TLC reaches this one
        pre, _ = d11_scan(seg[:-1])
        p = ctx.path("d11_%d.ndjson" % n)
        with open(p, "w") as f:
            f.write("\n".join(pre + [seg[-1]]) + "\n")
        bad = tlc_trace(ctx, "KadRoutingTrace.tla", "KadRoutingTrace.cfg", p, mode="prop")
        if bad is None or bad > idx:
            raise ToolError("event %d was set aside as D11 but TLC says %s (expected rejection at %d)" % (n, bad, idx))
        if bad < idx:
            continue    # this execution is rejected earlier for another reason (reported above)
        confirmed += 1
        violations.append({"sig": classify(seg, idx),
                           "what": "closest() returned the peer of bucket 0 twice: %s" % seg[-1][:400],
                           "replay_obj": {"property": "C14", "rejected_event_index": idx,
                                          "segment": [json.loads(x) for x in pre + [seg[-1]]]}})
    return nseg, nev, violations, len(hits)


def check(ctx):
    mc = []
    for name, consts in mc_cfgs(ctx):
        r = tlc_mc(ctx, "KadRoutingMC.tla", write_mc_cfg(ctx, "mc_%s.cfg" % name, consts, MC_LINES), workers=WORKERS)
        if not r["ok"]:
            raise ToolError("the Impl layer of KadRouting violates the Prop layer in config %s (model error, not a "
                            "code verdict):\n%s" % (name, r.get("error", r["out"][-2500:])))
        mc.append(dict({k: r[k] for k in ("transitions", "distinct", "depth", "wall_s") if k in r}, name=name,
                       W=consts["W"], K=consts["K"], fix=consts["Fix"], d11_tolerated=consts["AllowD11"]))
        log("MC %s: %s" % (name, mc[-1]))
    behs, gstats = [], []
    for i, consts in enumerate(gen_cfgs(ctx)):
        b, g = tlc_generate(ctx, "KadRoutingMC.tla", write_mc_cfg(ctx, "gen%d.cfg" % i, consts, GEN_LINES))
        behs += b
        gstats.append({k: g[k] for k in ("behaviours", "transitions", "distinct", "wall_s") if k in g})
    log("GEN: %s" % gstats)
    build_s = cargo_build(ctx, ["routing"])
    nrand, rlen = (64, 60) if ctx.quick() else (800, 100)
    summ, lines = record(ctx, behs, nrand, rlen)
    log("HARNESS: %s (build %ss)" % (summ, build_s))
    # verdict (Prop layer) and drift detector (exact Impl-layer conformance, never a verdict) side by side
    from concurrent.futures import ThreadPoolExecutor
    t1 = time.time()
    with ThreadPoolExecutor(2) as ex:
        fj = ex.submit(judge, ctx, lines)
        fd = ex.submit(validate_segments, ctx, "KadRoutingTrace.tla", "KadRoutingTrace.cfg", lines, "impl", 5, "d")
        nseg, nev, violations, nd11 = fj.result()
        _, _, drift = fd.result()
    log("TV: %d segments, %d events, %d rejected, %d D11 events set aside, %d drift (%.0fs)" %
        (nseg, nev, len(violations), nd11, len(drift), time.time() - t1))
    for seg, idx in drift:
        log("NOTE drift: real RoutingTable deviates from the Impl layer at %s" % seg[idx - 1][:300])
    segs = split_segments(lines, _is_reset)
    distinct = len({"\n".join(s[1:]) for s in segs})
    ops_seen = {}
    rets_seen = {}
    for ln in lines:
        if '"e":"op"' in ln:
            ev = json.loads(ln)
            ops_seen[ev["o"]["op"]] = ops_seen.get(ev["o"]["op"], 0) + 1
            if isinstance(ev["ret"], str):
                rets_seen[ev["ret"]] = rets_seen.get(ev["ret"], 0) + 1
    missing = (ALLOPS | {"closest"}) - set(ops_seen)
    if not [v for v in violations if v["sig"] not in load_known(ctx.pid)]:      # a run that found something is reported as such, whatever its coverage
        if missing or not {"local", "occupied", "vacant", "noslot"} <= set(rets_seen):
            raise ToolError("coverage hole: ops %s / entry kinds %s not exercised" % (sorted(missing), rets_seen))
        if summ["target_ilog2_indices_covered"] < (192 if ctx.quick() else 256) or summ["evictions"] == 0 or summ["noslot"] == 0:
            raise ToolError("coverage hole: %s" % summ)
    cov = {
        "states": sum(m["distinct"] for m in mc),
        "transitions": sum(m["transitions"] for m in mc),
        "traces_validated_against_impl": nseg,
        "events_validated": nev,
        "samples": [json.loads(x) for x in lines[1:4]] + [json.loads(x) for x in segs[-1][:3]],
        "evaluations": nseg,
        "distinct_nontrivial": distinct,
        "rule": "a case is one operation history executed on the real RoutingTable (TLC-generated: BFS prefix + one "
                "transition of the bounded graph, concretised on the top key bits with connected ballast peers; "
                "random: seeded histories over ~100-200 real peers with plain or crafted local keys, interleaved "
                "with closest() queries); distinct = distinct event sequences",
        "model_runs": mc,
        "generation": gstats,
        "harness": summ,
        "ops_exercised": ops_seen,
        "entry_kinds_seen": rets_seen,
        "d11_events_set_aside_and_repaired": nd11,
        "impl_divergences": len(drift),
        "exhaustive": False,
    }
    return conclude(ctx, "model_checking", cov, violations, ASSUME)


def selftest(ctx):
    """(a) binding: corrupted fields of a good recorded trace / harness-side faults must be rejected by TLC;
    (b) negative models: the unrepaired iterator without tolerance, and a spec mutant that may evict connected
    peers, must make TLC report StepOK violated."""
    ok = True
    cargo_build(ctx, ["routing"])
    summ, lines = record(ctx, None, 12, 60, out="good.ndjson")
    repaired, hits = d11_scan(lines)
    if tlc_trace(ctx, "KadRoutingTrace.tla", "KadRoutingTrace.cfg", _dump(ctx, "good_rep.ndjson", repaired)) is not None:
        log("selftest: good (repaired) trace rejected?!")
        ok = False
    rnd = random.Random(ctx.seed)
    tried = 0
    muts = ["swap", "drop", "bucket", "overflow", "evict"]
    for mut in muts:
        for _ in range(200):
            i = rnd.randrange(len(repaired))
            ev = json.loads(repaired[i])
            if ev.get("e") != "op":
                continue
            o = ev["o"]
            if mut == "swap" and o["op"] == "closest" and len(ev["ret"]) >= 2:
                ev["ret"][0], ev["ret"][1] = ev["ret"][1], ev["ret"][0]
            elif mut == "drop" and o["op"] == "closest" and 1 <= len(ev["ret"]) <= o["k"]:
                ev["ret"] = ev["ret"][:-1]
            elif mut == "bucket" and ev["ch"] and any(e[4] == 1 for e in ev["ch"][0]["b"]) and ev["ch"][0]["i"] > 0:
                ev["ch"][0]["i"] -= 1
            elif mut == "overflow" and ev["ch"] and ev["ch"][0]["b"]:
                ev["ch"][0]["b"] = (ev["ch"][0]["b"] * 21)[:21]
            elif mut == "evict" and o["op"] in ("add", "insert") and ev["ch"]:
                # pretend the call emptied a bucket that held a connected peer
                seg, idx = seg_of(repaired, i)
                st = {}
                for x in seg[:-1]:
                    x = json.loads(x)
                    for c in x.get("ch", x.get("init", [])):
                        st[c["i"]] = c["b"]
                cand = [b for b, es in st.items() if any(e[1] == "C" and e[4] == 1 and e[0] != o["p"] for e in es)
                        and b != ev["ch"][0]["i"]]
                if not cand:
                    continue
                ev["ch"].append({"i": cand[0], "b": []})
            else:
                continue
            tried += 1
            bad = repaired[:i] + [json.dumps(ev, separators=(",", ":"))] + repaired[i + 1:]
            r = tlc_trace(ctx, "KadRoutingTrace.tla", "KadRoutingTrace.cfg", _dump(ctx, "mut.ndjson", bad))
            log("selftest corrupt %-8s at line %d -> %s" % (mut, i + 1, "rejected at %s" % r if r else "ACCEPTED"))
            ok &= (r == i + 1)
            break
        else:
            log("selftest: no site for mutation %s" % mut)
            ok = False
    # harness-side faults (the harness perturbs what it records)
    for fault in ("closest_swap", "closest_drop", "evict_connected", "bucket_shift"):
        _, fl = record(ctx, None, 6, 60, fault=fault, out="fault.ndjson")
        _, _, viol, _ = judge(ctx, fl, tag="f", sample_d11=0)
        sigs = sorted({v["sig"] for v in viol})
        log("selftest fault %-16s -> %d rejected segments %s" % (fault, len(viol), sigs))
        ok &= len(viol) > 0 and D11_SIG not in sigs
    # negative models
    neg = base(Locals={0}, MaxOps=3, AllowD11=False)
    r = tlc_mc(ctx, "KadRoutingMC.tla", write_mc_cfg(ctx, "neg_d11.cfg", neg, MC_LINES), workers=4, expect_violation=True)
    log("selftest negative model (unrepaired iterator, D11 not tolerated) -> %s" % ("violated" if not r["ok"] else "NOT violated"))
    ok &= (not r["ok"]) and "StepOK is violated" in r["out"]
    src = open(os.path.join(SPEC, "KadRouting.tla")).read()
    mutant = src.replace('Replaceable(e) == e.conn \\in {"N", "X"}', 'Replaceable(e) == e.conn \\in {"N", "X", "C"}')
    assert mutant != src
    mdir = ctx.path("mutant")
    os.makedirs(mdir, exist_ok=True)
    open(os.path.join(mdir, "KadRouting.tla"), "w").write(mutant)
    for f in ("KadRoutingMC.tla",):
        open(os.path.join(mdir, f), "w").write(open(os.path.join(SPEC, f)).read())
    cfgp = write_mc_cfg(ctx, "neg_evict.cfg", base(Locals={0}, MaxOps=4), MC_LINES)
    rc, out = run(["tlc", "-workers", "4", "-metadir", ctx.metadir(), "-cleanup", "-noGenerateSpecTE", "-config", cfgp,
                   os.path.join(mdir, "KadRoutingMC.tla")], timeout=600, cwd=mdir)
    hit = "StepOK is violated" in out
    log("selftest spec mutant (connected entries replaceable) -> %s" % ("violated" if hit else "NOT violated"))
    ok &= hit
    # an inbound connection that is not recorded: the peer stays replaceable although the caller reported it connected
    old = '[r.bk EXCEPT ![r.i][r.j].conn = "C",'
    assert old in src
    open(os.path.join(mdir, "KadRouting.tla"), "w").write(src.replace(old, '[r.bk EXCEPT ![r.i][r.j].conn = IF o.dial = 1 THEN "C" ELSE @,'))
    rc, out = run(["tlc", "-workers", "4", "-metadir", ctx.metadir(), "-cleanup", "-noGenerateSpecTE", "-config", cfgp,
                   os.path.join(mdir, "KadRoutingMC.tla")], timeout=600, cwd=mdir)
    hit = "StepOK is violated" in out
    log("selftest spec mutant (inbound connection not recorded) -> %s" % ("violated" if hit else "NOT violated"))
    ok &= hit
    # KBucket::entry blanks the evictable slot of a full bucket before handing it out: a mere lookup of an
    # absent key erases a stored peer
    old = '''ELSE IF rep # {} THEN [kind |-> "vacant", i |-> xb, j |-> MinOf(rep), bk |-> bk]'''
    assert old in src
    open(os.path.join(mdir, "KadRouting.tla"), "w").write(src.replace(
        old, 'ELSE IF rep # {} THEN [kind |-> "vacant", i |-> xb, j |-> MinOf(rep), bk |-> [bk EXCEPT ![xb][MinOf(rep)] = Placeholder]]'))
    rc, out = run(["tlc", "-workers", "4", "-metadir", ctx.metadir(), "-cleanup", "-noGenerateSpecTE", "-config", cfgp,
                   os.path.join(mdir, "KadRoutingMC.tla")], timeout=600, cwd=mdir)
    hit = "StepOK is violated" in out
    log("selftest spec mutant (lookup of an absent key blanks a stored entry) -> %s" % ("violated" if hit else "NOT violated"))
    ok &= hit
    log("SELFTEST %s (%d corruptions tried, %d D11 events in the good trace)" % ("ok" if ok and tried == len(muts) else "FAILED", tried, len(hits)))
    return 0 if ok and tried == len(muts) else 2


def _dump(ctx, name, lines):
    p = ctx.path(name)
    with open(p, "w") as f:
        f.write("\n".join(lines) + "\n")
    return p


def replay(ctx, path):
    obj = json.load(open(path))
    seg = [json.dumps(x, separators=(",", ":")) for x in obj["segment"]]
    r = tlc_trace(ctx, "KadRoutingTrace.tla", "KadRoutingTrace.cfg", _dump(ctx, "replay.ndjson", seg))
    sig = classify(seg, r) if r else None
    log("replay: %s" % ("rejected at %d (%s%s)" % (r, sig, ", a known finding" if sig in load_known(ctx.pid) else "") if r else "accepted"))
    return 1 if r and sig not in load_known(ctx.pid) else 0
