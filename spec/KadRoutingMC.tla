---------------------------- MODULE KadRoutingMC ----------------------------
(* Bounded model of the routing table for TLC: W-bit keys with real XOR     *)
(* (Bitwise ^^), bucket size K.  Exhaustive check that the Impl layer of    *)
(* KadRouting satisfies its Prop layer (C14) for every local key, history,  *)
(* target bit pattern and k in the scope, and behaviour generation.         *)
EXTENDS KadRouting, TLC, Json, Bitwise, SequencesExt, FiniteSetsExt

CONSTANTS W,        \* key width in bits = number of buckets
          K,        \* bucket capacity
          Locals,   \* local keys tried
          MaxOps,   \* history length
          Conns,    \* connection types used by add / insert
          Ks,       \* limits used by closest
          Fix,      \* TRUE: ClosestBucketsIter with the proposed repair of D11
          AllowD11, \* TRUE: a step showing exactly the recorded defect D11 is tolerated
          InitMax,  \* initial tables: every set of at most InitMax stored peers (0 = empty table)
          PeerOps   \* which mutating ops are enabled

NB == W
Keys == 0..(2^W - 1)

VARIABLES L, bk, led, last, hist, nops
vars == <<L, bk, led, last, hist, nops>>

Bit(x, b) == (x \div (2^b)) % 2 = 1
ILog2(x) == MaxOf({b \in 0..(W - 1) : Bit(x, b)})
XBof(l, p) == IF p = l THEN NoBucket ELSE ILog2(p ^^ l)
XB(p) == XBof(L, p)
DBits(t) == {b \in 0..(W - 1) : Bit(L ^^ t, b)}
\* stored peers with addresses by increasing XOR distance to t
Ord(t) == SortSeq(SetToSeq(WithAddr(bk)), LAMBDA a, b : (a ^^ t) < (b ^^ t))

Ops ==
       (IF "add" \in PeerOps THEN {[op |-> "add", p |-> p, xb |-> XB(p), ha |-> h, conn |-> c] :
                                     p \in Keys, h \in {0, 1}, c \in Conns} ELSE {})
  \cup (IF "insert" \in PeerOps THEN {[op |-> "insert", p |-> p, xb |-> XB(p), ha |-> h, conn |-> c] :
                                     p \in Keys, h \in {0, 1}, c \in Conns} ELSE {})
  \cup (IF "est" \in PeerOps THEN {[op |-> "est", p |-> p, xb |-> XB(p), dial |-> d] : p \in Keys, d \in {0, 1}} ELSE {})
  \cup (IF "disc" \in PeerOps THEN {[op |-> "disc", p |-> p, xb |-> XB(p)] : p \in Keys} ELSE {})
  \cup (IF "lookup" \in PeerOps THEN {[op |-> "lookup", p |-> p, xb |-> XB(p)] : p \in Keys} ELSE {})
  \cup (IF "fail" \in PeerOps THEN {[op |-> "fail", p |-> p, xb |-> XB(p), na |-> n] : p \in Keys, n \in {0, 1}} ELSE {})
  \cup {[op |-> "closest", k |-> k, t |-> t, dbits |-> DBits(t), ord |-> Ord(t)] : t \in Keys, k \in Ks}

\* initial tables: the peers of S stored (with addresses, connected) in their buckets
TableOf(l, S) ==
  [i \in 0..(NB - 1) |->
     LET ks == {p \in S : XBof(l, p) = i}
         sq == SortSeq(SetToSeq(ks), LAMBDA a, b : a < b)
     IN [j \in 1..Len(sq) |-> NewEntry(sq[j], i, "C", 1)]]

Init == /\ L \in Locals
        /\ \E S \in UNION {kSubset(n, Keys \ {L}) : n \in 0..InitMax} :
             /\ bk = TableOf(L, S)
             /\ \A i \in 0..(NB - 1) : Len(bk[i]) <= K
        /\ led = KnownIds(bk)            \* initial tables hold connected peers
        /\ last = [o |-> [op |-> "init"], ret |-> "ok", pre |-> EmptyTable(NB), led |-> {}]
        /\ hist = <<>>
        /\ nops = 0

Slim(o) == IF o.op = "closest" THEN [op |-> "closest", k |-> o.k, t |-> o.t] ELSE o

Do(o) == LET r == ImplStep(K, NB, Fix, bk, o) IN
           /\ bk' = r.bk
           /\ led' = LedUpd(led, o, r.ret, r.bk)
           /\ last' = [o |-> o, ret |-> r.ret, pre |-> bk, led |-> led]
           /\ hist' = Append(hist, Slim(o))
           /\ nops' = nops + 1
           /\ L' = L

Next == /\ nops < MaxOps
        /\ \E o \in Ops : Do(o)

Spec == Init /\ [][Next]_vars

\* C14 on the model: every step of the implementation-shaped spec is a step the
\* property allows.  With AllowD11 a closest step may instead show exactly the
\* recorded defect; every other requirement stays in force.
StepOK ==
  [][LET o == last'.o  S == last'.pre  r == last'.ret IN
       /\ PropFrame(K, S, last'.led, o, r, bk')
       /\ o.op = "closest" => \/ ClosestOK(S, o, r)
                              \/ AllowD11 /\ D11Shape(S, o, r)]_vars
StateInv == StateOK(K, bk)

View == <<L, bk, led, nops>>
Emit == PrintT(<<"B", ToJson([W |-> W, K |-> K, L |-> L', ops |-> hist'])>>)
=============================================================================
