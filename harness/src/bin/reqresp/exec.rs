//! Seeded schedule-perturbing executor handed to `ConfigBuilder::with_executor`.
//!
//! Every background future litep2p spawns (protocol loops, connection tasks) is wrapped in
//! `Perturb`, which before polling the inner future may (seeded) yield to the scheduler or sleep
//! a few milliseconds, so that the interleaving of protocol loop / connection tasks / user task
//! differs from run to run in a seed-controlled way.  All tasks of one node can be aborted at
//! once (`kill`) which is how a responder "disconnects by dropping the node".  Panics of the code
//! under test are caught and logged as data.
use crate::net::NetLog;
use litep2p::executor::Executor;
use rand::{rngs::StdRng, Rng, SeedableRng};
use serde_json::json;
use std::{
    future::Future,
    pin::Pin,
    sync::{
        atomic::{AtomicBool, AtomicU64, Ordering},
        Arc, Mutex,
    },
    task::{Context, Poll},
    time::Duration,
};
use tokio::task::AbortHandle;

pub struct NodeExec {
    handles: Mutex<Vec<AbortHandle>>,
    seed: u64,
    level: u8,
    counter: AtomicU64,
    dead: AtomicBool,
    log: Arc<NetLog>,
    node: usize,
    ice: Arc<Ice>,
}

/// "frozen node": while set no task of the node is polled (the node's sockets stay open, QUIC's
/// own drivers keep acknowledging, but litep2p never reads, negotiates or answers)
pub struct Ice {
    frozen: AtomicBool,
    /// only the protocol event loops (the first tasks litep2p spawns) are held: connection tasks and the
    /// manager keep running, so network outcomes pile up ready for the protocol's next poll
    frozen_proto: AtomicBool,
    /// only the application loop (Litep2p::next_event, i.e. the TransportManager) is held
    frozen_mgr: AtomicBool,
    parked: Mutex<Vec<std::task::Waker>>,
}

impl NodeExec {
    pub fn new(seed: u64, level: u8, log: Arc<NetLog>, node: usize) -> Arc<Self> {
        Arc::new(NodeExec {
            handles: Mutex::new(Vec::new()),
            seed,
            level,
            counter: AtomicU64::new(0),
            dead: AtomicBool::new(false),
            log,
            node,
            ice: Arc::new(Ice { frozen: AtomicBool::new(false), frozen_proto: AtomicBool::new(false), frozen_mgr: AtomicBool::new(false), parked: Mutex::new(Vec::new()) }),
        })
    }

    pub fn freeze_mgr(&self, on: bool) {
        self.ice.frozen_mgr.store(on, Ordering::SeqCst);
        if !on {
            for w in self.ice.parked.lock().unwrap().drain(..) {
                w.wake();
            }
        }
    }

    pub fn freeze_proto(&self, on: bool) {
        self.ice.frozen_proto.store(on, Ordering::SeqCst);
        if !on {
            for w in self.ice.parked.lock().unwrap().drain(..) {
                w.wake();
            }
        }
    }

    pub fn freeze(&self, on: bool) {
        self.ice.frozen.store(on, Ordering::SeqCst);
        if !on {
            for w in self.ice.parked.lock().unwrap().drain(..) {
                w.wake();
            }
        }
    }

    /// Spawn a harness-owned future as part of this node (aborted by `kill`).
    pub fn spawn(&self, what: &'static str, fut: Pin<Box<dyn Future<Output = ()> + Send>>) {
        if self.dead.load(Ordering::SeqCst) {
            return;
        }
        let id = self.counter.fetch_add(1, Ordering::SeqCst);
        let w = Perturb {
            inner: Some(fut),
            rng: StdRng::seed_from_u64(self.seed ^ id.wrapping_mul(0x9E37_79B9_7F4A_7C15)),
            level: self.level,
            sleep: None,
            log: self.log.clone(),
            node: self.node,
            what,
            ice: self.ice.clone(),
            // Litep2p::new starts the protocol event loops before anything else; the harness configures exactly
            // one protocol (request-response) per node
            proto: id == 0 && what == "litep2p",
            mgr: what == "manager",
        };
        let h = tokio::spawn(w);
        let mut g = self.handles.lock().unwrap();
        if self.dead.load(Ordering::SeqCst) {
            h.abort();
        } else {
            g.push(h.abort_handle());
        }
    }

    pub fn kill(&self) {
        self.dead.store(true, Ordering::SeqCst);
        let hs: Vec<AbortHandle> = self.handles.lock().unwrap().drain(..).collect();
        for h in hs {
            h.abort();
        }
    }
}

impl Executor for NodeExec {
    fn run(&self, future: Pin<Box<dyn Future<Output = ()> + Send>>) {
        self.spawn("litep2p", future)
    }
    fn run_with_name(&self, _: &'static str, future: Pin<Box<dyn Future<Output = ()> + Send>>) {
        self.spawn("litep2p", future)
    }
}

pub struct Perturb {
    inner: Option<Pin<Box<dyn Future<Output = ()> + Send>>>,
    rng: StdRng,
    level: u8,
    sleep: Option<Pin<Box<tokio::time::Sleep>>>,
    log: Arc<NetLog>,
    node: usize,
    what: &'static str,
    ice: Arc<Ice>,
    proto: bool,
    mgr: bool,
}

impl Future for Perturb {
    type Output = ();
    fn poll(mut self: Pin<&mut Self>, cx: &mut Context<'_>) -> Poll<()> {
        let this = &mut *self;
        let held = |ice: &Ice, proto: bool, mgr: bool| {
            ice.frozen.load(Ordering::SeqCst)
                || (proto && ice.frozen_proto.load(Ordering::SeqCst))
                || (mgr && ice.frozen_mgr.load(Ordering::SeqCst))
        };
        if held(&this.ice, this.proto, this.mgr) {
            let mut g = this.ice.parked.lock().unwrap();
            if held(&this.ice, this.proto, this.mgr) {
                g.push(cx.waker().clone());
                return Poll::Pending;
            }
        }
        if let Some(s) = this.sleep.as_mut() {
            match s.as_mut().poll(cx) {
                Poll::Pending => return Poll::Pending,
                Poll::Ready(()) => this.sleep = None,
            }
        } else if this.level > 0 {
            let (p_yield, p_sleep, max_ms) = match this.level {
                1 => (0.20, 0.00, 0u64),
                2 => (0.30, 0.04, 3),
                _ => (0.30, 0.10, 15),
            };
            let x: f64 = this.rng.gen();
            if x < p_sleep {
                let d = this.rng.gen_range(0..=max_ms);
                let mut s = Box::pin(tokio::time::sleep(Duration::from_millis(d)));
                if s.as_mut().poll(cx).is_pending() {
                    this.sleep = Some(s);
                    return Poll::Pending;
                }
            } else if x < p_sleep + p_yield {
                cx.waker().wake_by_ref();
                return Poll::Pending;
            }
        }
        let Some(inner) = this.inner.as_mut() else {
            return Poll::Ready(());
        };
        match std::panic::catch_unwind(std::panic::AssertUnwindSafe(|| inner.as_mut().poll(cx))) {
            Ok(p) => p,
            Err(e) => {
                let msg = if let Some(s) = e.downcast_ref::<&str>() {
                    s.to_string()
                } else if let Some(s) = e.downcast_ref::<String>() {
                    s.clone()
                } else {
                    "panic".to_string()
                };
                this.log.ev(this.node, "x", json!({"e": "panic", "o": this.node, "task": this.what, "msg": msg}));
                this.inner = None;
                Poll::Ready(())
            }
        }
    }
}
