//! C02: two real `NoiseSocket`s (obtained from a real in-memory handshake) around a scripted
//! carrier.  Scenarios (TLC-generated unit-scale behaviours concretised to real sizes, a
//! systematic product of sizes / buffers / chunkings / attacks, seeded random schedules) are
//! executed by polling the real sockets by hand; every call is recorded as an NDJSON event that
//! TLC validates against `NoisePipe` (Prop layer decides, Impl layer = drift detector).
mod carrier;

use carrier::{pair, End, Plan, Shared};
use futures::io::{AsyncRead, AsyncWrite};
use litep2p::{crypto::ed25519::Keypair, verif::noise::*};
use rand::{rngs::StdRng, seq::SliceRandom, Rng, SeedableRng};
use serde_json::{json, Value};
use std::{
    pin::Pin,
    sync::{Arc, Mutex},
    task::{Context, Poll},
    time::Duration,
};
use vharness::*;

const MSG: usize = 65536;
const TAG: usize = 16;
const FRAME: usize = 2 + 65535; // largest frame on the wire
const LIGHT_MAX: usize = 300; // max inner carrier reads for an Impl-checked segment
const BIG: usize = 1 << 26;

#[derive(Clone, Debug)]
enum Op {
    Write(usize),
    Room(usize),
    Flush,
    Chunk(usize, usize),
    Read(usize),
}

#[derive(Clone, Debug)]
struct Scenario {
    src: String,
    r: usize,
    w: usize,
    plan: Plan,
    per_call_max: usize,
    ops: Vec<Op>,
    fin_chunk: (usize, usize), // (chunk size, pending every k chunks; 0 = never) for the rest of the stream
    fin_rbufs: Vec<usize>,
}

fn payload() -> Arc<Vec<u8>> {
    let mut rng = StdRng::seed_from_u64(0xC02);
    let mut v = vec![0u8; 6 * 65520 + 4096];
    rng.fill(&mut v[..]);
    Arc::new(v)
}

fn kind_str(k: std::io::ErrorKind) -> String {
    format!("{k:?}")
}

struct Run {
    a: NoiseSocket<End>,
    b: NoiseSocket<End>,
    sh: Arc<Mutex<Shared>>,
    pay: Arc<Vec<u8>>,
    sent: usize,
    delivered: usize,
    out: Vec<String>,
    werr: bool,
    rdone: bool,
    rerr: bool,
    fl: bool,
    fault: String,
    fault_used: bool,
    stats: Stats,
}

#[derive(Default, Clone)]
struct Stats {
    writes: usize,
    write_err: usize,
    write_pending: usize,
    write_partial: usize,
    reads_ok: usize,
    reads_err: usize,
    reads_pending: usize,
    panics: usize,
    repoll_panics: usize,
    quiesced: usize,
    aux: usize,
    carry1: usize,
    pendsplit: usize,
    two_buffered: usize,
}

fn wst(s: &NoiseSocketState) -> Value {
    match s.writing {
        None => json!([]),
        Some((o, l)) => json!([o, l]),
    }
}
fn rst(s: &NoiseSocketState) -> Value {
    let rs = ["data", "len", "proc"][s.read_state as usize];
    json!({
        "rs": rs,
        "maxRead": s.max_read, "nread": s.nread, "offset": s.offset,
        "cfs": s.current_frame_size.map(|v| v as i64).unwrap_or(-1),
        "pend": match s.pending { None => json!([]), Some((o, z, f)) => json!([o, z, f]) },
    })
}

impl Run {
    fn room(&mut self, c: usize) {
        self.sh.lock().unwrap().ab.wcap += c;
        self.out.push(json!({"e": "room", "c": c}).to_string());
    }

    fn take_w(&mut self) -> (bool, Vec<usize>) {
        let mut g = self.sh.lock().unwrap();
        let inner = std::mem::take(&mut g.ab.w_inner_pending);
        let nf = std::mem::take(&mut g.ab.new_frames);
        (inner, nf)
    }

    fn write(&mut self, req: usize) {
        if self.werr {
            return;
        }
        let waker = futures::task::noop_waker();
        let mut cx = Context::from_waker(&waker);
        let buf = &self.pay[self.sent..self.sent + req];
        let a = &mut self.a;
        let r = catch(|| Pin::new(a).poll_write(&mut cx, buf));
        let (inner, nf) = self.take_w();
        let st = wst(&self.a.verif_state());
        self.stats.writes += 1;
        let (res, acc, kind) = match r {
            // self-test fault: behave like a socket that returns the requested instead of the accepted length
            Ok(Poll::Ready(Ok(n))) if self.fault == "write_req" && n < req => {
                self.sent += req;
                self.fl = false;
                ("ok", req, String::new())
            }
            Ok(Poll::Ready(Ok(n))) => {
                self.sent += n;
                if n > 0 {
                    self.fl = false;
                }
                if n < req {
                    self.stats.write_partial += 1;
                }
                ("ok", n, String::new())
            }
            Ok(Poll::Pending) => {
                self.stats.write_pending += 1;
                ("pending", 0, String::new())
            }
            Ok(Poll::Ready(Err(e))) => {
                self.werr = true;
                self.stats.write_err += 1;
                ("err", 0, kind_str(e.kind()))
            }
            Err(p) => {
                self.werr = true;
                self.stats.panics += 1;
                ("panic", 0, p)
            }
        };
        if let Some((_, l)) = self.a.verif_state().writing {
            if l > MSG + 2 {
                self.stats.two_buffered += 1;
            }
        }
        self.out.push(json!({"e": "write", "req": req, "res": res, "acc": acc, "kind": kind, "inner": inner, "nf": nf, "st": st}).to_string());
    }

    fn flush(&mut self) -> bool {
        if self.werr {
            return false;
        }
        let waker = futures::task::noop_waker();
        let mut cx = Context::from_waker(&waker);
        let a = &mut self.a;
        let r = catch(|| Pin::new(a).poll_flush(&mut cx));
        let (inner, nf) = self.take_w();
        let st = wst(&self.a.verif_state());
        let (res, kind) = match r {
            Ok(Poll::Ready(Ok(()))) => {
                self.fl = true;
                ("ok", String::new())
            }
            Ok(Poll::Pending) => ("pending", String::new()),
            Ok(Poll::Ready(Err(e))) => {
                self.werr = true;
                ("err", kind_str(e.kind()))
            }
            Err(p) => {
                self.werr = true;
                self.stats.panics += 1;
                ("panic", p)
            }
        };
        self.out.push(json!({"e": "flush", "res": res, "kind": kind, "inner": inner, "nf": nf, "st": st}).to_string());
        res == "ok"
    }

    /// schedule `n` chunks of `c` bytes (clamped to what the stream holds); c = 0: Pending
    fn chunk(&mut self, c: usize, n: usize) {
        let mut g = self.sh.lock().unwrap();
        let d = &mut g.ab;
        if c == 0 {
            if d.rchunks.back().map(|(c, _)| *c == 0).unwrap_or(false) {
                return;
            }
            d.rchunks.push_back((0, 1));
            drop(g);
            self.out.push(json!({"e": "chunk", "c": 0, "n": 1}).to_string());
            return;
        }
        let un = d.unscripted();
        let n2 = n.min(un / c);
        let mut evs = vec![];
        if n2 > 0 {
            d.rchunks.push_back((c, n2));
            evs.push((c, n2));
        }
        if n2 < n && un - n2 * c > 0 {
            let rest = un - n2 * c;
            d.rchunks.push_back((rest, 1));
            evs.push((rest, 1));
        }
        drop(g);
        for (c, n) in evs {
            self.out.push(json!({"e": "chunk", "c": c, "n": n}).to_string());
        }
    }

    fn close(&mut self) {
        self.sh.lock().unwrap().ab.closed = true;
        self.out.push(json!({"e": "close"}).to_string());
    }

    /// returns the result class
    fn read(&mut self, b: usize, bufmem: &mut Vec<u8>) -> &'static str {
        let waker = futures::task::noop_waker();
        let mut cx = Context::from_waker(&waker);
        if bufmem.len() < b {
            bufmem.resize(b, 0);
        }
        let buf = &mut bufmem[..b];
        let s = &mut self.b;
        let r = catch(|| Pin::new(s).poll_read(&mut cx, buf));
        let inner = std::mem::take(&mut self.sh.lock().unwrap().ab.r_inner_pending);
        let vs = self.b.verif_state();
        if vs.read_state == 0 && vs.max_read != 0 && vs.max_read != vs.read_buffer_len - 2 - MSG {
            self.stats.aux += 1;
        }
        if vs.read_state == 0 && vs.nread == 1 && vs.offset == 0 {
            self.stats.carry1 += 1;
        }
        if vs.pending.is_some() {
            self.stats.pendsplit += 1;
        }
        let st = rst(&vs);
        let (res, kind, mut start, mut len, mut matched): (&'static str, String, i64, usize, bool) = match r {
            Ok(Poll::Ready(Ok(0))) if b > 0 => ("eof", String::new(), 0, 0, true),
            Ok(Poll::Ready(Ok(n))) => {
                let exp = self.pay.get(self.delivered..self.delivered + n);
                let m = n <= b && exp == Some(&buf[..n.min(b)]);
                let mut start = self.delivered as i64;
                if !m && n >= 8 && n <= b {
                    // where does the data come from? (diagnostics + honest `start`)
                    start = self.pay.windows(n).position(|w| w == &buf[..n]).map(|p| p as i64).unwrap_or(-1);
                }
                self.delivered += n;
                ("ok", String::new(), start, n, m)
            }
            Ok(Poll::Pending) => ("pending", String::new(), 0, 0, true),
            Ok(Poll::Ready(Err(e))) => ("err", kind_str(e.kind()), 0, 0, true),
            Err(p) => ("panic", p, 0, 0, true),
        };
        // harness-level fault injection (self-test of the check, never active in a normal run)
        let mut res = res;
        let mut dup = false;
        if !self.fault.is_empty() && !self.fault_used {
            match (self.fault.as_str(), res) {
                ("dup", "ok") if len >= 1 => {
                    dup = true;
                    self.fault_used = true;
                }
                ("lose", "ok") if self.delivered > len => {
                    // pretend the previous bytes never arrived: report a later start
                    start += 1;
                    self.fault_used = true;
                }
                ("flip", "ok") => {
                    matched = false;
                    self.fault_used = true;
                }
                ("swallow_err", "err") if kind == "InvalidData" => {
                    res = "ok";
                    len = 1;
                    start = self.delivered as i64;
                    self.fault_used = true;
                }
                _ => {}
            }
        }
        match res {
            "ok" => self.stats.reads_ok += 1,
            "pending" => self.stats.reads_pending += 1,
            "panic" => {
                if self.rerr {
                    self.stats.repoll_panics += 1
                } else {
                    self.stats.panics += 1
                }
            }
            _ => self.stats.reads_err += 1,
        }
        if matches!(res, "err" | "eof" | "panic") {
            self.rdone = true;
        }
        if matches!(res, "err" | "panic") {
            self.rerr = true;
        }
        let line = json!({"e": "read", "buf": b, "res": res, "kind": kind, "start": start, "len": len, "match": matched, "inner": inner, "st": st}).to_string();
        self.out.push(line.clone());
        if dup {
            self.out.push(line);
        }
        res
    }
}

fn handshake_pair(r: usize, w: usize, rt: &tokio::runtime::Runtime) -> (NoiseSocket<End>, NoiseSocket<End>, Arc<Mutex<Shared>>) {
    let (ea, eb, sh) = pair();
    let k1 = Keypair::generate();
    let k2 = Keypair::generate();
    let (ra, rb) = rt.block_on(async {
        tokio::join!(
            handshake(ea, &k1, Role::Dialer, r, w, Duration::from_secs(60), HandshakeTransport::Tcp),
            handshake(eb, &k2, Role::Listener, r, w, Duration::from_secs(60), HandshakeTransport::Tcp)
        )
    });
    let (a, _) = ra.expect("honest in-memory handshake (dialer)");
    let (b, _) = rb.expect("honest in-memory handshake (listener)");
    (a, b, sh)
}

fn execute(idx: usize, sc: &Scenario, pay: &Arc<Vec<u8>>, rt: &tokio::runtime::Runtime, fault: &str) -> (Vec<String>, Stats) {
    let (a, b, sh) = handshake_pair(sc.r, sc.w, rt);
    {
        let mut g = sh.lock().unwrap();
        assert!(g.ab.pipe.is_empty() && g.ba.pipe.is_empty(), "handshake left bytes in the pipe");
        g.ab.scripted = true;
        g.ab.plan = sc.plan.clone();
        g.ab.per_call_max = sc.per_call_max;
    }
    let mut run = Run {
        a, b, sh: sh.clone(), pay: pay.clone(), sent: 0, delivered: 0, out: vec![], werr: false, rdone: false,
        rerr: false, fl: true, fault: fault.to_string(), fault_used: false, stats: Stats::default(),
    };
    let mut mem = vec![0u8; 70000];
    for op in &sc.ops {
        match *op {
            Op::Write(n) => run.write(n.min(run.pay.len() - run.sent)),
            Op::Room(c) => run.room(c),
            Op::Flush => {
                run.flush();
            }
            Op::Chunk(c, n) => run.chunk(c, n),
            Op::Read(bsz) => {
                if !run.rdone {
                    run.read(bsz, &mut mem);
                }
            }
        }
        if run.werr {
            break;
        }
    }
    // drive to quiescence
    if !run.werr {
        let mut tries = 0;
        while !run.flush() && !run.werr && tries < 8 {
            run.room(BIG);
            tries += 1;
        }
        if run.fl && !run.werr {
            // deliver the rest of the stream
            let (c, pend_every) = sc.fin_chunk;
            loop {
                let un = sh.lock().unwrap().ab.unscripted();
                if un == 0 {
                    break;
                }
                if pend_every == 0 {
                    run.chunk(c, usize::MAX / (c + 1));
                } else {
                    run.chunk(c, pend_every);
                    run.chunk(0, 1);
                }
            }
            run.close();
            let mut i = 0usize;
            let mut budget = 4000;
            while !run.rdone && budget > 0 {
                // small buffers only for the first reads, then large ones (bounds the event count)
                let bsz = if i < 24 { sc.fin_rbufs[i % sc.fin_rbufs.len()] } else { 70000 };
                let res = run.read(bsz, &mut mem);
                if res == "pending" && !run.out.last().unwrap().contains("\"inner\":true") {
                    break; // hang: Pending without the carrier having said Pending (logged, Prop rejects)
                }
                i += 1;
                budget -= 1;
            }
            if run.rdone {
                // one re-poll after the final error: nothing may be delivered any more
                run.read(sc.fin_rbufs[0], &mut mem);
                run.out.push(json!({"e": "quiesce"}).to_string());
                run.stats.quiesced += 1;
            }
        }
    }
    let inner_reads = sh.lock().unwrap().ab.inner_reads;
    let p = &sc.plan;
    // ghost data of the attacker: when the attack has happened (ea) and the first frame it really
    // changed (ef), the latter from comparing the real byte streams
    let ef = sh.lock().unwrap().ab.first_affected_frame();
    let ea = match p.kind.as_str() {
        "none" => 0,
        "replay" => p.i + p.x,
        _ => p.i,
    };
    let model_ef = if p.kind == "replay" { p.i + p.x + 1 } else { p.i };
    // a coincidence (e.g. the byte shifted in by a truncation equals the one removed) is outside the ideal-AEAD Impl model
    let light = inner_reads <= LIGHT_MAX && (ef == 0 || ef == model_ef);
    let reset = json!({"e": "reset", "b": idx, "src": sc.src, "light": light,
        "cfg": {"MSG": MSG, "TAG": TAG, "R": sc.r, "W": sc.w, "CHUNK": MAX_FRAME_LEN},
        "plan": {"kind": p.kind, "i": p.i, "x": p.x, "y": p.y, "ea": ea, "ef": ef},
        "pcm": sc.per_call_max, "inner_reads": inner_reads})
    .to_string();
    let mut lines = vec![reset];
    lines.extend(run.out);
    (lines, run.stats)
}

// ------------------------------------------------------------------ scenario sources

const WSMALL: [usize; 10] = [1, 2, 17, 16, 1000, 16384, 32768, 65518, 65519, 65519];
const WBIG: [usize; 6] = [65520, 65521, 2 * 65520 - 1, 2 * 65520 + 1, 5 * 65520 + 3, 65520];
const RBUFS: [usize; 7] = [1, 15, 16, 17, 65519, 65520, 70000];

fn no_plan() -> Plan {
    Plan { kind: "none".into(), i: 0, x: 0, y: 0 }
}

fn random_plan(rng: &mut StdRng, nframes: usize) -> Plan {
    let kinds = ["body", "hdr", "trunc", "drop", "cut", "swap", "replay"];
    let kind = kinds[rng.gen_range(0..kinds.len())];
    let i = rng.gen_range(1..=nframes.max(1));
    let x = match kind {
        "hdr" => *[1usize, 2, 16, 0x100, 0x8000, 65535, 65520, 65519].choose(rng).unwrap() + if rng.gen_bool(0.3) { rng.gen_range(0..1000) } else { 0 },
        "trunc" => *[1usize, 2, 16, 17, 100, 70000].choose(rng).unwrap(),
        "cut" => *[0usize, 1, 2, 3, 17, 18, 19, 1000, 65536, 70000].choose(rng).unwrap(),
        "replay" => rng.gen_range(0..2),
        _ => 0,
    };
    let x = if kind == "hdr" { (x % 65535) + 1 } else { x };
    Plan { kind: kind.into(), i, x, y: rng.gen_range(0..1 << 20) }
}

fn chunk_choices(rng: &mut StdRng) -> usize {
    *[1usize, 2, FRAME - 1, FRAME, FRAME + 1, 3, 18, 19, 20, 4096, 65536, 65535, 100000, 400000].choose(rng).unwrap()
}

/// native real-scale scenario
fn native(rng: &mut StdRng, big: bool, with_plan: bool) -> Scenario {
    let r = *[1usize, 2, 5].choose(rng).unwrap();
    let w = *[1usize, 2].choose(rng).unwrap();
    let nw = rng.gen_range(1..=4);
    let mut ops = vec![];
    let room_mode = rng.gen_range(0..3); // 0 unlimited, 1 drip, 2 none until flush
    if room_mode == 0 {
        ops.push(Op::Room(BIG));
    }
    let interleave = rng.gen_bool(0.5);
    for wi in 0..nw {
        let n = if big && wi == nw - 1 { *WBIG.choose(rng).unwrap() } else { *WSMALL.choose(rng).unwrap() };
        if room_mode == 1 {
            ops.push(Op::Room(*[1usize, 2, 3, 18, 19, 1000, FRAME - 1, FRAME, FRAME + 1].choose(rng).unwrap()));
        }
        ops.push(Op::Write(n));
        if rng.gen_bool(0.3) {
            ops.push(Op::Write(*WSMALL.choose(rng).unwrap()));
        }
        if rng.gen_bool(0.5) {
            ops.push(Op::Flush);
        }
        if interleave {
            let c = chunk_choices(rng);
            ops.push(Op::Chunk(c, rng.gen_range(1..=if c < 100 { 70000 } else { 3 })));
            if rng.gen_bool(0.3) {
                ops.push(Op::Chunk(0, 1));
            }
            for _ in 0..rng.gen_range(0..4) {
                ops.push(Op::Read(*RBUFS.choose(rng).unwrap()));
            }
        }
    }
    let fin_chunk = (chunk_choices(rng), *[0usize, 0, 1, 2, 7].choose(rng).unwrap());
    // 1-byte chunks with a Pending after every chunk over hundreds of kB is only slow, not interesting
    let fin_chunk = if fin_chunk.0 < 100 && fin_chunk.1 != 0 { (fin_chunk.0, 0) } else { fin_chunk };
    let mut fin_rbufs: Vec<usize> = (0..rng.gen_range(1..4)).map(|_| *RBUFS.choose(rng).unwrap()).collect();
    if rng.gen_bool(0.2) {
        fin_rbufs = vec![rng.gen_range(1..70000)];
    }
    Scenario {
        src: if big { "native-big".into() } else { "native".into() },
        r, w,
        plan: if with_plan { random_plan(rng, nw + 1) } else { no_plan() },
        per_call_max: *[0usize, 0, 1, 7, 65537, 65538].choose(rng).unwrap(),
        ops, fin_chunk, fin_rbufs,
    }
}

/// systematic sweep: one max-size frame (or two) x every read buffer x every chunking x config
fn systematic(out: &mut Vec<Scenario>, thorough: bool) {
    let chunkings = [1usize, 2, FRAME - 1, FRAME, FRAME + 1, 65536];
    let wsizes: &[usize] = if thorough { &[1, 2, 17, 65518, 65519] } else { &[17, 65519] };
    for &r in &[1usize, 2, 5] {
        for &w in &[1usize, 2] {
            for &ws in wsizes {
                for &c in &chunkings {
                    for &b in &RBUFS {
                        if !thorough && (r + w + c + b + ws) % 3 != 0 {
                            continue;
                        }
                        out.push(Scenario {
                            src: "sweep".into(), r, w, plan: no_plan(), per_call_max: 0,
                            ops: vec![Op::Room(BIG), Op::Write(ws), Op::Write(ws), Op::Flush, Op::Write(1), Op::Write(ws)],
                            fin_chunk: (c, 0), fin_rbufs: vec![b],
                        });
                    }
                }
            }
        }
    }
}

/// every attack kind on every frame position of a 3-frame stream, several parameters
fn attacks(out: &mut Vec<Scenario>, rng: &mut StdRng, thorough: bool) {
    let kinds = ["body", "hdr", "trunc", "drop", "cut", "swap", "replay"];
    let reps = if thorough { 12 } else { 2 };
    for kind in kinds {
        for i in 1..=3usize {
            for _ in 0..reps {
                let mut p = random_plan(rng, 3);
                while p.kind != kind {
                    p = random_plan(rng, 3);
                }
                p.i = i;
                let ws: Vec<usize> = (0..3).map(|_| *WSMALL.choose(rng).unwrap()).collect();
                out.push(Scenario {
                    src: "attack".into(), r: *[1usize, 2, 5].choose(rng).unwrap(), w: *[1usize, 2].choose(rng).unwrap(),
                    plan: p, per_call_max: 0,
                    ops: vec![Op::Room(BIG), Op::Write(ws[0]), Op::Flush, Op::Write(ws[1]), Op::Flush, Op::Write(ws[2])],
                    fin_chunk: (chunk_choices(rng), 0), fin_rbufs: vec![*RBUFS.choose(rng).unwrap()],
                });
            }
        }
    }
}

/// TLC behaviour (unit scale: MSG=5, TAG=1) -> real-scale scenario of the same shape
fn concretise(b: &Value, rng: &mut StdRng) -> Scenario {
    let unit = MSG / b["cfg"]["MSG"].as_u64().unwrap() as usize; // 13107
    let jit = |rng: &mut StdRng, v: usize| (v as i64 + rng.gen_range(-1..=1)).max(1) as usize;
    let wmap = |rng: &mut StdRng, u: usize| match u {
        1 => *[1usize, 2, 17].choose(rng).unwrap(),
        2 => *[16usize, 1000, 16384, 32768, 65518].choose(rng).unwrap(),
        3 => 65519,
        4 => 65520,
        5 => 65521,
        6 => 2 * 65520 - 1,
        7 => 2 * 65520 + 1,
        _ => 5 * 65520 + 3,
    };
    let bmap = |rng: &mut StdRng, u: usize| match u {
        1 => *[1usize, 15].choose(rng).unwrap(),
        2 => *[16usize, 17].choose(rng).unwrap(),
        3 => 65519,
        4 => 65520,
        _ => 70000,
    };
    let mut ops = vec![];
    for o in b["ops"].as_array().unwrap() {
        let g = |k: &str| o[k].as_u64().unwrap() as usize;
        match o["e"].as_str().unwrap() {
            "write" => ops.push(Op::Write(wmap(rng, g("req")))),
            "flush" => ops.push(Op::Flush),
            "room" => ops.push(Op::Room(if g("c") >= 20 { BIG } else if rng.gen_bool(0.3) { g("c") } else { jit(rng, g("c") * unit) })),
            "chunk" => {
                let c = g("c");
                if c == 0 {
                    ops.push(Op::Chunk(0, 1));
                } else if c <= 2 && rng.gen_bool(0.5) {
                    ops.push(Op::Chunk(c, 1)); // literally 1 or 2 bytes (header splits)
                } else {
                    ops.push(Op::Chunk(jit(rng, c * unit), 1));
                }
            }
            "read" => ops.push(Op::Read(bmap(rng, g("buf")))),
            _ => {} // close / quiesce / wdone: the driver finishes every scenario itself
        }
    }
    let p = &b["plan"];
    let kind = p["kind"].as_str().unwrap().to_string();
    let x = p["x"].as_u64().unwrap() as usize;
    let x = match kind.as_str() {
        "hdr" => *[1usize, 0x100, 0x8000, 65535, 65520, 2, 16].choose(rng).unwrap(),
        "trunc" => if x == 1 { 1 } else { *[2usize, 16, 17, 70000].choose(rng).unwrap() },
        "cut" => match x { 0 => 0, 1 => 1, 2 => 2, _ => *[3usize, 18, 19, 1000, 65536].choose(rng).unwrap() },
        _ => x,
    };
    Scenario {
        src: "tlc".into(),
        r: b["cfg"]["R"].as_u64().unwrap() as usize,
        w: b["cfg"]["W"].as_u64().unwrap() as usize,
        plan: Plan { kind, i: p["i"].as_u64().unwrap() as usize, x, y: rng.gen_range(0..1 << 20) },
        per_call_max: 0,
        ops,
        fin_chunk: (chunk_choices(rng), 0),
        fin_rbufs: vec![*RBUFS.choose(rng).unwrap()],
    }
}

fn main() {
    let args = Args::parse();
    quiet_panics();
    let seed = args.u64("seed", 1);
    let out = args.str("out", "trace.ndjson");
    let threads = args.u64("threads", 8) as usize;
    let thorough = args.get("thorough").is_some();
    let fault = std::env::var("VERIF_FAULT").unwrap_or_default();
    let mut rng = StdRng::seed_from_u64(seed);
    let mut scs: Vec<Scenario> = vec![];
    if let Some(path) = args.get("behaviours") {
        let reps = args.u64("reps", 1);
        for b in read_jsonl(path) {
            for _ in 0..reps {
                scs.push(concretise(&b, &mut rng));
            }
        }
    }
    if args.get("systematic").is_some() {
        systematic(&mut scs, thorough);
        attacks(&mut scs, &mut rng, thorough);
    }
    for _ in 0..args.u64("random", 0) {
        let with_plan = rng.gen_bool(0.5);
        scs.push(native(&mut rng, false, with_plan));
    }
    for _ in 0..args.u64("big", 0) {
        scs.push(native(&mut rng, true, false));
    }
    let n = scs.len();
    let pay = payload();
    let jobs = Arc::new(Mutex::new(scs.into_iter().enumerate().rev().collect::<Vec<_>>()));
    let results = Arc::new(Mutex::new(Vec::<(usize, Vec<String>, Stats)>::new()));
    let mut hs = vec![];
    for _ in 0..threads {
        let (jobs, results, pay, fault) = (jobs.clone(), results.clone(), pay.clone(), fault.clone());
        hs.push(std::thread::spawn(move || {
            let rt = tokio::runtime::Builder::new_current_thread().enable_time().build().unwrap();
            loop {
                let job = jobs.lock().unwrap().pop();
                let Some((i, sc)) = job else { break };
                let (lines, st) = execute(i, &sc, &pay, &rt, &fault);
                results.lock().unwrap().push((i, lines, st));
            }
        }));
    }
    for h in hs {
        h.join().expect("worker thread");
    }
    let mut res = std::mem::take(&mut *results.lock().unwrap());
    res.sort_by_key(|(i, _, _)| *i);
    let mut lines = vec![];
    let mut t = Stats::default();
    let mut by_src = std::collections::BTreeMap::<String, usize>::new();
    let mut by_plan = std::collections::BTreeMap::<String, usize>::new();
    for (_, l, s) in &res {
        let h: Value = serde_json::from_str(&l[0]).unwrap();
        *by_src.entry(h["src"].as_str().unwrap().to_string()).or_default() += 1;
        *by_plan.entry(h["plan"]["kind"].as_str().unwrap().to_string()).or_default() += 1;
        lines.extend(l.iter().cloned());
        t.writes += s.writes; t.write_err += s.write_err; t.write_pending += s.write_pending; t.write_partial += s.write_partial;
        t.reads_ok += s.reads_ok; t.reads_err += s.reads_err; t.reads_pending += s.reads_pending; t.panics += s.panics;
        t.repoll_panics += s.repoll_panics; t.quiesced += s.quiesced; t.aux += s.aux; t.carry1 += s.carry1;
        t.pendsplit += s.pendsplit; t.two_buffered += s.two_buffered;
    }
    write_lines(&out, &lines);
    let summary = json!({"scenarios": n, "events": lines.len() - res.len(), "by_src": by_src, "by_plan": by_plan,
        "writes": t.writes, "write_err": t.write_err, "write_pending": t.write_pending, "write_partial": t.write_partial,
        "reads_ok": t.reads_ok, "reads_err": t.reads_err, "reads_pending": t.reads_pending,
        "panics_first": t.panics, "panics_on_repoll_after_error": t.repoll_panics, "quiesced": t.quiesced,
        "reader_aux_tail_states": t.aux, "reader_carry1_states": t.carry1, "reader_partial_frame_states": t.pendsplit,
        "writer_two_frames_buffered": t.two_buffered, "fault": fault});
    println!("SUMMARY {summary}");
}
