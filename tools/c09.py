"""C09 - idle connections close after the keep-alive timeout, busy ones are kept.

Pipeline: TLC checks the timed model KeepAliveMC (per-protocol tracker, handles, permits, loop exit) against the
monitor of KeepAlive.tla and emits one activity schedule per transition of the bounded graph; the harness bin
`keepalive` executes those schedules (scaled to T in {150 ms, 400 ms, 1 s}) and a hand-written timing catalogue
on many concurrent real two-node networks in real time; TLC validates every timed log against the monitor."""
import json
import os
import random
from vlib import *

ASSUME = [
    "only node A's idle mechanism can end a connection: node B's keep-alive timeout is 120 s, no fault is injected and "
    "the proxy only observes which side ended each TCP stream (tcp, ws); closes not ended by A are not judged; on quic "
    "(no proxy, quinn idle timeout 60 s) the close is the remote node's ConnectionClosed event, i.e. the QUIC "
    "connection really ended",
    "activity is stamped before the call and the close after it was observed, so NotBefore can only err on the lenient "
    "side; Eventually allows T + max(1 s, T) after the stamp taken after the last activity ended; networks whose "
    "scheduling-latency probe saw > 300 ms are re-run, never judged",
    "reading of 'activity' for NotBefore: opening a keep-alive substream (establishment included); holding one forbids "
    "closing, and its end starts the Eventually clock but not a new NotBefore interval (the literal reading is "
    "evaluated separately and reported as a note, see `strict_reading`)",
    "protocol-name dimension: inbound keep-alive substreams negotiated under the main or a fallback name are modelled in "
    "KeepAliveMC and run on real request-response networks (A: /verif/x/2 with fallback /verif/x/1, B: old or new name); "
    "the unit-level part does not see lifetime permits (only the transports' accept_substream consults the name map)",
    "hold-shape dimension: a held substream may be half-closed by reference (write half shut down through Sink::close(&mut s) "
    "or AsyncWrite::shutdown, or read-only after the remote's FIN); NotBefore(hold) covers the whole lifetime of the object",
    "TLC bounds: one connection, one keep-alive protocol and one non-keep-alive protocol, T = 2 ticks, horizon 9 ticks, "
    "up to 3 substream opens; timers and the loop exit are urgent",
]

MC_LINES = ["SPECIFICATION Spec", "INVARIANTS MonOK NotWhileBusy ClosedAtHorizon ActiveTracked", "VIEW View", "CHECK_DEADLOCK FALSE"]
BASE = {"K": {"k"}, "N": {"n"}, "TT": 2, "Horizon": 9, "MaxSub": 3, "Mutant": ""}
TS = (150, 400, 1000)


def mc_runs(ctx):
    runs = [("t2", dict(BASE)), ("t3", dict(BASE, TT=3, Horizon=10, MaxSub=2))]
    if not ctx.quick():
        runs.append(("t2-4", dict(BASE, MaxSub=4, Horizon=10)))
    out = []
    for name, consts in runs:
        r = tlc_mc(ctx, "KeepAliveMC.tla", write_cfg(ctx, "mc_%s.cfg" % name, consts, MC_LINES), workers=6, timeout=1800)
        if not r["ok"]:
            raise ToolError("KeepAliveMC violates the C09 monitor in config %s (model error or design finding to be replayed, "
                            "never a code verdict):\n%s" % (name, r.get("error", r["out"][-3000:])))
        out.append(dict({k: r[k] for k in ("transitions", "distinct", "depth", "wall_s") if k in r}, cfg=name))
        log("MC %s: %s" % (name, out[-1]))
    return out


def generate(ctx):
    cfg = write_cfg(ctx, "gen.cfg", dict(BASE, MaxSub=2 if ctx.quick() else 3, Horizon=8),
                    ["SPECIFICATION Spec", "VIEW View", "ACTION_CONSTRAINT Emit", "CHECK_DEADLOCK FALSE"])
    behs, st = tlc_generate(ctx, "KeepAliveMC.tla", cfg, timeout=900)
    seen, out = set(), []
    for b in behs:
        sched = to_sched(b["stims"])
        key = json.dumps(sched, sort_keys=True)
        if sched and key not in seen:
            seen.add(key)
            out.append((sched, any(s.get("q") == "n" for s in b["stims"])))
    st["schedules"] = len(out)
    st["behaviours_raw"] = len(behs)
    return out, st, behs


def to_sched(stims):
    """model stimuli -> real schedule: opens of the non-keep-alive protocol become background ping/identify, an open
    that fails in the model becomes an open of a protocol the remote does not speak"""
    failed = {s["id"] for s in stims if s["a"] == "fail"}
    out = []
    for s in stims:
        if s["a"] in ("open", "ropen") and s.get("q") == "k":
            a = s["a"] + ("_unsupported" if s["id"] in failed else "")
            out.append(dict({"at": s["at"], "a": a, "id": s["id"]}, **({"fb": s.get("fb", False)} if s["a"] == "ropen" else {})))
        elif s["a"] == "drop":
            out.append({"at": s["at"], "a": "drop", "id": s["id"]})
        elif s["a"] == "half":
            out.append({"at": s["at"], "a": "half", "id": s["id"], "shape": s["shape"]})
    return out


def catalogue():
    """hand-written timing families; `at` in ticks of T/2"""
    S = [("idle", []), ("hold-3T", [{"at": 1, "a": "open", "id": 1}, {"at": 7, "a": "drop", "id": 1}]),
         ("remote-hold-3T", [{"at": 1, "a": "ropen", "id": 1}, {"at": 7, "a": "drop", "id": 1}]),
         ("hold-forever", [{"at": 1, "a": "open", "id": 1}]), ("remote-hold-forever", [{"at": 1.5, "a": "ropen", "id": 1}]),
         ("two-holds", [{"at": 0.5, "a": "open", "id": 1}, {"at": 1.5, "a": "ropen", "id": 2}, {"at": 3, "a": "drop", "id": 1}, {"at": 6, "a": "drop", "id": 2}]),
         ("busy-then-idle", [x for i in range(4) for x in ({"at": 1 + 1.5 * i, "a": "open", "id": i}, {"at": 1.3 + 1.5 * i, "a": "drop", "id": i})]),
         ("unsupported", [{"at": 1, "a": "open_unsupported", "id": 1}]), ("remote-unsupported", [{"at": 1, "a": "ropen_unsupported", "id": 1}]),
         ("unsupported-late", [{"at": 1, "a": "open", "id": 1}, {"at": 3, "a": "open_unsupported", "id": 2}, {"at": 5, "a": "drop", "id": 1}])]
    # a short use at every quarter tick relative to the expiry of the establishment timer (T = 2 ticks)
    for k in range(1, 12):
        S.append(("use-at-%.2fT" % (k / 8.0), [{"at": k / 4.0, "a": "open" if k % 2 else "ropen", "id": 1}, {"at": k / 4.0 + 0.5, "a": "drop", "id": 1}]))
    # opens right around the expiry
    for off in (-25, -8, -2, 0, 3, 10):
        S.append(("open-at-expiry%+d" % off, [{"at": 2, "off_ms": off, "a": "open", "id": 1}, {"at": 3, "a": "drop", "id": 1}]))
        S.append(("ropen-at-expiry%+d" % off, [{"at": 2, "off_ms": off, "a": "ropen", "id": 1}, {"at": 3, "a": "drop", "id": 1}]))
    return S


def networks(ctx, gen):
    rnd = random.Random(ctx.seed)
    out = []

    def add(name, sched, T, role="single", ping=False, frm="A", perturb=0):
        n = {"name": name, "seed": rnd.randrange(1 << 30), "T": T, "role": role, "from": frm, "perturb": perturb, "sched": sched, "tick_ms": T / 2.0,
             # every fourth network runs over WebSocket (same byte proxy), every sixth single-connection network over
             # QUIC (no proxy: the close is observed at the remote node, which is told at once since the QUIC
             # connection is closed explicitly when the connection task ends)
             "transport": "quic" if len(out) % 6 == 5 and role == "single" else ("ws" if len(out) % 4 == 3 else "tcp")}
        if ping:
            n["ping_ms"] = max(20, T // 6)
            n["identify"] = True
        out.append(n)
    reps = 2 if ctx.quick() else 4
    for r in range(reps):
        for i, (name, sched) in enumerate(catalogue()):
            for j, T in enumerate(TS):
                if ctx.quick() and (i + j) % 2 and not name.startswith(("idle", "hold")):
                    continue
                add(name, sched, T, ping=(i + j + r) % 2 == 0, frm="AB"[(i + r) % 2], perturb=(i + j + r) % 3)
        # secondary role: two connections from simultaneous dials, activity on A's primary only
        for T in TS:
            add("double-idle", [], T, role="double", ping=r % 2 == 1, perturb=r % 3)
            add("double-hold", [{"at": 1, "a": "open", "id": 1}, {"at": 6, "a": "drop", "id": 1}], T, role="double", perturb=(r + 1) % 3)
            add("double-use", [{"at": 3, "a": "open", "id": 1}, {"at": 3.5, "a": "drop", "id": 1}], T, role="double", ping=True)
    # protocol-name dimension: request-response networks. A speaks /verif/x/2 with fallback /verif/x/1; B speaks only the
    # old name (the inbound substream at A is negotiated under the fallback name) or the new one. B sends a request,
    # A holds it (the inbound substream exists) and answers later; all three transports.
    def add_rr(name, sched, T, fb, k):
        n = {"name": name, "seed": rnd.randrange(1 << 30), "T": T, "role": "single", "from": "AB"[k % 2], "perturb": k % 3, "sched": sched,
             "tick_ms": T / 2.0, "kind": "rr", "fallback": fb, "transport": ("tcp", "ws", "quic")[k % 3]}
        if k % 4 == 0:
            n["ping_ms"], n["identify"] = max(20, T // 6), True
        out.append(n)
    rr_fams = [("rr-hold-3T", [{"at": 1, "a": "ropen", "id": 1}, {"at": 7, "a": "drop", "id": 1}]),
               ("rr-hold-2T", [{"at": 0.5, "a": "ropen", "id": 1}, {"at": 4.5, "a": "drop", "id": 1}]),
               ("rr-hold-forever", [{"at": 1, "a": "ropen", "id": 1}]),
               ("rr-short", [{"at": 1, "a": "ropen", "id": 1}, {"at": 1.5, "a": "drop", "id": 1}]),
               ("rr-two", [{"at": 0.5, "a": "ropen", "id": 1}, {"at": 1.5, "a": "ropen", "id": 2}, {"at": 3, "a": "drop", "id": 1}, {"at": 6, "a": "drop", "id": 2}])]
    k = 0
    for r in range(reps):
        for name, sched in rr_fams:
            for T in TS:
                for fb in (True, False):
                    k += 1
                    add_rr("%s-%s" % (name, "fallback" if fb else "main"), sched, T, fb, k)
    # TLC schedules that consist of remote opens (not failing) and drops only run as request-response networks too
    rr_gen = [sc for sc, _ in gen if sc and all(x["a"] in ("ropen", "drop") for x in sc) and any(x["a"] == "ropen" for x in sc)]
    for i, sc in enumerate(rnd.sample(rr_gen, min(len(rr_gen), 60 if ctx.quick() else 600))):
        k += 1
        add_rr("tlc-rr-%d" % i, sc, TS[i % 3], bool(next(x for x in sc if x["a"] == "ropen").get("fb", False)), k)
    # hold-shape dimension: a user-protocol substream that is half-closed BY REFERENCE (the object stays and keeps the
    # connection): write half shut down by the holder through Sink::close(&mut s) or AsyncWrite::shutdown(&mut s), or
    # only read from after the remote shut its write half down. Held for 1.5T / 3T past the half-close; all transports.
    def add_half(name, sched, T, k):
        n = {"name": name, "seed": rnd.randrange(1 << 30), "T": T, "role": "single", "from": "AB"[k % 2], "perturb": k % 3, "sched": sched,
             "tick_ms": T / 2.0, "kind": "half", "transport": ("tcp", "ws", "quic")[k % 3]}
        if k % 5 == 0:
            n["ping_ms"], n["identify"] = max(20, T // 6), True
        out.append(n)
    k = 0
    for r in range(reps):
        for who, shape in (("open", "write"), ("ropen", "read")):
            for how in ("sink_close", "shutdown"):
                for hold in (3, 6):
                    for T in TS:
                        k += 1
                        add_half("halfclosed-%s-%s-%gT" % ("local-write" if who == "open" else "remote-fin", how, hold / 2.0),
                                 [{"at": 1, "a": who, "id": 1}, {"at": 1.25, "a": "half", "id": 1, "how": how, "shape": shape}, {"at": 1.25 + hold, "a": "drop", "id": 1}], T, k)
    half_gen = [sc for sc, _ in gen if any(x["a"] == "half" for x in sc) and all(x["a"] in ("open", "ropen", "half", "drop") for x in sc)]
    for i, sc in enumerate(rnd.sample(half_gen, min(len(half_gen), 60 if ctx.quick() else 600))):
        k += 1
        # in the model the holder half-closes ("write") or the remote does ("read"); on real nodes the side that opened
        # the substream shuts its write half down, alternating between the two entry points
        add_half("halfclosed-tlc-%d" % i, [dict(x, how=("sink_close", "shutdown")[(i + j) % 2]) if x["a"] == "half" else x for j, x in enumerate(sc)], TS[i % 3], k)
    pick = rnd.sample(gen, min(len(gen), 220 if ctx.quick() else 3000))
    for i, (sched, ping) in enumerate(pick):
        for T in (TS if not ctx.quick() and i % 5 == 0 else (TS[i % 3],)):
            add("tlc-%d" % i, sched, T, ping=ping or i % 4 == 0, frm="AB"[i % 2], perturb=i % 3)
    rnd.shuffle(out)
    return out


def unit_part(ctx, behs):
    """handle discipline of the real TransportService (ServiceHarness, scripted time): every TLC behaviour (incl. opens
    refused with ChannelClogged, expiries, opened/failed/inbound substreams) and seeded random histories over two
    connections and three protocols; TLC validates the projections against KeepAlive.tla Part 2"""
    cap = 30000 if ctx.quick() else 60000      # keeps TLC trace validation of the unit part within the budget
    if len(behs) > cap:
        behs = random.Random(ctx.seed).sample(behs, cap)
    write_jsonl(ctx.path("ubehs.jsonl"), [{"stims": b["stims"]} for b in behs])
    nrand, rlen = (600, 40) if ctx.quick() else (6000, 60)
    summ, _ = harness(ctx, "kasvc", ["--behaviours", ctx.path("ubehs.jsonl"), "--random", nrand, "--len", rlen, "--seed", ctx.seed,
                                     "--out", ctx.path("unit.ndjson")], timeout=1800)
    log("UNIT: %s" % summ)
    if summ["model_projection_mismatches"]:
        log("NOTE drift: the real TransportService deviates from KeepAliveMC's expected handle/tracker projection in %d steps, e.g. %s"
            % (summ["model_projection_mismatches"], summ["drift_samples"][:2]))
    lines = read_lines(ctx.path("unit.ndjson"))
    nseg, nev, rejects = validate_all(ctx, "KeepAliveSvcTrace.tla", "KeepAliveSvcTrace.cfg", lines, tag="u")
    viol = []
    for r in rejects:
        seg, idx = r
        if r.reason == "unconsumed":
            raise ToolError("unit trace line could not be consumed: %s" % seg[idx - 1][:300])
        ev = json.loads(seg[idx - 1])
        # the step that made the handle Active without tracking: the last activity-like step of that key
        prev = [json.loads(x) for x in seg[1:idx - 1]]
        cause = next((e["a"] + ("" if e.get("ok") else "-refused") for e in reversed(prev)
                      if e.get("key") == ev.get("key") and e["a"] in ("open", "clog", "opened", "inbound", "failed")), "none")
        sig = "unit:%s@after-%s" % (r.reason.replace(" ", "-"), cause)
        viol.append({"sig": sig, "what": "%s (real TransportService, %s execution %s) at %s" % (r.reason, json.loads(seg[0]).get("kind"), json.loads(seg[0]).get("i"), seg[idx - 1][:300]),
                     "replay_obj": {"property": "C09", "level": "unit", "reason": r.reason, "signature": sig, "segment": [json.loads(x) for x in seg[:idx]]}})
    acts = {}
    for ln in lines:
        if '"e":"u"' in ln:
            a = json.loads(ln)["a"]
            acts[a] = acts.get(a, 0) + 1
    return {"executions_validated": nseg, "events_validated": nev, "harness": summ, "steps_by_kind": acts}, viol


def classify(seg, idx, reason):
    head = json.loads(seg[0])
    name = head.get("sc", "?")
    fam = "halfclosed" if name.startswith("halfclosed") else "tlc-rr" if name.startswith("tlc-rr") else ("tlc" if name.startswith("tlc-") else name.split("-at-")[0].split("+")[0])
    return "%s@%s" % (reason.replace(" ", "-"), fam)


def run_net(ctx, nets, tag="net", strict=False):
    write_jsonl(ctx.path("%s_sc.jsonl" % tag), nets)
    summ, _ = harness(ctx, "keepalive", ["--scenarios", ctx.path("%s_sc.jsonl" % tag), "--out", ctx.path("%s.ndjson" % tag),
                                         "--par", 48 if ctx.quick() else 64, "--threads", 8, "--strict", 1 if strict else 0], timeout=3000,
                      env={"VERIF_FAULT": os.environ.get("VERIF_FAULT", "")})
    return summ, read_lines(ctx.path("%s.ndjson" % tag))


def check(ctx):
    mc = mc_runs(ctx)
    gen, gstats, behs = generate(ctx)
    log("GEN %s" % {k: gstats[k] for k in gstats if k != "out"})
    build_s = cargo_build(ctx, ["keepalive", "kasvc"])
    unit, uviol = unit_part(ctx, behs)
    nets = networks(ctx, gen)
    summ, lines = run_net(ctx, nets)
    log("HARNESS: %s (build %ss, %d networks submitted)" % (summ, build_s, len(nets)))
    if summ["networks_judged"] < 0.8 * len(nets):
        raise ToolError("too many networks were not judged (%d of %d): %s" % (summ["networks_judged"], len(nets), summ["inconclusive_reasons"]))
    nseg, nev, rejects = validate_all(ctx, "KeepAliveTrace.tla", "KeepAliveTrace.cfg", lines)
    violations = list(uviol)
    for r in rejects:
        seg, idx = r
        if r.reason == "unconsumed":
            raise ToolError("trace line could not be consumed: %s" % seg[idx - 1][:300])
        sig = classify(seg, idx, r.reason)
        head = json.loads(seg[0])
        violations.append({"sig": sig, "what": "%s (network %s, T=%s ms) at %s" % (r.reason, head.get("sc"), head.get("T"), seg[idx - 1][:300]),
                           "replay_obj": {"property": "C09", "reason": r.reason, "signature": sig,
                                          "network": next((n for n in nets if n["name"] == head.get("sc") and n["seed"] == head.get("seed")), None),
                                          "segment": [json.loads(x) for x in seg]}})
    # the literal reading (the end of a hold starts a new NotBefore interval): note only
    strict_lines = [ln.replace('"strict":false', '"strict":true') if '"e":"reset"' in ln else ln for ln in lines]
    _, _, srej = validate_all(ctx, "KeepAliveTrace.tla", "KeepAliveTrace.cfg", strict_lines, tag="s")
    strict_n = len([r for r in srej if r.reason.startswith("closed earlier")])
    if strict_n:
        log("NOTE strict reading: in %d networks the connection closed less than T after the last keep-alive substream was dropped "
            "(it closes at once when T has passed since the last open); not judged, see ASSUME" % strict_n)
    cov = evidence(mc, gstats, summ, nets, lines, nseg, nev)
    cov["strict_reading"] = {"networks_closing_less_than_T_after_last_drop": strict_n}
    cov["unit_level"] = unit
    cov["traces_validated_against_impl"] += unit["executions_validated"]
    cov["events_validated"] += unit["events_validated"]
    cov["impl_divergences"] = unit["harness"]["model_projection_mismatches"]
    return conclude(ctx, "model_checking", cov, violations, ASSUME)


def evidence(mc, gstats, summ, nets, lines, nseg, nev):
    segs = split_segments(lines, lambda ln: '"e":"reset"' in ln)
    fam, shapes, margins = {}, set(), {"notbefore_min_ms": None, "eventually_max_ms": None}
    kinds, bytr = {}, {}
    for s in segs:
        head = json.loads(s[0])
        bytr[head.get("transport", "tcp")] = bytr.get(head.get("transport", "tcp"), 0) + 1
        name = head["sc"]
        f = "halfclosed-tlc" if name.startswith("halfclosed-tlc") else "tlc-rr" if name.startswith("tlc-rr") else ("tlc" if name.startswith("tlc-") else name)
        fam[f] = fam.get(f, 0) + 1
        T = head["T"]
        evs = [json.loads(x) for x in s[1:]]
        shape, last_act, idle, dropping = [], {}, {}, {}
        for e in evs:
            k = e["e"]
            if k in ("est", "open_begin", "open_ok", "open_fail", "drop_begin", "drop_done", "closed", "open_refused"):
                kinds[k] = kinds.get(k, 0) + 1
                # shape: event order with times bucketed in quarters of T
                t = e.get("t", e.get("t1", 0))
                shape.append((k, e.get("rem", None), int(4 * t / T)))
            st = e.get("s")
            if k == "est":
                last_act[st], idle[st] = e["t0"], e["t1"]
            elif k == "open_begin" and not e["rem"]:
                last_act[st] = max(last_act.get(st, 0), e["t"])
            elif k == "open_ok" and e["rem"]:
                last_act[st] = max(last_act.get(st, 0), e["tb"])
            elif k == "drop_begin":
                dropping[st] = dropping.get(st, 0) + 1
            elif k in ("open_fail", "drop_done"):
                idle[st] = max(idle.get(st, 0), e["t"])
                if k == "drop_done":
                    dropping[st] = dropping.get(st, 0) - 1
            elif k == "closed" and e["by"] == "self" and st in last_act:
                m1 = e["t"] - last_act[st] - T
                m2 = e["t"] - idle[st] - T
                margins["notbefore_min_ms"] = m1 if margins["notbefore_min_ms"] is None else min(margins["notbefore_min_ms"], m1)
                if not dropping.get(st):
                    margins["eventually_max_ms"] = m2 if margins["eventually_max_ms"] is None else max(margins["eventually_max_ms"], m2)
        shapes.add((head["T"], json.dumps(shape)))
    return {
        "states": sum(m["distinct"] for m in mc), "transitions": sum(m["transitions"] for m in mc),
        "traces_validated_against_impl": nseg, "events_validated": nev,
        "samples": [[json.loads(x) for x in s[:20] if '"e":"p_' not in x and '"e":"sub_' not in x] for s in segs[:2]],
        "evaluations": nseg, "distinct_nontrivial": len(shapes),
        "rule": "a case is one activity schedule executed in real time on a fresh pair of real litep2p nodes (T in 150/400/1000 ms; "
                "schedule from a transition of the bounded KeepAliveMC graph or from the hand-written timing catalogue; single or "
                "double connection; with/without ping+identify); distinct = distinct (T, order of observed activity/close events with "
                "times bucketed in quarters of T); every case ends in an observed close or a watched hold",
        "model_runs": mc, "generation": {k: gstats[k] for k in gstats if k != "out"}, "harness": summ,
        "network_families": fam, "networks_by_transport": bytr, "event_kinds": kinds, "networks_submitted": len(nets),
        "observed_margins": dict(margins, note="close - lastActivity - T (must be >= 0) / close - idleStart - T (must be <= slack)"),
        "impl_divergences": 0, "exhaustive": False,
    }


def replay(ctx, path):
    obj = json.load(open(path))
    seg = [json.dumps(x, separators=(",", ":")) for x in obj["segment"]]
    if obj.get("level") == "unit":
        _, _, rej = validate_all(ctx, "KeepAliveSvcTrace.tla", "KeepAliveSvcTrace.cfg", seg)
        log("replay recorded unit-level segment: %s" % ("; ".join("line %d: %s" % (r[1], r.reason) for r in rej) if rej else "accepted"))
        return 1 if rej else 0
    _, _, rej = validate_all(ctx, "KeepAliveTrace.tla", "KeepAliveTrace.cfg", seg)
    log("replay recorded segment: %s" % ("; ".join("line %d: %s" % (r[1], r.reason) for r in rej) if rej else "accepted"))
    rc = 1 if rej else 0
    if obj.get("network"):
        cargo_build(ctx, ["keepalive"])
        nets = [dict(obj["network"], seed=obj["network"]["seed"] + i) for i in range(12)]
        summ, lines = run_net(ctx, nets, tag="replay")
        _, _, rej2 = validate_all(ctx, "KeepAliveTrace.tla", "KeepAliveTrace.cfg", lines)
        log("replay on fresh nodes: %d of %d runs rejected %s" % (len(rej2), summ["networks_judged"], sorted({r.reason for r in rej2})))
        if rej2:
            rc = 1
    return rc


def selftest(ctx):
    ok = True
    for name, mut, expect in [("ping-holds-permit", "ping-holds-permit", "MonOK"), ("permit-leak", "permit-leak", "MonOK"), ("no-rearm", "no-rearm", "MonOK"),
                              ("activity-after-send", "activity-after-send", "ActiveTracked"), ("fallback-no-permit", "fallback-no-permit", "MonOK"),
                              ("permit-released-at-shutdown", "permit-released-at-shutdown", "MonOK")]:
        r = tlc_mc(ctx, "KeepAliveMC.tla", write_cfg(ctx, "neg_%s.cfg" % name, dict(BASE, MaxSub=2, Mutant=mut), MC_LINES), workers=4, expect_violation=True, timeout=600)
        hit = ("%s is violated" % expect) in r["out"]
        log("selftest model %s -> %s" % (name, "violates %s as required" % expect if hit else "NOT DETECTED"))
        ok &= hit
    cargo_build(ctx, ["keepalive"])
    cat = dict(catalogue())
    nets = [{"name": n, "seed": 5 + i, "T": 400, "role": "single", "from": "A", "perturb": 0, "sched": cat[n], "tick_ms": 200.0} for i, n in enumerate(["idle", "hold-3T", "remote-hold-3T"])]
    summ, lines = run_net(ctx, nets, tag="st")
    _, _, rej = validate_all(ctx, "KeepAliveTrace.tla", "KeepAliveTrace.cfg", lines)
    log("selftest baseline: %d networks, %d rejected" % (summ["networks_judged"], len(rej)))
    ok &= not rej and summ["networks_judged"] == 3

    def corrupt(desc, pick, edit):
        nonlocal ok
        for i, ln in enumerate(lines):
            e = json.loads(ln)
            if pick(e):
                mut = lines[:i] + [json.dumps(x, separators=(",", ":")) for x in edit(e)] + lines[i + 1:]
                _, _, rj = validate_all(ctx, "KeepAliveTrace.tla", "KeepAliveTrace.cfg", mut, tag="c")
                log("selftest corrupt: %s at line %d -> %s" % (desc, i + 1, "rejected: %s" % rj[0].reason if rj else "ACCEPTED"))
                ok &= bool(rj)
                return
        log("selftest corrupt: %s -> no candidate" % desc)
        ok = False
    corrupt("close 300 ms earlier", lambda e: e["e"] == "closed", lambda e: [dict(e, t=e["t"] - 300)])
    corrupt("close 3 s later", lambda e: e["e"] == "closed", lambda e: [dict(e, t=e["t"] + 3000)])
    corrupt("close never observed (still open 3 s later)", lambda e: e["e"] == "closed", lambda e: [{"e": "check", "s": e["s"], "t": e["t"] + 3000}])
    corrupt("close while the substream is held", lambda e: e["e"] == "drop_begin", lambda e: [{"e": "closed", "s": e["s"], "t": e["t"], "by": "self"}, e])
    # unit level: a good execution with one projection corrupted (a handle that stays Active through the expiries)
    cargo_build(ctx, ["kasvc"])
    harness(ctx, "kasvc", ["--random", 20, "--len", 30, "--seed", ctx.seed, "--out", ctx.path("ust.ndjson")])
    ul = read_lines(ctx.path("ust.ndjson"))
    _, _, urej = validate_all(ctx, "KeepAliveSvcTrace.tla", "KeepAliveSvcTrace.cfg", ul, tag="u")
    ok &= not urej
    seg0 = split_segments(ul, lambda ln: '"e":"reset"' in ln)[0]
    mut = []
    for ln in seg0:
        e = json.loads(ln)
        if e.get("a") in ("expire", "final"):
            for x in e["proj"]:
                if x["k"] == "k:1":
                    x["act"] = True
            if e["a"] == "final":
                e["closed"] = False
        mut.append(json.dumps(e, separators=(",", ":")))
    _, _, urj = validate_all(ctx, "KeepAliveSvcTrace.tla", "KeepAliveSvcTrace.cfg", mut, tag="u")
    log("selftest corrupt (unit): handle k:1 stays Active through every expiry -> %s" % ("rejected: %s" % urj[0].reason if urj else "ACCEPTED"))
    ok &= bool(urj)
    os.environ["VERIF_FAULT"] = "early_close"
    try:
        s2, l2 = run_net(ctx, nets[:1], tag="f")
    finally:
        os.environ.pop("VERIF_FAULT")
    _, _, rj = validate_all(ctx, "KeepAliveTrace.tla", "KeepAliveTrace.cfg", l2, tag="f")
    log("selftest harness fault early_close -> %s" % ("rejected: %s" % rj[0].reason if rj else "ACCEPTED"))
    ok &= bool(rj)
    log("SELFTEST %s" % ("ok" if ok else "FAILED"))
    return 0 if ok else 2
