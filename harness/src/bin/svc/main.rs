//! C08 (and the ordering clause of C07): drive real `TransportService`s and the real `ProtocolSet`s
//! of scripted connections (`litep2p::verif::svc::ServiceHarness`) with TLC-generated or seeded
//! random stimulus sequences, one stimulus at a time, and record after each stimulus what the call
//! returned / what the polled service yielded plus read-only projections.
//!
//! Stimuli (field `a`): est close drop poll open cmd reply inbound fclose expire.  Every execution
//! ends with an epilogue that settles everything outstanding (`quiesce`), probes each live
//! connection with an inbound substream, closes everything and re-establishes a fresh connection
//! per peer (so that a lost or duplicated established/closed event surfaces as an event the
//! monitor can judge).
use litep2p::{
    verif::svc::{Cmd, Delivery, ServiceHarness, SvcEvent},
    PeerId,
};
use multiaddr::Multiaddr;
use rand::{rngs::StdRng, seq::SliceRandom, Rng, SeedableRng};
use serde_json::{json, Value};
use std::collections::BTreeMap;
use vharness::*;

mod net;

const PEERS: [&str; 3] = ["p1", "p2", "p3"];
const NQ: usize = 2;

struct World {
    h: ServiceHarness,
    peers: Vec<(String, PeerId)>,
    /// cid -> (peer name, "live" | "closing" | "dead")
    conns: BTreeMap<usize, (String, &'static str)>,
    next_cid: usize,
    /// connections suspended in a delivery: cid -> the `deliver` stimulus that completes it
    blocked: BTreeMap<usize, Value>,
    /// connection-side phase of every request a scripted connection has read: (cid, id) -> "slot" (waiting
    /// for a stream of the multiplexer) | "neg" (negotiating); environment bookkeeping only
    phase: BTreeMap<(usize, usize), &'static str>,
    /// random runs: the user may drop a protocol in this execution
    dropper: bool,
    fault: String,
    panicked: bool,
    /// harness-side count of steps per stimulus kind
    out: Vec<String>,
}

impl World {
    fn new(ka: &[bool], fault: &str) -> Self {
        let h = ServiceHarness::new(ka);
        let peers = PEERS.iter().map(|n| (n.to_string(), PeerId::random())).collect();
        World { h, peers, conns: BTreeMap::new(), next_cid: 1, blocked: BTreeMap::new(), phase: BTreeMap::new(), dropper: false, fault: fault.to_string(), panicked: false, out: vec![] }
    }
    fn peer(&self, n: &str) -> PeerId {
        self.peers.iter().find(|(k, _)| k == n).expect("peer").1
    }
    fn pname(&self, p: &PeerId) -> String {
        self.peers.iter().find(|(_, q)| q == p).map(|(n, _)| n.clone()).unwrap_or_else(|| "?".into())
    }
    fn st(&self, c: usize) -> &'static str {
        self.conns.get(&c).map(|x| x.1).unwrap_or("none")
    }
    /// a new sender would get a slot of q's inbox at once (nobody is queued for it)
    fn room(&self, q: usize) -> bool {
        // a dropped protocol never makes a sender wait: the send fails at once
        !self.h.is_live(q) || (self.h.inbox_free(q) > 0 && !self.blocked.values().any(|d| d["q"] == q))
    }
    fn live_protocols(&self) -> Vec<usize> {
        (0..NQ).filter(|q| self.h.is_live(*q)).collect()
    }
    fn room_all(&self) -> bool {
        (0..NQ).all(|q| self.room(q))
    }
    fn inbox_empty(&self, q: usize) -> bool {
        self.h.inbox_len(q) == 0 && self.h.filler_len(q) == 0
    }
    fn delivery(d: Result<Delivery, String>) -> Value {
        match d {
            Ok(Delivery::Done(Ok(()))) => json!({"k": "ok"}),
            Ok(Delivery::Done(Err(e))) => json!({"k": "err", "err": e}),
            Ok(Delivery::Blocked) => json!({"k": "blocked"}),
            Err(e) if e == "nopermit" => json!({"k": "nopermit"}),
            Err(e) => json!({"k": "err", "err": e}),
        }
    }
    fn live(&self) -> Vec<usize> {
        self.conns.iter().filter(|(_, x)| x.1 == "live").map(|(c, _)| *c).collect()
    }
    fn live_of(&self, p: &str) -> usize {
        self.conns.values().filter(|x| x.1 == "live" && x.0 == p).count()
    }

    fn event(&self, e: SvcEvent) -> Value {
        match e {
            SvcEvent::Established { peer, cid, listener } => {
                json!({"k": "est", "p": self.pname(&peer), "c": cid, "dir": if listener { "in" } else { "out" }})
            }
            SvcEvent::Closed { peer } => json!({"k": "closed", "p": self.pname(&peer)}),
            SvcEvent::Opened { peer, protocol, id, .. } => json!({"k": "opened", "p": self.pname(&peer), "q": protocol,
                "dirn": if id.is_some() { "out" } else { "in" }, "id": id.map(|i| i as i64).unwrap_or(-1)}),
            SvcEvent::OpenFailure { id, .. } => json!({"k": "failed", "id": id}),
            SvcEvent::DialFailure { .. } => json!({"k": "dialfailure"}),
            SvcEvent::Terminated => json!({"k": "terminated"}),
            SvcEvent::Pending => json!({"k": "pending"}),
        }
    }

    fn view(&self) -> Value {
        let mut conns = vec![];
        let mut track = vec![];
        let mut inbox = vec![];
        for q in 0..NQ {
            let mut m = serde_json::Map::new();
            for (n, p) in &self.peers {
                let v = match self.h.connections(q, p) {
                    None => json!({"pri": 0, "priA": false, "sec": 0, "secA": false}),
                    Some((pri, pa, None)) => json!({"pri": pri, "priA": pa, "sec": 0, "secA": false}),
                    Some((pri, pa, Some((sec, sa)))) => json!({"pri": pri, "priA": pa, "sec": sec, "secA": sa}),
                };
                m.insert(n.clone(), v);
            }
            conns.push(Value::Object(m));
            let mut t: Vec<(String, usize)> = self.h.keep_alive_tracked(q).iter().map(|(p, c)| (self.pname(p), *c)).collect();
            t.sort();
            track.push(json!(t));
            inbox.push(self.h.inbox_len(q));
        }
        let blk: Vec<usize> = self.blocked.keys().copied().collect();
        let deadq: Vec<usize> = (0..NQ).filter(|q| !self.h.is_live(*q)).collect();
        json!({"conns": conns, "track": track, "inbox": inbox, "next": self.h.next_substream_id(), "blk": blk, "deadq": deadq})
    }

    /// Apply one stimulus; the recorded line is appended to `self.out`. Returns false if the
    /// stimulus is not applicable on the real run (the behaviour is abandoned, never judged).
    fn apply(&mut self, s: &Value) -> bool {
        if self.panicked {
            return false;
        }
        let a = s["a"].as_str().unwrap().to_string();
        let mut stim = s.clone();
        let cid = s.get("c").and_then(|c| c.as_u64()).map(|c| c as usize);
        let q = s.get("q").and_then(|c| c.as_u64()).map(|c| c as usize);
        let sp = s.get("p").and_then(|p| p.as_str()).map(|p| p.to_string());
        let res: Result<Option<Value>, String> = match a.as_str() {
            "est" => {
                let p = sp.clone().unwrap();
                let c = self.next_cid;
                let full = s.get("full").and_then(|x| x.as_i64()).unwrap_or(-1);
                if cid.map(|w| w != c).unwrap_or(false) {
                    return false;
                }
                if full < 0 && !self.room_all() {
                    return false;
                }
                if full >= 0 {
                    let fq = full as usize;
                    let others_ok = (0..NQ).filter(|q| *q != fq).all(|q| self.room(q));
                    if fq >= NQ || !self.h.is_live(fq) || self.blocked.values().any(|d| d["q"] == fq) || !others_ok {
                        return false;
                    }
                }
                stim["full"] = json!(full);
                let listener = c % 2 == 1;
                stim["c"] = json!(c);
                stim["dir"] = json!(if listener { "in" } else { "out" });
                let peer = self.peer(&p);
                let address: Multiaddr = format!("/ip4/10.0.{}.{}/tcp/{}", c / 250, c % 250 + 1, 30000 + c).parse().unwrap();
                self.next_cid += 1;
                self.conns.insert(c, (p.clone(), "live"));
                let r = catch(|| self.h.establish(peer, c, listener, address, if full >= 0 { Some(full as usize) } else { None }))
                    .map(|r| Some(World::delivery(r)));
                if let Ok(Some(v)) = &r {
                    if v["k"] == "blocked" {
                        self.blocked.insert(c, json!({"a": "deliver", "c": c, "what": "est", "id": -1, "ok": true, "q": full, "p": p}));
                    }
                }
                r
            }
            "dropproto" => {
                let q = q.unwrap();
                if !self.h.is_live(q) || self.live_protocols().len() < 2 {
                    return false;
                }
                catch(|| self.h.drop_protocol(q)).map(|_| Some(json!({"k": "ok"})))
            }
            "close" => {
                let c = cid.unwrap();
                if self.st(c) != "live" || self.blocked.contains_key(&c) || !self.room_all() {
                    return false;
                }
                let clog = s.get("clog").and_then(|x| x.as_i64()).unwrap_or(-1);
                if clog >= 0 && (!self.h.is_live(clog as usize) || !self.inbox_empty(clog as usize)) {
                    return false;
                }
                stim["p"] = json!(self.conns[&c].0);
                stim["clog"] = json!(clog);
                self.conns.get_mut(&c).unwrap().1 = "closing";
                let fault = self.fault.clone();
                catch(|| self.h.close(c, if clog >= 0 { Some(clog as usize) } else { None })).map(|r| {
                    r.map(|rep| {
                        let mut early = rep.manager_early;
                        if fault == "mgr_early" && clog >= 0 {
                            early = true;
                        }
                        json!({"k": if rep.ok { "ok" } else { "err" }, "early": early, "mgr": rep.manager.len(),
                               "told": rep.told, "blocked": rep.blocked, "filler": rep.filler})
                    })
                })
            }
            "drop" => {
                let c = cid.unwrap();
                if self.st(c) != "closing" || self.blocked.contains_key(&c) {
                    return false;
                }
                self.conns.get_mut(&c).unwrap().1 = "dead";
                let pending: Vec<Value> = self.h.pending_opens(c).iter().map(|(q, id)| json!({"q": q, "id": id})).collect();
                catch(|| self.h.drop_connection(c)).map(|r| {
                    r.map(|unread| {
                        let unread: Vec<Value> = unread
                            .iter()
                            .filter_map(|cmd| match cmd {
                                Cmd::Open { protocol, id, .. } => Some(json!({"q": protocol, "id": id})),
                                _ => None,
                            })
                            .collect();
                        json!({"k": "ok", "unread": unread, "pending": pending})
                    })
                })
            }
            "poll" => {
                let q = q.unwrap();
                if !self.h.is_live(q) {
                    return false;
                }
                let fault = self.fault.clone();
                catch(|| self.h.poll_service(q)).map(|e| {
                    let mut v = self.event(e);
                    if fault == "answer_id" && (v["k"] == "failed" || (v["k"] == "opened" && v["dirn"] == "out")) {
                        v["id"] = json!(v["id"].as_i64().unwrap() + 1);
                    }
                    if fault == "drop_closed" && v["k"] == "closed" {
                        v = json!({"k": "pending"});
                    }
                    Some(v)
                })
            }
            "open" => {
                let (q, p) = (q.unwrap(), self.peer(sp.as_ref().unwrap()));
                if !self.h.is_live(q) {
                    return false;
                }
                let fault = self.fault.clone();
                catch(|| self.h.open_substream(q, p)).map(|r| {
                    Some(match r {
                        Ok(id) => json!({"k": "ok", "id": if fault == "id_reuse" { id / 2 } else { id }}),
                        Err(e) => json!({"k": "err", "err": e}),
                    })
                })
            }
            "cmd" => {
                let c = cid.unwrap();
                if self.st(c) != "live" || self.blocked.contains_key(&c) {
                    return false;
                }
                let phase = &mut self.phase;
                catch(|| self.h.next_command(c)).map(|r| {
                    r.map(|cmd| match cmd {
                        Cmd::Open { protocol, id, cid, .. } => {
                            phase.insert((c, id), "slot");
                            json!({"k": "open", "q": protocol, "id": id, "cc": cid})
                        }
                        Cmd::ForceClose => json!({"k": "force"}),
                        Cmd::Closed => json!({"k": "none"}),
                        Cmd::Pending => json!({"k": "pending"}),
                    })
                })
            }
            "slot" => {
                let (c, id) = (cid.unwrap(), s["id"].as_u64().unwrap() as usize);
                if self.st(c) != "live" || self.blocked.contains_key(&c) || self.phase.get(&(c, id)) != Some(&"slot") {
                    return false;
                }
                self.phase.insert((c, id), "neg");
                Ok(Some(json!({"k": "ok"})))
            }
            "reply" => {
                let (c, id) = (cid.unwrap(), s["id"].as_u64().unwrap() as usize);
                let Some((rq, _)) = self.h.pending_opens(c).into_iter().find(|(_, i)| *i == id) else { return false };
                // a substream can only be reported open after its negotiation: the stream slot comes first
                if s["ok"].as_bool().unwrap() && self.phase.get(&(c, id)) == Some(&"slot") && !self.apply(&json!({"a": "slot", "c": c, "id": id})) {
                    return false;
                }
                let full = s.get("full").and_then(|x| x.as_bool()).unwrap_or(false) && self.h.is_live(rq);
                // one sender at a time waits for an inbox; an ordinary delivery needs a free slot
                if self.st(c) != "live" || self.blocked.contains_key(&c) || self.blocked.values().any(|d| d["q"] == rq) || (!full && !self.room(rq)) {
                    return false;
                }
                let ok = s["ok"].as_bool().unwrap();
                stim["full"] = json!(full);
                stim["q"] = json!(rq);
                self.phase.remove(&(c, id));
                let r = catch(|| self.h.reply(c, id, ok, full)).map(|r| Some(World::delivery(r)));
                if let Ok(Some(v)) = &r {
                    if v["k"] == "blocked" {
                        self.blocked.insert(c, json!({"a": "deliver", "c": c, "what": "reply", "id": id, "ok": ok, "q": rq, "p": self.conns[&c].0}));
                    }
                }
                r
            }
            "inbound" => {
                let (c, q) = (cid.unwrap(), q.unwrap());
                let full = s.get("full").and_then(|x| x.as_bool()).unwrap_or(false) && self.h.is_live(q);
                if self.st(c) != "live" || self.blocked.contains_key(&c) || self.blocked.values().any(|d| d["q"] == q) || (!full && !self.room(q)) {
                    return false;
                }
                stim["p"] = json!(self.conns[&c].0);
                stim["full"] = json!(full);
                let r = catch(|| self.h.inbound(c, q, full)).map(|r| Some(World::delivery(r)));
                if let Ok(Some(v)) = &r {
                    if v["k"] == "blocked" {
                        self.blocked.insert(c, json!({"a": "deliver", "c": c, "what": "inbound", "id": -1, "ok": true, "q": q, "p": self.conns[&c].0}));
                    }
                }
                r
            }
            "deliver" => {
                let c = cid.unwrap();
                let Some(d) = self.blocked.get(&c).cloned() else { return false };
                stim = d;
                let r = catch(|| self.h.deliver(c)).map(|r| r.map(|d| World::delivery(Ok(d))));
                if let Ok(Some(v)) = &r {
                    if v["k"] != "blocked" {
                        self.blocked.remove(&c);
                    }
                }
                r
            }
            "fclose" => {
                let (q, p) = (q.unwrap(), self.peer(sp.as_ref().unwrap()));
                if !self.h.is_live(q) {
                    return false;
                }
                catch(|| self.h.force_close(q, p)).map(|r| {
                    Some(match r {
                        Ok(()) => json!({"k": "ok"}),
                        Err(e) => json!({"k": "err", "err": e}),
                    })
                })
            }
            "expire" => {
                let (q, p, c) = (q.unwrap(), self.peer(sp.as_ref().unwrap()), cid.unwrap());
                if !self.h.is_live(q) || !self.inbox_empty(q) {
                    return false;
                }
                catch(|| {
                    if self.h.expire_keep_alive(q, p, c) {
                        let e = self.h.poll_service(q);
                        json!({"k": "ok", "pev": self.event(e)})
                    } else {
                        json!({"k": "untracked"})
                    }
                })
                .map(Some)
            }
            other => panic!("unknown stimulus {other}"),
        };
        let (ret, panic) = match res {
            Ok(Some(v)) => (v, false),
            Ok(None) => return false,
            Err(msg) => (json!({"k": "panic", "msg": msg.chars().take(120).collect::<String>()}), true),
        };
        self.panicked = panic;
        let view = if panic { json!(0) } else { self.view() };
        self.out.push(json!({"e": "step", "s": stim, "ret": ret, "panic": panic, "view": view}).to_string());
        true
    }

    fn last_ret(&self) -> Value {
        let v: Value = serde_json::from_str(self.out.last().unwrap()).unwrap();
        v["ret"].clone()
    }

    fn poll_all(&mut self) {
        for q in 0..NQ {
            let mut guard = 0;
            while !self.panicked && !self.inbox_empty(q) && guard < 10_000 {
                self.apply(&json!({"a": "poll", "q": q}));
                guard += 1;
            }
        }
    }

    fn close_and_drop(&mut self, c: usize) {
        self.apply(&json!({"a": "close", "c": c, "clog": -1}));
        self.apply(&json!({"a": "drop", "c": c}));
    }

    /// Bring the execution to quiescence: nothing queued, nothing unanswered, every inbox empty.
    fn settle(&mut self, rng: &mut StdRng) {
        for _round in 0..6 {
            if self.panicked {
                return;
            }
            // protocols drain their inboxes (filler included), suspended deliveries complete
            self.poll_all();
            for c in self.blocked.keys().copied().collect::<Vec<_>>() {
                self.apply(&json!({"a": "deliver", "c": c}));
            }
            let closing: Vec<usize> = self.conns.iter().filter(|(_, x)| x.1 == "closing").map(|(c, _)| *c).collect();
            for c in closing {
                self.apply(&json!({"a": "drop", "c": c}));
            }
            for c in self.live() {
                loop {
                    if self.panicked || !self.apply(&json!({"a": "cmd", "c": c})) {
                        break;
                    }
                    let k = self.last_ret()["k"].as_str().unwrap().to_string();
                    match k.as_str() {
                        "open" => continue,
                        "force" | "none" => {
                            // a real connection closes itself now; unanswered requests go with it
                            self.close_and_drop(c);
                            break;
                        }
                        _ => break,
                    }
                }
                if self.st(c) == "live" {
                    for (_, id) in self.h.pending_opens(c) {
                        self.apply(&json!({"a": "reply", "c": c, "id": id, "ok": rng.gen_bool(0.5)}));
                    }
                }
            }
            self.poll_all();
            if self.settled() {
                break;
            }
        }
        if !self.panicked && self.settled() {
            self.out.push(json!({"e": "quiesce"}).to_string());
        }
    }

    /// nothing is in flight anywhere (the harness' own bookkeeping plus read-only projections)
    fn settled(&self) -> bool {
        self.blocked.is_empty()
            && (0..NQ).all(|q| self.inbox_empty(q))
            && self.conns.iter().all(|(c, x)| match x.1 {
                "closing" => false,
                "live" => self.h.pending_opens(*c).is_empty(),
                _ => true,
            })
    }

    fn epilogue(&mut self, rng: &mut StdRng) {
        self.settle(rng);
        // every live connection can still deliver a substream to every protocol
        for c in self.live() {
            for q in self.live_protocols() {
                self.apply(&json!({"a": "inbound", "c": c, "q": q}));
            }
        }
        self.poll_all();
        for c in self.live() {
            self.close_and_drop(c);
        }
        self.poll_all();
        // a fresh connection per peer that was used: must be announced (once) and usable
        let mut used: Vec<String> = self.conns.values().map(|x| x.0.clone()).collect();
        used.sort();
        used.dedup();
        for p in used {
            if self.panicked {
                break;
            }
            if !self.apply(&json!({"a": "est", "p": p})) {
                continue;
            }
            let c = self.next_cid - 1;
            self.poll_all();
            for q in self.live_protocols() {
                self.apply(&json!({"a": "inbound", "c": c, "q": q}));
            }
            self.poll_all();
            // usability: this fresh connection is the only one to the peer, every protocol has consumed its
            // inbox, nothing was downgraded since: open_substream must be accepted (and is answered below)
            let only = self.conns.iter().all(|(d, x)| *d == c || x.0 != p || x.1 == "dead");
            let clean = only && self.blocked.is_empty() && (0..NQ).all(|q| self.inbox_empty(q));
            for q in self.live_protocols() {
                self.apply(&json!({"a": "open", "q": q, "p": p, "probe": clean}));
            }
            while !self.panicked && self.apply(&json!({"a": "cmd", "c": c})) && self.last_ret()["k"] == "open" {}
            if self.st(c) == "live" {
                for (_, id) in self.h.pending_opens(c) {
                    self.apply(&json!({"a": "reply", "c": c, "id": id, "ok": false}));
                }
            }
            self.poll_all();
            self.close_and_drop(c);
            self.poll_all();
        }
        if !self.panicked && self.settled() {
            self.out.push(json!({"e": "quiesce"}).to_string());
        }
    }

    /// stimuli a legal environment / protocol could produce now
    fn enabled(&self, rng: &mut StdRng, overlap: usize, max_cid: usize) -> Vec<Value> {
        let mut v = vec![];
        for (n, p) in &self.peers {
            if self.live_of(n) < overlap && self.next_cid <= max_cid {
                v.push(json!({"a": "est", "p": n, "full": if rng.gen_bool(0.1) { rng.gen_range(0..NQ as i64) } else { -1 }}));
            }
            for q in 0..NQ {
                if self.h.connections(q, p).is_some() || rng.gen_bool(0.1) {
                    v.push(json!({"a": "open", "q": q, "p": n}));
                    v.push(json!({"a": "open", "q": q, "p": n}));
                    if rng.gen_bool(0.15) {
                        v.push(json!({"a": "fclose", "q": q, "p": n}));
                    }
                }
            }
        }
        if self.dropper && rng.gen_bool(0.3) {
            v.push(json!({"a": "dropproto", "q": rng.gen_range(0..NQ)}));
        }
        for q in 0..NQ {
            v.push(json!({"a": "poll", "q": q}));
            if !self.inbox_empty(q) {
                v.push(json!({"a": "poll", "q": q}));
                v.push(json!({"a": "poll", "q": q}));
            } else {
                let mut tracked: Vec<(String, usize)> = self.h.keep_alive_tracked(q).iter().map(|(p, c)| (self.pname(p), *c)).collect();
                tracked.sort();
                for (p, c) in tracked {
                    if rng.gen_bool(0.5) {
                        v.push(json!({"a": "expire", "q": q, "p": p, "c": c}));
                    }
                }
            }
        }
        for (c, (_, st)) in &self.conns {
            match *st {
                "live" => {
                    let clog = if rng.gen_bool(0.08) { rng.gen_range(0..NQ as i64) } else { -1 };
                    if self.blocked.contains_key(c) {
                        v.push(json!({"a": "deliver", "c": c}));
                        v.push(json!({"a": "deliver", "c": c}));
                        continue;
                    }
                    if clog < 0 || self.inbox_empty(clog as usize) {
                        v.push(json!({"a": "close", "c": c, "clog": clog}));
                    }
                    v.push(json!({"a": "cmd", "c": c}));
                    v.push(json!({"a": "cmd", "c": c}));
                    for (_, id) in self.h.pending_opens(*c) {
                        if self.phase.get(&(*c, id)) == Some(&"slot") {
                            v.push(json!({"a": "slot", "c": c, "id": id}));
                        }
                        v.push(json!({"a": "reply", "c": c, "id": id, "ok": rng.gen_bool(0.5), "full": rng.gen_bool(0.12)}));
                        v.push(json!({"a": "reply", "c": c, "id": id, "ok": rng.gen_bool(0.5), "full": false}));
                    }
                    v.push(json!({"a": "inbound", "c": c, "q": rng.gen_range(0..NQ), "full": rng.gen_bool(0.06)}));
                }
                "closing" => {
                    v.push(json!({"a": "drop", "c": c}));
                    v.push(json!({"a": "drop", "c": c}));
                }
                _ => {}
            }
        }
        v
    }
}

fn ka_of(v: &Value) -> Vec<bool> {
    v.as_array().map(|a| a.iter().map(|x| x.as_bool().unwrap()).collect()).unwrap_or_else(|| vec![true, false])
}

fn run_behaviour(b: usize, ka: &[bool], stims: &[Value], src: &str, fault: &str, rng: &mut StdRng) -> (Vec<String>, bool) {
    let mut w = World::new(ka, fault);
    w.out.push(json!({"e": "reset", "b": b, "src": src, "ka": ka}).to_string());
    let mut drift = false;
    for s in stims {
        if !w.apply(s) {
            drift = !w.panicked;
            break;
        }
    }
    if !drift {
        w.epilogue(rng);
    }
    (std::mem::take(&mut w.out), drift)
}

fn run_random(b: usize, rng: &mut StdRng, len: usize, fault: &str) -> Vec<String> {
    let ka = match rng.gen_range(0..6) {
        0 => vec![true, true],
        1 => vec![false, false],
        2 => vec![false, true],
        _ => vec![true, false],
    };
    // most executions stay within the property's scope (two overlapping connections per peer)
    let overlap = if rng.gen_bool(0.12) { 3 } else { 2 };
    let max_cid = rng.gen_range(3..=14);
    let mut w = World::new(&ka, fault);
    w.dropper = rng.gen_bool(0.25);
    w.out.push(json!({"e": "reset", "b": b, "src": "random", "ka": ka, "overlap": overlap}).to_string());
    for _ in 0..len {
        if w.panicked {
            break;
        }
        let en = w.enabled(rng, overlap, max_cid);
        let s = en.choose(rng).unwrap().clone();
        w.apply(&s);
        if rng.gen_bool(0.03) {
            w.settle(rng);
        }
    }
    w.epilogue(rng);
    std::mem::take(&mut w.out)
}

fn main() {
    let args = Args::parse();
    quiet_panics();
    let rt = tokio::runtime::Builder::new_current_thread().enable_time().build().expect("runtime");
    let _guard = rt.enter();
    let seed = args.u64("seed", 1);
    let out = args.str("out", "trace.ndjson");
    let fault = std::env::var("VERIF_FAULT").unwrap_or_default();
    let mut rng = StdRng::seed_from_u64(seed);
    let mut lines = vec![];
    let (mut nb, mut drift) = (0usize, 0usize);
    if let Some(path) = args.get("behaviours") {
        for b in read_jsonl(path) {
            let stims = b["stims"].as_array().unwrap();
            let (l, d) = run_behaviour(nb, &ka_of(&b["ka"]), stims, "tlc", &fault, &mut rng);
            drift += d as usize;
            lines.extend(l);
            nb += 1;
        }
    }
    let nrandom = args.u64("random", 0) as usize;
    let rlen = args.u64("len", 60) as usize;
    for _ in 0..nrandom {
        lines.extend(run_random(nb, &mut rng, rlen, &fault));
        nb += 1;
    }
    let mut netsum = json!({});
    if let Some(n) = args.get("net") {
        // real nodes over loopback TCP run on their own multi-threaded runtime
        drop(_guard);
        let default = std::panic::take_hook();
        std::panic::set_hook(Box::new(move |info| {
            net::PANICS.lock().unwrap().push(format!("{info}"));
            let _ = &default;
        }));
        let plan = if n.contains(':') { n.to_string() } else { format!("tcp:mix:{n}") };
        let (l, s) = net::run_net(&plan, seed, nb);
        if let Some(path) = args.get("netout") {
            write_lines(path, &l);
        } else {
            lines.extend(l);
        }
        netsum = s;
    }
    let events = lines.iter().filter(|l| l.contains("\"e\":\"step\"")).count();
    let panics = lines.iter().filter(|l| l.contains("\"panic\":true")).count();
    write_lines(&out, &lines);
    println!("SUMMARY {}", json!({"behaviours": nb, "events": events, "not_applicable_stimulus": drift, "panics": panics, "net": netsum}));
}
